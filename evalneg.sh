#!/bin/bash
# usage: evalneg.sh <patch.diff> <name> : a behaviour-preserving change must keep the suite green and EVERY quick check silent
patch=$(realpath $1); name=$2
wt=/tmp/ev/$name; out=/tmp/ev/out-$name
rm -rf $out; mkdir -p /tmp/ev $out
git -C /repo worktree remove --force $wt 2>/dev/null
git -C /repo worktree add -q --detach $wt HEAD || exit 9
git -C $wt apply $patch || { echo "RESULT $name APPLY-FAILED"; git -C /repo worktree remove --force $wt; exit 8; }
suite=$(cd $wt && PYTHONPATH=$wt/src /venv/bin/python -m pytest -q -p no:cacheprovider --timeout=900 2>&1 | tail -1)
res=""
for c in $(cd /verif && /venv/bin/python -m tlmc list); do
  o=$(cd /verif && TLMC_SRC=$wt/src TLMC_OUT=$out TLMC_NO_REEXEC=1 timeout 1800 /venv/bin/python -m tlmc check $c 2>&1); rc=$?
  if [ $rc -ne 0 ]; then res="$res | $c rc=$rc $(echo "$o" | grep -m1 'signature:' | sed 's/ *signature: //')"; fi
done
echo "RESULT $name suite=[$suite] alarms:[$res ]"
git -C /repo worktree remove --force $wt
