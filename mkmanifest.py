#!/usr/bin/env python3
"""Regenerates /verif/MANIFEST.json from the table below (python3 mkmanifest.py)."""
import json, os

CHECKS = {
 "C01": ("round trip unmarshal(T, marshal(v, t=T)) judged by class- and offset-aware equality on every term of U_1(L) (all spellings), R_2(K)/U_2(K), depth-3 spines and class templates P0-P4 x every value of V(T; w, r); weak fixpoint for demonstrably ambiguous unions", "§6 C01"),
 "C02": ("codec round trip, stdlib-json parse-back equals marshal, agreement of typelib.encode/decode, Codec.encode/decode and encoder(marshal(..)) under three encoder/decoder configurations, bytes-like roots verbatim through Codec AND the top-level entry points under every configuration; a type named by string from two modules that bind the name differently; every str-keyed term x every value", "§6 C02"),
 "C03": ("for every term and every input of the fixed pool X0, all wire renderings in all text carriers and every single (thorough: double) corruption of the wire forms, unmarshal raises or returns a value accepted by an independent structural conformance checker", "§6 C03"),
 "C04": ("scalar text / numeric wire forms: Python's own printers as oracle over boundary alphabets and complete sweeps of single dimensions (all dates, all minute offsets, all seconds of day), independent ISO-8601 duration reader, epoch readings under four time zones, cache-warming twins", "§6 C04"),
 "C05": ("compositional oracle: every composite is rebuilt from member values converted by independently obtained member routines; adversarial naming programs (shared field names, same-named classes in two modules, diamonds, chains), all documented source shapes (mapping, pairs, iterator, set of pairs, foreign object, same-class instance with raw members, literal text), exception parity", "§6 C05"),
 "C06": ("closure of marshal output over exact builtin classes, json.dumps acceptance, determinism, freshness (identity-disjoint containers), input unchanged, Literal non-members rejected; every term x every value plus subclass-instance variants, plus unsubscripted container targets (freshness down to the typed depth); a raise on a valid value is reported", "§6 C06"),
 "C07": ("every cyclic class topology over <=2 (thorough 3) classes x edge kinds x module styles x root forms x depths 0..12 (thorough ..50): plus links through NewType / value alias / PEP 604 mixed unions, classes hinted only by __init__, dataclasses defining __call__, 23 recursive-alias programs (alias as root, below the root, as class field): build terminates, every level converted (level-dependent payloads compared with the value built directly), root instances with raw members, round trip, codec, both build orders", "§6 C07"),
 "C08": ("reference union computed from independently built member routines in declared order (None first wherever declared; members that themselves admit None) for every ordered member tuple of length 2-3 (thorough 4) over a 12-type pool plus pairs/triples with bool and bytes members (members related by inheritance, rejection by UnicodeDecodeError), all None positions and spellings x the whole input pool, both directions", "§6 C08"),
 "C09": ("invariants I1-I11 of graph.static_order (termination, no duplicates, root last, members first against an independent member function, deferred nodes flagged/revisits/denote exactly, input forms agree, memo not corruptible) on every term, every cyclic and sharing topology, nested and same-named classes", "§6 C09"),
 "C10": ("every signature shape of <=5 (thorough 6) parameters over the 5 kinds x annotation masks x default patterns x every call shape accepted by Python plus single-mistake rejected calls, distinguishable per-parameter annotations; oracle inspect.Signature.bind + public unmarshal; function/method/callable-instance/class flavours, bind and wrap, warm second call; special programs: textually identical string-annotated signatures in two modules (both load orders), callables whose first parameter is an annotated *args", "§6 C10"),
 "C11": ("behavioural equivalence of wrapped and unwrapped programs for every wrapper chain (NewType, value alias, string alias, Final, ClassVar, string reference, ForwardRef) of length <=2 (thorough 3) at root, collection argument, mapping value, tuple member, union member and class field, from every reference origin; special programs for references through helper modules, qualifiers behind text, dotted composite alias texts, Final on plain-class fields", "§6 C11"),
 "C12": ("stateless exhaustive exploration of operation histories (build / marshal / unmarshal / encode / decode / mutate-result / mutate-input / clear-caches over 14 colliding families, ~110 operations): every sequence up to depth 2 (thorough 3), every sequence up to depth 3 (4) whose probe is preceded by an operation of its family or an environment move, family-local sequences to depth 5 (6) x every probe, each compared with the probe run alone in the cold state; aliasing and input-mutation audited after every step", "§6 C12"),
 "C13": ("pass-through of every valid value of every union-free/Optional-only term, and idempotence unmarshal(T, unmarshal(T, x)) over the fixed input pool and all wire renderings", "§6 C13"),
 "C14": ("five text carriers give pairwise-same results or all reject, for every term x wire texts / look-alikes / malformed JSON / control and non-ASCII strings; JSON and Python-literal text of wire values equivalent to the decoded value; serdes.load/strload/decode against json.loads incl. whitespace-framed / indented JSON, results changed in place never leak into a later load; str/int subclasses as target types", "§6 C14"),
 "C15": ("every annotation of the extended grammar (Any, object, bare generics, TypeVars, Callable, type[X], user generics, hint-less classes) to depth 2 (thorough: complete depth 2 + depth-3 spines): routines and codec construct within the wall limit, unresolvable positions pass an opaque sentinel through while siblings are converted, rebuilding (again, after forgetting only the built routines, after clearing every cache) agrees", "§6 C15"),
 "C16": ("explicit-state BFS on the real TypeContext against a plain-dict reference model: complete reachable state space (fixpoint) for 2 base types x 6 key forms, depth-bounded for 3 bases, fixpoints for falsy stored values and for wrappers of wrappers (10 key forms), all insertion orders of <=3 of 9 keys built on function-local classes; every lookup of every key compared in every state, lookups never change later lookups", "§6 C16"),
 "C17": ("every public predicate/accessor of py/inspection x every catalogue entry of its declared domain against Python's own answers (issubclass vs ABCs, typing.get_origin/get_args, dataclasses/typing/inspect helpers) with admissible-answer sets, no-raise, spelling independence, stability, origin() instantiable, wrapper chains to depth 3, reordered-twin evaluation", "§6 C17, Appendix A"),
 "C18": ("serdes.iteritems/itervalues against a reference iteration model over every mapping kind, every structured flavour (private/ClassVar fields, slots-only, vars-only, named tuples with 2-length first fields, two-level hierarchies of every flavour), containers of sizes 0-3 (thorough 4) over 10 element kinds, one-shot iterators; exactly-once multiset check, input unchanged, per-class strategy cache sequences", "§6 C18"),
 "C19": ("every dataclass spec (0-3, thorough 0-5 fields x default kinds x flags x base kinds x getstate x dict/weakref, ClassVar/InitVar pseudo-fields) loaded twice (plain / slotted) and compared on construction, repr, eq/order/hash tables, copy, deepcopy, pickle 2-5, slots, dict, weakref, frozen-ness; all decoration histories of length <=3 (thorough 4) incl. failing decorations over the module-global guard", "§6 C19"),
 "C20": ("future.transform on every expression of the annotation grammar to depth 2 plus depth-3 (thorough 4) spines, every parenthesisation of |-chains, metadata calls with keywords / operators / attribute-of-subscript, and the non-annotation family: symbolic meaning, real meaning via get_origin/get_args, no PEP 604 union left, fixpoint, unchanged tree, cache/union= behaviour", "§6 C20"),
}
TECH = {
 "C12": "stateless exhaustive exploration of operation histories to a depth bound on the implementation, reference = same operation in the cold state",
 "C16": "explicit-state breadth-first search of the implementation's reachable states to a fixpoint, judged against a reference model in every state",
 "C19": "bounded exhaustive enumeration of class specifications plus exhaustive exploration of decoration histories over the guard state",
}
DEFAULT_TECH = "bounded exhaustive enumeration of programs and inputs on the implementation (small-scope model checking), reference-model oracle"
NOTE = "bounded to the alphabets, depths and shapes stated in DESIGN.md §3/§7 and in the evidence file; each program starts from the cold state (all typelib caches cleared) and history independence is C12's obligation; oracles are Python's own semantics (printers, isinstance, inspect, typing) - trusted"

here = os.path.dirname(os.path.abspath(__file__))
built = sorted(f[:-3].upper() for f in os.listdir(os.path.join(here, "tlmc", "checks")) if f.startswith("c") and f[1:3].isdigit() and f.endswith(".py"))
checks = []
for cid in built:
    text, ref = CHECKS[cid]
    checks.append({
        "property_id": cid,
        "quick_cmd": f"/venv/bin/python -m tlmc check {cid} --tier quick",
        "thorough_cmd": f"/venv/bin/python -m tlmc check {cid} --tier thorough",
        "evidence_file": f"/verif/evidence/{cid}.json",
        "replay_cmd_template": "/venv/bin/python -m tlmc replay {path}",
        "engine": "tlmc",
        "level_claimed": {"category": "model_checking", "text": text, "design_ref": "DESIGN.md " + ref},
        "level_note": NOTE,
        "technique": TECH.get(cid, DEFAULT_TECH),
    })
na = [{"property_id": c, "reason": "check not built yet in this round (planned: bounded exhaustive enumeration, see DESIGN.md §6); not claimed until it exists"} for c in sorted(CHECKS) if c not in built]
m = {
 "version": 1,
 "setup_cmd": "true",
 "hooks": {
  "guard": "SEANDSTEWART_PYTHON_TYPELIB_VERIF",
  "enable": "no hooks exist: checks import /repo/src through /venv's editable install (TLMC_SRC=<dir> overrides the source tree for scratch worktrees)",
  "baseline_off_cmd": "cd /repo && /venv/bin/python -m pytest -ra -q -p no:cacheprovider --timeout=900 --continue-on-collection-errors",
  "source_commits": [],
  "add_only": True,
 },
 "engines": [{"name": "tlmc", "path": "/verif/tlmc", "serves_properties": built,
              "kind_free_text": "hand-written bounded-exhaustive explorer for Python: deterministic small-scope enumeration of programs / inputs / operation histories executed on the real library, explicit-state BFS with state hashing where the state space is finite, reference-model oracles, fresh-interpreter re-execution of every candidate violation"}],
 "checks": checks,
 "not_applicable": na,
 "notes": "Known findings (genuine defects recorded, not repaired) are in /verif/known_findings.json; repaired defects are listed there as status=fixed with their /repo commit. See DESIGN.md §5 and §11.",
}
json.dump(m, open(os.path.join(here, "MANIFEST.json"), "w"), indent=1)
print("checks:", built, "not claimed:", [x["property_id"] for x in na])
