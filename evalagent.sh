#!/bin/bash
# usage: evalagent.sh <ID> [extra checks...] : evaluates ${MUT:-/tmp/mut}/<ID>/out/m{1,2,3}.diff in parallel
id=$1; shift
for k in 1 2 3; do
  d=${MUT:-/tmp/mut}/$id/out/m$k.diff
  [ -f $d ] || continue
  ./evalmut.sh $d ${MUT:-/tmp/mut}/$id/out/m${k}_demo.py ${id}_m$k $id "$@" &
done
wait
