#!/bin/bash
# usage: ./run_all.sh [tier] [ids...]   - runs the registered checks and prints one summary line each
tier=${1:-quick}; shift
ids=${@:-$(/venv/bin/python -m tlmc list)}
for c in $ids; do
  out=$(/venv/bin/python -m tlmc check $c --tier $tier 2>&1); rc=$?
  echo "rc=$rc $(echo "$out" | tail -1)"
  echo "$out" | grep -E "^(VIOLATION|UNREPRODUCED|HARNESS)" | head -5
done
