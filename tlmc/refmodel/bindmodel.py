"""bindmodel: the reference model of C10 (DESIGN §6 C10).

Everything here is derived from Python itself (`inspect.Signature.bind`) and from the public
`typelib.unmarshal`; nothing is a snapshot of what `typelib.binding` currently does.

* signature space: every legal kind order  PO* PK* VA? KO* VK?  with <= n parameters
* a call is fully described by (number of positional arguments, tuple of keyword names): every argument
  value is the one bytes object RAW = b"7"
* `inspect.signature(obj).bind` (fed with position/name *markers*) decides acceptance and tells where
  every argument lands
* the expected value received by `f` for an argument landing on parameter i is
  `typelib.unmarshal(annotation of i, RAW)`; RAW itself when i is unannotated; the default when omitted
"""
from __future__ import annotations

import functools
import inspect
import itertools

KINDS = ("PO", "PK", "VA", "KO", "VK")
_PYKIND = {
    inspect.Parameter.POSITIONAL_ONLY: "PO",
    inspect.Parameter.POSITIONAL_OR_KEYWORD: "PK",
    inspect.Parameter.VAR_POSITIONAL: "VA",
    inspect.Parameter.KEYWORD_ONLY: "KO",
    inspect.Parameter.VAR_KEYWORD: "VK",
}
# i-th parameter is annotated with the i-th type. The 6th is `complex`, not `bytes` as DESIGN says:
# unmarshal(bytes, b"7") == b"7" is indistinguishable from "untouched".
TYPES_SRC = ("int", "str", "float", "decimal.Decimal", "fractions.Fraction", "complex")
RAW = b"7"
EXTRA_KW = ("x0", "x1")
FLAVOURS = ("function", "method", "classmethod", "staticmethod", "instance", "class")


# ------------------------------------------------------------------------------------------------ shapes
@functools.lru_cache(None)
def kind_shapes(nmax: int) -> tuple:
    """All (po, pk, va, ko, vk) with po+pk+va+ko+vk <= nmax, va, vk in {0, 1}; simplest first."""
    out = []
    for n in range(nmax + 1):
        for po in range(n + 1):
            for pk in range(n - po + 1):
                for va in (0, 1):
                    for vk in (0, 1):
                        ko = n - po - pk - va - vk
                        if ko >= 0:
                            out.append((po, pk, va, ko, vk))
    return tuple(out)


def kinds_of(shape) -> tuple:
    po, pk, va, ko, vk = shape
    return ("PO",) * po + ("PK",) * pk + ("VA",) * va + ("KO",) * ko + ("VK",) * vk


def row_bits(kinds) -> str:
    """Truth-table row in the field order of binding._Truth: pos_only, kwd_only, args, kwargs, pos_or_kwd."""
    s = set(kinds)
    return "".join("1" if k in s else "0" for k in ("PO", "KO", "VA", "VK", "PK"))


def default_masks(kinds) -> tuple:
    """A few legal default patterns (bit i = parameter i has a default), deduplicated, 'none' first:
    none / trailing one (last positional + last kw-only) / all / every PK (not PO) + first kw-only."""
    pos = [i for i, k in enumerate(kinds) if k in ("PO", "PK")]
    pks = [i for i, k in enumerate(kinds) if k == "PK"]
    kos = [i for i, k in enumerate(kinds) if k == "KO"]
    pats = [0]
    m = 0
    if pos:
        m |= 1 << pos[-1]
    if kos:
        m |= 1 << kos[-1]
    pats.append(m)
    pats.append(sum(1 << i for i in pos + kos))
    m = sum(1 << i for i in pks)
    if kos:
        m |= 1 << kos[0]
    pats.append(m)
    out = []
    for p in pats:
        if p not in out:
            out.append(p)
    return tuple(out)


# ------------------------------------------------------------------------------------------------ source
def params_src(kinds, mask: int, dmask: int, lead: str | None = None) -> str:
    parts = [lead] if lead else []
    has_va = "VA" in kinds
    star_done = False
    for i, k in enumerate(kinds):
        nm = f"p{i}"
        ann = f": {TYPES_SRC[i]}" if mask >> i & 1 else ""
        dflt = ((" = " if ann else "=") + f'("D", {i})') if dmask >> i & 1 else ""
        if k == "VA":
            parts.append("*" + nm + ann)
        elif k == "VK":
            parts.append("**" + nm + ann)
        else:
            if k == "KO" and not has_va and not star_done:
                parts.append("*")
                star_done = True
            parts.append(nm + ann + dflt)
        if k == "PO" and (i + 1 == len(kinds) or kinds[i + 1] != "PO"):
            parts.append("/")
    return ", ".join(parts)


def capture_src(kinds) -> str:
    return '("R", ' + "".join(f"p{i}, " for i in range(len(kinds))) + ")"


def module_src(kinds, mask: int, dmask: int, flavours: bool) -> str:
    """Source of one synthesised program. Every callable appends what it returns to LOG and returns a tuple
    ("R", p0, p1, ...) capturing every parameter value it received (the class stores it on self.got)."""
    cap = capture_src(kinds)
    ps = params_src(kinds, mask, dmask)
    src = [
        "import decimal, fractions",
        "LOG = []",
        f"def f({ps}):",
        '    "doc of f"',
        f"    r = {cap}",
        "    LOG.append(r)",
        "    return r",
    ]
    if flavours:
        pself = params_src(kinds, mask, dmask, "self")
        pcls = params_src(kinds, mask, dmask, "cls")
        src += [
            "class C:",
            '    "doc of C"',
            f"    def m({pself}):",
            '        "doc of m"',
            f"        r = {cap}",
            "        LOG.append(r)",
            "        return r",
            "    @classmethod",
            f"    def cm({pcls}):",
            '        "doc of cm"',
            f"        r = {cap}",
            "        LOG.append(r)",
            "        return r",
            "    @staticmethod",
            f"    def sm({ps}):",
            '        "doc of sm"',
            f"        r = {cap}",
            "        LOG.append(r)",
            "        return r",
            f"    def __call__({pself}):",
            '        "doc of call"',
            f"        r = {cap}",
            "        LOG.append(r)",
            "        return r",
        ]
        for cname in ("K1", "K2"):
            src += [
                f"class {cname}:",
                f'    "doc of {cname}"',
                f"    def __init__({pself}):",
                '        "doc of init"',
                f"        self.got = {cap}",
                "        LOG.append(self)",
            ]
    return "\n".join(src) + "\n"


def sig_src(kinds, mask: int, dmask: int) -> str:
    return f"def f({params_src(kinds, mask, dmask)})"


# ------------------------------------------------------------------------------------------------ calls
class Call:
    """One call shape: `npos` positional arguments and the keyword names `kws` (all values RAW).

    accepted : inspect.Signature.bind accepts it
    land     : per parameter i - None (omitted: f sees its default) | "P" | "K" (named parameter bound by
               position / keyword) | int (VA: number of members) | tuple of names (VK: member names)
    reasons  : for rejected calls, the structural reason classes (tuple of str, sorted)
    classes  : call-shape classes for accepted calls
    """

    __slots__ = ("npos", "kws", "accepted", "land", "reasons", "classes", "mistakes")

    def __init__(self, npos, kws):
        self.npos = npos
        self.kws = kws
        self.accepted = False
        self.land = None
        self.reasons = ()
        self.classes = ()
        self.mistakes = 0

    def key(self):
        return (self.npos, self.kws)

    def render(self):
        parts = ['b"7"'] * self.npos + [f'{k}=b"7"' for k in self.kws]
        return "(" + ", ".join(parts) + ")"


def build_twin(kinds, dmask: int):
    """An annotation-free twin of the program's function, built from the *source text* by exec (acceptance and
    landing do not depend on annotations). Calling it IS "what Python itself does"; inspect.signature(twin).bind
    is the documented model of that. Both are consulted (see classify)."""
    ns: dict = {}
    exec(f"def f({params_src(kinds, 0, dmask)}): return {capture_src(kinds)}", ns)  # noqa: S102
    return ns["f"]


def classify(twin, sig: inspect.Signature, kinds, dmask: int, npos: int, kws: tuple) -> Call:
    """accepted = True / False when the real call of the twin and Signature.bind agree; None when they do not
    (CPython < 3.12.4 Signature.bind wrongly rejects f(p0=..) for `def f(p0=d, /, **kw)`): such calls are not
    judged (neither reading is imposed)."""
    c = Call(npos, kws)
    n = len(kinds)
    names = [f"p{i}" for i in range(n)]
    a = tuple(("P", j) for j in range(npos))
    k = {nm: ("K", nm) for nm in kws}
    try:
        real = twin(*a, **k)
    except TypeError:
        real = None
    try:
        ba = sig.bind(*a, **k)
    except TypeError:
        ba = None
    if (real is None) != (ba is None):
        c.accepted = None
        return c
    if ba is None:
        c.accepted = False
        c.reasons, c.mistakes = reject_reasons(kinds, dmask, npos, kws)
        return c
    ba2 = sig.bind(*a, **k)
    ba2.apply_defaults()
    if ("R", *ba2.arguments.values()) != real:
        c.accepted = None
        return c
    c.accepted = True
    land = []
    classes = set()
    for i, kd in enumerate(kinds):
        nm = names[i]
        if nm not in ba.arguments:
            land.append(0 if kd == "VA" else () if kd == "VK" else None)
            if kd not in ("VA", "VK"):
                classes.add("default-omitted")
            continue
        v = ba.arguments[nm]
        if kd == "VA":
            land.append(len(v))
            if v:
                classes.add("extra-args")
        elif kd == "VK":
            land.append(tuple(v))
            if v:
                classes.add("extra-kwargs")
            if any(x in names for x in v):
                classes.add("extra-kwargs-shadowing-name")
        else:
            land.append(v[0])
            if kd == "PK":
                classes.add("pk-by-position" if v[0] == "P" else "pk-by-keyword")
    c.land = tuple(land)
    c.classes = tuple(sorted(classes))
    return c


def reject_reasons(kinds, dmask, npos, kws) -> tuple:
    """(structural reason classes, number of individual mistakes) of a rejected call (own analysis,
    independent of error-message text)."""
    n = len(kinds)
    named_pos = [i for i, k in enumerate(kinds) if k in ("PO", "PK")]
    has_va = "VA" in kinds
    has_vk = "VK" in kinds
    rs = set()
    m = 0
    if npos > len(named_pos) and not has_va:
        rs.add("too-many-positionals")
        m += npos - len(named_pos)
    for i in range(n):
        nm = f"p{i}"
        kd = kinds[i]
        by_pos = kd in ("PO", "PK") and i < npos
        by_kw = nm in kws
        if kd == "PK" and by_pos and by_kw:
            rs.add("duplicate-binding")
            m += 1
        if kd in ("PO", "VA", "VK") and by_kw and not has_vk:
            rs.add("po-or-variadic-name-by-keyword")
            m += 1
        if kd == "PO" and not by_pos and not (dmask >> i & 1):
            rs.add("missing-required")
            m += 1
        if kd in ("PK", "KO") and not by_pos and not by_kw and not (dmask >> i & 1):
            rs.add("missing-required")
            m += 1
    if not has_vk and any(x in EXTRA_KW for x in kws):
        rs.add("unknown-keyword")
        m += sum(1 for x in kws if x in EXTRA_KW)
    return (tuple(sorted(rs)) or ("other",)), m


@functools.lru_cache(4096)
def calls_for(kinds: tuple, dmask: int, max_mistakes: int = 1, extra_pos: int = 2) -> tuple:
    """(calls, n_undecided). Every call (npos, kws) with npos <= #named-positional + extra_pos and kws any
    subset of {all parameter names} + {x0, x1} (kws in signature order, then x0, x1), classified by the real
    call of the twin and by Signature.bind.

    All accepted calls are kept. Rejected calls are kept when they contain at most `max_mistakes` individual
    mistakes (a missing required parameter, a duplicate binding, an unknown keyword, a positional-only or
    variadic name used as keyword without **kw, a surplus positional without *args)."""
    n = len(kinds)
    twin = build_twin(kinds, dmask)
    sig = inspect.signature(twin)
    named_pos = sum(1 for k in kinds if k in ("PO", "PK"))
    names = [f"p{i}" for i in range(n)] + list(EXTRA_KW)
    out = []
    undecided = 0
    for npos in range(named_pos + extra_pos + 1):
        for r in range(len(names) + 1):
            for kws in itertools.combinations(names, r):
                c = classify(twin, sig, kinds, dmask, npos, kws)
                if c.accepted is None:
                    undecided += 1
                    continue
                if not c.accepted and c.mistakes > max_mistakes:
                    continue
                out.append(c)
    # simplest first: accepted before rejected, fewer arguments first
    out.sort(key=lambda c: (not c.accepted, c.npos + len(c.kws), c.npos, c.kws))
    return tuple(out), undecided


# ------------------------------------------------------------------------------------------------ expectation
_EXP = None


def conversions() -> tuple:
    """EXP[i] = typelib.unmarshal(i-th annotation, RAW), through the public API, once per process.
    Seven pairwise different (class, value) results together with RAW (asserted)."""
    global _EXP
    if _EXP is None:
        import decimal  # noqa: F401
        import fractions  # noqa: F401

        import typelib

        ns = {"decimal": decimal, "fractions": fractions}
        exp = tuple(typelib.unmarshal(eval(t, ns), RAW) for t in TYPES_SRC)  # noqa: S307
        allv = exp + (RAW,)
        for i, x in enumerate(allv):
            for y in allv[i + 1 :]:
                assert type(x) is not type(y), ("conversions are not pairwise distinguishable", x, y)
        # the no-op claim for unannotated parameters (annotation == Parameter.empty)
        assert typelib.unmarshal(inspect.Parameter.empty, RAW) == RAW
        _EXP = exp
    return _EXP


def expected_capture(sig: inspect.Signature, call: Call, exp=None) -> tuple:
    """What f must return for an accepted call: ("R", v0, v1, ...), from the *annotations in sig* (read off
    the real callable) and the landing computed by Signature.bind."""
    exp = exp or conversions()
    out = ["R"]
    for i, (nm, p) in enumerate(sig.parameters.items()):
        land = call.land[i]
        conv = RAW if p.annotation is inspect.Parameter.empty else exp[TYPES_BY_ANN[p.annotation]]
        kd = _PYKIND[p.kind]
        if kd == "VA":
            out.append((conv,) * land)
        elif kd == "VK":
            out.append({k: conv for k in land})
        elif land is None:
            out.append(p.default)
        else:
            out.append(conv)
    return tuple(out)


class _TypesByAnn(dict):
    def __missing__(self, ann):
        import decimal
        import fractions

        table = {int: 0, str: 1, float: 2, decimal.Decimal: 3, fractions.Fraction: 4, complex: 5}
        self.update(table)
        return table[ann]


TYPES_BY_ANN = _TypesByAnn()


def kinds_of_signature(sig: inspect.Signature) -> tuple:
    return tuple(_PYKIND[p.kind] for p in sig.parameters.values())
