"""slotmodel: the reference model of C19 ("slotted dataclasses behave like the original dataclass").

The model is *Python itself*: the plain dataclass ``OC`` (the o-world) is the specification of how instances are
constructed, compared, hashed, repr'd, copied and pickled; the class ``SC`` returned by ``classes.slotted`` (the
s-world) must give the same observable answers.  The structural clauses (``__slots__``, ``__dict__``, weakref
support) are computed from the class statement (own annotations in declaration order) and from what the base
class provides according to the interpreter (``__dictoffset__`` / ``__weakrefoffset__``).

``judge`` returns a list of ``(clause, mode, what)``; an empty list means SC conforms.  Nothing here looks at what
the library "currently returns": every expectation is either a fact about OC or a fact stated by the property.
"""
from __future__ import annotations

import copy
import dataclasses
import operator
import pickle
import weakref

PICKLE_PROTOCOLS = (2, 3, 4, 5)
_MISSING = object()


class OriginalFails(RuntimeError):
    """An operation fails on the ORIGINAL dataclass: nothing can be asked of the slotted one (the caller decides whether
    this is a broken fixture - e.g. a slotted base class - or a harness error)."""


class Info:
    """Facts about one class spec that the model needs (derived from the class *statement*, not from SC)."""

    __slots__ = ("cname", "params", "own", "frozen", "eq", "order", "gs", "want_dict", "want_weakref", "plain_default")

    def __init__(self, cname, params, own, frozen, eq, order, gs, want_dict, want_weakref, plain_default):
        self.cname = cname
        self.params = params  # [(name, kind)] all __init__ parameters in order; kind in 'n' 'd' 'f'
        self.own = own  # names of the fields declared in the class body, declaration order
        self.frozen = frozen
        self.eq = eq
        self.order = order
        self.gs = tuple(gs) if not isinstance(gs, bool) else (("__getstate__", "__setstate__") if gs else ())  # user hooks declared
        self.want_dict = want_dict
        self.want_weakref = want_weakref
        self.plain_default = plain_default  # {name: default value} for kind 'd'


# ---------------------------------------------------------------- structural expectations


def provides(base) -> tuple[bool, bool]:
    """(instances have __dict__, instances are weak-referenceable) for a base class, as the interpreter sees it."""
    return (base.__dictoffset__ != 0, base.__weakrefoffset__ != 0)


def expected_slots(own, want_dict, want_weakref, base_dict, base_weakref):
    """(field prefix in declaration order, set of extra slot names)."""
    extras = set()
    if want_dict and not base_dict:
        extras.add("__dict__")
    if want_weakref and not base_weakref:
        extras.add("__weakref__")
    return tuple(own), extras


def classify_slots(actual, own, extras, inherited_fields=()):
    """None if `actual` is admissible, else a mode string (abstract) - the order of the extras is free."""
    if isinstance(actual, str) or not isinstance(actual, (tuple, list)):
        return "not-a-tuple"
    actual = tuple(actual)
    names = [s for s in actual if s not in ("__dict__", "__weakref__")]
    got_extras = [s for s in actual if s in ("__dict__", "__weakref__")]
    for s in names:
        if s not in own:
            return "extra:inherited-field" if s in inherited_fields else "extra:unknown-name"
    for s in own:
        if s not in names:
            return "missing:field"
    if tuple(names) != tuple(own):
        return "field-order" if sorted(names) == sorted(own) else "duplicate-field"
    for s in got_extras:
        if s not in extras:
            return "extra:" + s
    for s in sorted(extras):
        if s not in got_extras:
            return "missing:" + s
    if len(got_extras) != len(set(got_extras)):
        return "duplicate:" + got_extras[0]
    if actual[: len(names)] != tuple(names):
        return "extras-before-fields"
    return None


# ---------------------------------------------------------------- argument patterns


def _val(j, kind, delta=0):
    v = j + 1 + delta
    return [v] if kind == "f" else v


def arg_tuples(params):
    """2-3 distinct full argument tuples A, B (last differs), C (first differs)."""
    n = len(params)
    a = tuple(_val(j, k) for j, (_, k) in enumerate(params))
    out = [a]
    if n >= 1:
        b = list(a)
        b[-1] = _val(n - 1, params[-1][1], 10)
        out.append(tuple(b))
        c = list(a)
        c[0] = [0] if params[0][1] == "f" else 0
        out.append(tuple(c))
    return out


def patterns(params):
    """[(label, args, kwargs)] - all-positional (A, A', B, C), all-keyword (A), defaults omitted (A twice)."""
    names = [p for p, _ in params]
    tups = arg_tuples(params)
    a = tups[0]
    out = [("pos:A", a, {}), ("pos:A'", a, {})]
    for lab, t in zip("BC", tups[1:]):
        out.append(("pos:" + lab, t, {}))
    if names:
        out.append(("kw:A", (), dict(zip(names, a))))
    req = tuple(v for v, (_, k) in zip(a, params) if k == "n")
    if len(req) != len(a):
        out.append(("omit:A", req, {}))
        out.append(("omit:A'", req, {}))
    return out


def _fresh(x):
    """argument values are rebuilt per call so that no list is shared between instances or worlds"""
    if type(x) is dict:
        return {k: (list(v) if type(v) is list else v) for k, v in x.items()}
    return tuple(list(v) if type(v) is list else v for v in x)


# ---------------------------------------------------------------- observation helpers


def _obs(f, *a, **k):
    try:
        r = f(*a, **k)
    except Exception as e:  # noqa: BLE001
        return ("raises", type(e).__name__, str(e)[:100])
    return ("ok", r)


def _has_dict(inst):
    """True / False / 'broken:<Exc>' (hasattr only swallows AttributeError)"""
    try:
        inst.__dict__
    except AttributeError:
        return False
    except Exception as e:  # noqa: BLE001
        return "broken:" + type(e).__name__
    return True


def _hook_calls(o_mod, s_mod):
    """((getstate calls, setstate calls) in the o-world, same in the s-world) - the synthesised hooks count themselves"""
    return tuple((len(getattr(m, "GETSTATE_CALLS", ())), len(getattr(m, "SETSTATE_CALLS", ()))) for m in (o_mod, s_mod))


def _kind(o):
    return "ok" if o[0] == "ok" else "raises:" + o[1]


_CMP = (("eq", operator.eq), ("ne", operator.ne))
_ORD = (("lt", operator.lt), ("le", operator.le), ("gt", operator.gt), ("ge", operator.ge))


def _table(insts, ops):
    out = []
    for name, op in ops:
        for i, a in enumerate(insts):
            for j, b in enumerate(insts):
                try:
                    r = op(a, b)
                    r = r if isinstance(r, bool) else "non-bool:" + type(r).__name__
                except Exception as e:  # noqa: BLE001
                    r = "raises:" + type(e).__name__
                out.append((name, i, j, r))
    return out


def _fieldvals(inst, names):
    out = []
    for n in names:
        try:
            out.append(getattr(inst, n))
        except Exception as e:  # noqa: BLE001
            out.append(("<unset>", type(e).__name__))
    return out


def _field_sig(cls):
    out = []
    for f in dataclasses.fields(cls):
        out.append(
            (
                f.name,
                f.type if isinstance(f.type, str) else getattr(f.type, "__name__", repr(f.type)),
                "MISSING" if f.default is dataclasses.MISSING else repr(f.default),
                "MISSING" if f.default_factory is dataclasses.MISSING else getattr(f.default_factory, "__name__", "?"),
                f.init,
                f.repr,
                f.compare,
                f.hash,
                f.kw_only,
            )
        )
    return out


# ---------------------------------------------------------------- the judge


def judge(OC, SC, info: Info, o_mod=None, s_mod=None, full=True, count=None):  # noqa: C901
    """Compare the s-world class SC with its specification OC.  `count(clause, n)` is called once per clause judged
    with the number of operations executed on SC and compared."""
    V: list[tuple[str, str, str]] = []
    cn = info.cname

    def bad(clause, mode, what):
        V.append((clause, mode, f"{cn}: {what}"))

    def cnt(clause, n=1):
        if count is not None:
            count(clause, n)

    # ---- meta: name, qualified name, module, metaclass, bases, dataclass-ness
    cnt("meta", 6)
    if not isinstance(SC, type):
        bad("meta", "not-a-class", f"slotted returned {type(SC).__name__}")
        return V
    if type(SC) is not type(OC):
        bad("meta", "metaclass", f"type(S)={type(SC).__name__} type(C)={type(OC).__name__}")
    if SC.__name__ != OC.__name__:
        bad("meta", "name", f"__name__ {SC.__name__!r} != {OC.__name__!r}")
    if SC.__qualname__ != OC.__qualname__:
        bad("meta", "qualname", f"__qualname__ {SC.__qualname__!r} != {OC.__qualname__!r}")
    exp_module = s_mod.__name__ if s_mod is not None else OC.__module__
    if SC.__module__ != exp_module:
        bad("meta", "module", f"__module__ {SC.__module__!r} != {exp_module!r}")
    if [b.__qualname__ for b in SC.__bases__] != [b.__qualname__ for b in OC.__bases__]:
        bad("meta", "bases", f"bases {SC.__bases__!r} != {OC.__bases__!r}")
    elif s_mod is not None and OC.__bases__ != (object,):
        if SC.__bases__[0] is not getattr(s_mod, SC.__bases__[0].__name__, None):
            bad("meta", "bases", f"base of S is not the module's base class: {SC.__bases__!r}")
    elif s_mod is None and SC.__bases__ != OC.__bases__:
        bad("meta", "bases", f"bases {SC.__bases__!r} != {OC.__bases__!r}")
    if not dataclasses.is_dataclass(SC) or repr(getattr(SC, "__dataclass_params__", None)) != repr(OC.__dataclass_params__):
        bad("meta", "dataclass-params", f"{getattr(SC, '__dataclass_params__', None)!r} != {OC.__dataclass_params__!r}")

    # ---- fields (names, types, defaults, factories)
    if full:
        cnt("fields")
        fo, fs = _obs(_field_sig, OC), _obs(_field_sig, SC)
        if fo != fs:
            bad("fields", "differs", f"dataclasses.fields: {fs!r} != {fo!r}")

    # ---- __slots__
    cnt("slots")
    base = OC.__bases__[0]
    sbase = SC.__bases__[0] if SC.__bases__ else object
    base_dict, base_weakref = provides(sbase)
    own, extras = expected_slots(info.own, info.want_dict, info.want_weakref, base_dict, base_weakref)
    inherited = [n for n, _ in info.params if n not in info.own]
    if "__slots__" not in SC.__dict__:
        bad("slots", "no-slots", "S has no __slots__ of its own")
    else:
        m = classify_slots(SC.__dict__["__slots__"], own, extras, inherited)
        if m is not None:
            exp = own + tuple(x for x in ("__dict__", "__weakref__") if x in extras)
            bad("slots", m, f"__slots__={SC.__dict__['__slots__']!r}, expected {exp!r} (base {base.__name__} provides dict={base_dict} weakref={base_weakref})")
    exp_dict = info.want_dict or base_dict
    exp_weakref = info.want_weakref or base_weakref

    # ---- construction + repr, every argument pattern
    pats = patterns(info.params)
    names = [p for p, _ in info.params]
    oi, si, labs = [], [], []
    for lab, a, k in pats:
        o = _obs(OC, *_fresh(a), **_fresh(k))
        if o[0] != "ok":
            raise OriginalFails(f"slotmodel: the ORIGINAL dataclass cannot be built with {lab} {a} {k}: {o}")
        s = _obs(SC, *_fresh(a), **_fresh(k))
        cnt("construct")
        if s[0] != "ok":
            bad("construct", "raises:" + s[1], f"{cn}(*{a}, **{k}) [{lab}] raises {s[1]}: {s[2]}")
            continue
        if type(s[1]) is not SC:
            bad("construct", "class", f"{cn}(*{a}, **{k}) is a {type(s[1]).__name__}, not S")
            continue
        cnt("repr")
        ro, rs = _obs(repr, o[1]), _obs(repr, s[1])
        if ro != rs:
            bad("repr", "differs" if rs[0] == "ok" else "raises:" + rs[1], f"[{lab}] repr {rs!r} != {ro!r}")
        fv_o, fv_s = _fieldvals(o[1], names), _fieldvals(s[1], names)
        if fv_o != fv_s:
            bad("construct" if not lab.startswith("omit") else "defaults", "field-values", f"[{lab}] fields {dict(zip(names, fv_s))} != {dict(zip(names, fv_o))}")
        oi.append(o[1])
        si.append(s[1])
        labs.append(lab)
    if len(si) != len(pats):
        return V  # cannot construct: the behavioural clauses are vacuous
    # arity parity
    if full:
        cnt("construct", 2)
        for a in ((0,) * (len(names) + 1), ()):
            o, s = _obs(OC, *a), _obs(SC, *a)
            if _kind(o) != _kind(s):
                bad("construct", "arity-parity", f"{cn}(*{a}): S {_kind(s)} vs C {_kind(o)}")

    # ---- defaults: omitted arguments give the default; default_factory is called per instance
    if full and "omit:A" in labs:
        i1, i2 = labs.index("omit:A"), labs.index("omit:A'")
        for n, k in info.params:
            if k == "d":
                cnt("defaults")
                v = getattr(si[i1], n, _MISSING)
                if v is _MISSING or v != info.plain_default[n]:
                    bad("defaults", "default-value", f"{n} omitted: got {v!r}, default is {info.plain_default[n]!r}")
            elif k == "f":
                cnt("defaults")
                v1, v2 = getattr(si[i1], n, _MISSING), getattr(si[i2], n, _MISSING)
                if v1 != [] or v2 != [] or type(v1) is not list:
                    bad("defaults", "factory-value", f"{n} omitted: got {v1!r}, default_factory=list")
                elif v1 is v2:
                    bad("defaults", "factory-shared", f"{n}: two instances share one list (factory not called per instance)")

    # ---- == / != / ordering tables
    to, ts = _table(oi, _CMP), _table(si, _CMP)
    cnt("eq", len(ts))
    if to != ts:
        d = next((x, y) for x, y in zip(to, ts) if x != y)
        bad("eq", f"{d[1][0]}:differs", f"{d[1][0]}({labs[d[1][1]]}, {labs[d[1][2]]}) = {d[1][3]} for S but {d[0][3]} for C")
    if full:
        sub = slice(None) if info.order else slice(0, 3)
        to, ts = _table(oi[sub], _ORD), _table(si[sub], _ORD)
        cnt("order", len(ts))
        if to != ts:
            d = next((x, y) for x, y in zip(to, ts) if x != y)
            bad("order", "differs", f"{d[1][0]}({labs[d[1][1]]}, {labs[d[1][2]]}) = {d[1][3]} for S but {d[0][3]} for C")
    if not full:
        return V

    # ---- hash: raising parity, pair table, values when the hash is value based
    ho, hs = [_obs(hash, x) for x in oi], [_obs(hash, x) for x in si]
    cnt("hash", len(hs))
    if [_kind(x) for x in ho] != [_kind(x) for x in hs]:
        i = next(i for i in range(len(ho)) if _kind(ho[i]) != _kind(hs[i]))
        bad("hash", "raises-parity", f"hash({labs[i]}): S {_kind(hs[i])} vs C {_kind(ho[i])}")
    else:
        po = [(a[1] == b[1]) if a[0] == "ok" and b[0] == "ok" else None for a in ho for b in ho]
        ps = [(a[1] == b[1]) if a[0] == "ok" and b[0] == "ok" else None for a in hs for b in hs]
        if po != ps:
            i = next(i for i in range(len(po)) if po[i] != ps[i])
            bad("hash", "pair-table", f"hash({labs[i // len(ho)]})==hash({labs[i % len(ho)]}): {ps[i]} for S but {po[i]} for C")
        elif ho[0][0] == "ok" and ho[0][1] == ho[1][1]:
            # A and A' are distinct live objects: equal hashes mean the hash is computed from the fields
            if [x[1] for x in ho] != [x[1] for x in hs]:
                bad("hash", "value", f"field based hash differs: S {[x[1] for x in hs]} vs C {[x[1] for x in ho]}")

    # ---- instance __dict__, weakref
    cnt("dict")
    got = _has_dict(si[0])
    if got != exp_dict:
        bad("dict", got if isinstance(got, str) else "unexpected-dict" if got else "missing-dict", f"hasattr(instance, '__dict__') is {got}, expected {exp_dict} (dict={info.want_dict}, base provides {base_dict})")
    cnt("weakref")
    w = _obs(weakref.ref, si[0])
    if (w[0] == "ok") != exp_weakref:
        bad("weakref", "unexpected-weakref" if w[0] == "ok" else "raises:" + w[1], f"weakref.ref(instance): {_kind(w)}, expected {'ok' if exp_weakref else 'TypeError'} (weakref={info.want_weakref}, base provides {base_weakref})")
    elif w[0] == "ok" and w[1]() is not si[0]:
        bad("weakref", "wrong-referent", "weakref.ref(instance)() is not the instance")
    # the attribute itself: an instance has `__weakref__` exactly when its class (or a base) provides the slot; reading it never raises
    hw = _obs(hasattr, si[0], "__weakref__")
    if hw[0] != "ok" or hw[1] != exp_weakref:
        bad("weakref", "attribute:" + ("raises:" + hw[1] if hw[0] != "ok" else "present" if hw[1] else "absent"),
            f"hasattr(instance, '__weakref__'): {_kind(hw)}, expected {exp_weakref} (weakref={info.want_weakref}, base provides {base_weakref}); a leftover descriptor of the original class?")

    # ---- frozen-ness / attribute assignment (on fresh instances)
    a0 = pats[0][1]
    fo_, fs_ = OC(*_fresh(a0)), SC(*_fresh(a0))
    if info.frozen:
        for n in names:
            cnt("frozen", 2)
            before = _obs(getattr, fs_, n)
            for opname, r in (("setattr", _obs(setattr, fs_, n, 99)), ("delattr", _obs(delattr, fs_, n))):
                if r[0] == "ok" or r[1] != "FrozenInstanceError":
                    bad("frozen", f"{opname}:{_kind(r)}", f"{opname}(instance, {n!r}) on a frozen class: {_kind(r)} (expected FrozenInstanceError)")
            if _obs(getattr, fs_, n) != before:
                bad("frozen", "mutated", f"field {n} changed on a frozen instance")
        # an undeclared name: the original raises FrozenInstanceError; we only require that the assignment is rejected
        cnt("frozen")
        r = _obs(setattr, fs_, "tlmc_undeclared", 1)
        if r[0] == "ok" or hasattr(fs_, "tlmc_undeclared"):
            bad("frozen", "undeclared-setattr:ok", "setattr(instance, 'tlmc_undeclared', 1) succeeded on a frozen class")
        elif count is not None:
            count("frozen-undeclared-setattr-raises:" + r[1], 0)
    else:
        for n in names:
            cnt("setattr")
            r = _obs(setattr, fs_, n, 99)
            setattr(fo_, n, 99)
            if r[0] != "ok" or getattr(fs_, n, _MISSING) != 99:
                bad("setattr", _kind(r) if r[0] != "ok" else "not-stored", f"setattr(instance, {n!r}, 99) on a non-frozen class: {r!r}")
        if names:
            cnt("repr")
            if _obs(repr, fs_) != _obs(repr, fo_):
                bad("repr", "after-setattr", f"repr after setattr: {_obs(repr, fs_)} != {_obs(repr, fo_)}")
        cnt("setattr")
        r = _obs(setattr, fs_, "tlmc_undeclared", 1)
        if exp_dict and r[0] != "ok":
            bad("setattr", "undeclared:" + _kind(r), f"instance has a __dict__ by contract but setattr(instance, 'tlmc_undeclared', 1): {_kind(r)}")
        elif not exp_dict and not (r[0] == "raises" and r[1] == "AttributeError"):
            bad("setattr", "undeclared:" + _kind(r), f"no __dict__ requested or inherited but setattr(instance, 'tlmc_undeclared', 1): {_kind(r)} (expected AttributeError)")

    # ---- user __getstate__/__setstate__ kept
    replaced = set()
    if info.gs:
        cnt("getstate", len(info.gs))
        for m in info.gs:
            f = SC.__dict__.get(m)
            fo = OC.__dict__.get(m)
            if f is None or getattr(f, "__qualname__", None) != fo.__qualname__ or getattr(getattr(f, "__code__", None), "co_code", None) != fo.__code__.co_code:
                replaced.add(m)
                bad("getstate", "user-method-replaced:" + m, f"{m} of S is {f!r}, not the user's method")

    # ---- copy / deepcopy / pickle (fresh instances; an extra __dict__ attribute where both worlds have a __dict__)
    targets = [("pos:A", pats[0][1])]
    if "omit:A" in labs:
        targets.append(("omit:A", pats[labs.index("omit:A")][1]))
    ops = [("copy", copy.copy), ("deepcopy", copy.deepcopy)] + [("pickle", (lambda p: lambda x: pickle.loads(pickle.dumps(x, p)))(p)) for p in PICKLE_PROTOCOLS]
    if o_mod is None:
        ops = ops[:2]  # history mode: the decorated class is not bound to its module name, pickling by reference is not judgeable
    list_fields = [n for n, k in info.params if k == "f"]
    has_dict = _has_dict(si[0]) is True
    for lab, a, with_attr in [(lab, a, w) for lab, a in targets for w in ((False, True) if has_dict else (False,))]:
        xo, xs = OC(*_fresh(a)), SC(*_fresh(a))
        sfx = ""
        if with_attr:
            # both worlds have an instance __dict__: store one attribute in it (object.__setattr__ also works on frozen)
            object.__setattr__(xo, "tlmc_extra", 7)
            if _obs(object.__setattr__, xs, "tlmc_extra", 7)[0] != "ok":
                continue
            sfx = "(attribute-in-instance-dict)"
        for pi, (opname, op) in enumerate(ops):
            cnt(opname)
            calls0 = _hook_calls(o_mod, s_mod)
            ro = _obs(op, xo)
            if ro[0] != "ok":
                raise OriginalFails(f"slotmodel: {opname} of the ORIGINAL instance fails: {ro}")
            if _fieldvals(ro[1], names) != _fieldvals(xo, names):
                raise OriginalFails(f"slotmodel: {opname} of the ORIGINAL instance loses field values: {_fieldvals(ro[1], names)} != {_fieldvals(xo, names)}")
            rs = _obs(op, xs)
            tag = opname + (f"(protocol {PICKLE_PROTOCOLS[pi - 2]})" if opname == "pickle" else "")
            wit = f"{tag} of {xs!r} [{lab}]" + (" carrying tlmc_extra=7 in its __dict__" if with_attr else "")
            if rs[0] != "ok":
                bad(opname, "raises:" + rs[1] + sfx, f"{wit} raises {rs[1]}: {rs[2]}")
                continue
            y, yo = rs[1], ro[1]
            if type(y) is not SC:
                bad(opname, "class" + sfx, f"{wit} gives a {type(y).__qualname__} that is not S")
                continue
            if _fieldvals(y, names) != _fieldvals(xs, names) or (info.eq and _obs(operator.eq, y, xs) != ("ok", True)):
                bad(opname, "value" + sfx, f"{wit} gives {_obs(repr, y)[1]!r} (fields {_fieldvals(y, names)})")
                continue
            if y is xs and yo is not xo:
                bad(opname, "identity" + sfx, f"{wit} returned the same object")
            for n in list_fields:
                sh_s = getattr(y, n, _MISSING) is getattr(xs, n, _MISSING)
                sh_o = getattr(yo, n) is getattr(xo, n)
                if sh_s != sh_o:
                    bad(opname, "aliasing" + sfx, f"{wit}: list field {n} shared={sh_s} for S but {sh_o} for C")
            if with_attr and getattr(y, "tlmc_extra", _MISSING) != getattr(yo, "tlmc_extra", _MISSING):
                bad(opname, "dict-state", f"{wit}: the attribute is {getattr(y, 'tlmc_extra', '<lost>')!r} afterwards for S but {getattr(yo, 'tlmc_extra', '<lost>')!r} for C")
            if info.gs and s_mod is not None and o_mod is not None:
                calls1 = _hook_calls(o_mod, s_mod)
                for hi, m in enumerate(("__getstate__", "__setstate__")):
                    used_o, used_s = calls1[0][hi] > calls0[0][hi], calls1[1][hi] > calls0[1][hi]
                    if m in info.gs and m not in replaced and used_o and not used_s:
                        bad("getstate", "user-method-not-used:" + m, f"{wit}: the user's {m} runs for C but not for S")

    return V
