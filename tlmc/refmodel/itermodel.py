"""Reference model for C18 (generic item / value iteration), written with Python's own tools only
(`collections.abc`, `dataclasses.fields`, `__annotations__`, `__slots__`, `vars`) - never with the library.

The model returns, for an input `x`, the *set of admissible answers* of `list(iteritems(x))` and the single
admissible answer of `list(itervalues(x))`, following the property text:

  iteritems: mapping -> items(); structured object / named tuple -> (public field, value) in declaration order;
             iterable of pairs -> the given pairs; anything else iterable -> (index, element).
  itervalues: mapping -> values(); structured object / named tuple -> public field values; otherwise the
             elements themselves, in order.

Where the text does not define "pair" precisely, both readings are admissible (see `pair_class`).
"""
from __future__ import annotations

import collections
import collections.abc
import dataclasses
import json
import typing

from ..kernel.canon import canon
from .same import same

# ------------------------------------------------------------------------------------------------ kinds


def elem_kind(e) -> str:
    """Abstract one element to its kind (used in violation signatures and coverage counters)."""
    if e is None:
        return "none"
    t = type(e)
    if t is bool or t is int:
        return "int"
    if t is str:
        return "str%d" % len(e) if len(e) <= 3 else "strN"
    if t is bytes:
        return "bytes%d" % len(e) if len(e) <= 3 else "bytesN"
    if isinstance(e, tuple) and hasattr(e, "_fields"):
        return "nt%d" % len(e)
    if t in (tuple, list):
        return "%s%d" % (t.__name__, len(e)) if len(e) <= 3 else t.__name__ + "N"
    if isinstance(e, (set, frozenset)):
        return "set%d" % len(e) if len(e) <= 3 else "setN"
    if isinstance(e, collections.abc.Mapping):
        return "dict%d" % len(e) if len(e) <= 3 else "dictN"
    return t.__name__


def is_pair(e) -> bool:
    """The narrow reading of "pair": a 2-tuple or a 2-list (what `dict(...)` callers write down)."""
    return type(e) in (tuple, list) and len(e) == 2


def is_len2_collection(e) -> bool:
    """The wide reading: any sized, iterable container with exactly two elements ("ab", {1, 2}, {1: 2, 3: 4})."""
    return isinstance(e, collections.abc.Collection) and len(e) == 2


def pair_class(elements) -> str:
    """definitely-pairs | definitely-not-pairs | ambiguous, for a non-text/non-mapping/non-namedtuple iterable."""
    if not elements:
        return "definitely-not-pairs"
    if all(is_pair(e) for e in elements):
        return "definitely-pairs"
    if not is_len2_collection(elements[0]):
        return "definitely-not-pairs"
    # the first element is a 2-length collection, but not every element is a 2-tuple/2-list:
    # 2-char strings, 2-sets, 2-key dicts, or a pair followed by non-pairs. The text does not decide.
    return "ambiguous"


# ------------------------------------------------------------------------------------------------ input classes


def input_class(x) -> str:
    """mapping | namedtuple | text | iterable | object - decided with Python's own ABCs."""
    if isinstance(x, collections.abc.Mapping):
        return "mapping"
    if isinstance(x, tuple) and hasattr(type(x), "_fields"):
        return "namedtuple"
    if isinstance(x, (str, bytes, bytearray)):
        return "text"
    if isinstance(x, collections.abc.Iterable):
        return "iterable"
    return "object"


def is_one_shot(x) -> bool:
    return isinstance(x, collections.abc.Iterator)


def _is_classvar(ann) -> bool:
    if isinstance(ann, str):
        s = ann.replace(" ", "")
        return s.startswith(("ClassVar", "typing.ClassVar", "t.ClassVar"))
    return ann is typing.ClassVar or typing.get_origin(ann) is typing.ClassVar


def declared_fields(obj) -> tuple[list[str], str]:
    """All declared instance fields (private ones included) of a structured object, in declaration order,
    and which declaration was used: dataclass | annotations | slots | vars."""
    cls = type(obj)
    if dataclasses.is_dataclass(cls):
        return [f.name for f in dataclasses.fields(cls)], "dataclass"
    names: list[str] = []
    for c in reversed(cls.__mro__):
        if c is object:
            continue
        for n, a in vars(c).get("__annotations__", {}).items():
            if _is_classvar(a):
                continue
            if n not in names:
                names.append(n)
    if names:
        return names, "annotations"
    slots: list[str] = []
    has_slots = False
    for c in reversed(cls.__mro__):
        s = vars(c).get("__slots__")
        if s is None:
            continue
        has_slots = True
        for n in (s,) if isinstance(s, str) else s:
            if n not in ("__dict__", "__weakref__") and n not in slots:
                slots.append(n)
    if has_slots and not hasattr(obj, "__dict__"):
        return slots, "slots"
    return list(vars(obj)), "vars"


def public_fields(obj) -> tuple[list[str], str]:
    names, how = declared_fields(obj)
    return [n for n in names if not n.startswith("_")], how


# ------------------------------------------------------------------------------------------------ the model


class Model:
    """Admissible answers for one input."""

    __slots__ = ("cls", "strategy", "pclass", "items", "values", "elements")

    def __init__(self, cls, strategy, pclass, items, values, elements):
        self.cls = cls  # input_class
        self.strategy = strategy  # mapping | namedtuple | fields | vars | enumerate | pairs | pairs-or-enumerate
        self.pclass = pclass  # pair_class or None
        self.items = items  # list of (reading, expected list); reading in {"kv", "given"}
        self.values = values  # expected list
        self.elements = elements  # the "elements of x" of the exactly-once clause


def model(x, elements=None) -> Model:
    """`elements` must be given for one-shot iterators (the list they were built from); for every other input the
    model reads it off `x` itself (call this *before* the implementation runs, or on an equal twin)."""
    ic = input_class(x)
    if ic == "mapping":
        its = [(k, v) for k, v in x.items()]
        return Model(ic, "mapping", None, [("kv", its)], list(x.values()), its)
    if ic == "namedtuple":
        its = [(f, v) for f, v in zip(type(x)._fields, tuple.__iter__(x))]
        return Model(ic, "namedtuple", None, [("kv", its)], [v for _, v in its], its)
    if ic == "object":
        names, how = public_fields(x)
        its = [(n, getattr(x, n)) for n in names]
        return Model(ic, "vars" if how == "vars" else "fields", None, [("kv", its)], [v for _, v in its], its)
    if elements is None:
        if is_one_shot(x):
            raise ValueError("model(): a one-shot iterator needs its element list")
        elements = list(x)
    else:
        elements = list(elements)
    enum = list(enumerate(elements))
    if ic == "text":
        return Model(ic, "enumerate", None, [("kv", enum)], elements, elements)
    pc = pair_class(elements)
    if pc == "definitely-pairs":
        return Model(ic, "pairs", pc, [("given", elements)], elements, elements)
    if pc == "definitely-not-pairs":
        return Model(ic, "enumerate", pc, [("kv", enum)], elements, elements)
    return Model(ic, "pairs-or-enumerate", pc, [("given", elements), ("kv", enum)], elements, elements)


# ------------------------------------------------------------------------------------------------ comparison


def _same_kv(got, exp) -> bool:
    """A yielded (key, value) pair: any 2-tuple/2-list with the right components."""
    return type(got) in (tuple, list) and len(got) == 2 and same(got[0], exp[0]) and same(got[1], exp[1])


def _same_given(got, exp) -> bool:
    """A yielded *given* element: the element itself; a given 2-list/2-tuple may come back as either spelling."""
    if same(got, exp):
        return True
    return is_pair(exp) and _same_kv(got, exp)


def match_items(got: list, reading: str, exp: list) -> bool:
    cmp = _same_kv if reading == "kv" else _same_given
    return len(got) == len(exp) and all(cmp(g, e) for g, e in zip(got, exp))


def items_ok(got: list, m: Model) -> str | None:
    """The admissible reading that `got` satisfies, or None."""
    for reading, exp in m.items:
        if match_items(got, reading, exp):
            return reading
    return None


def values_ok(got: list, m: Model) -> bool:
    return len(got) == len(m.values) and all(same(g, e) for g, e in zip(got, m.values))


# ------------------------------------------------------------------------------------------------ exactly once


def key(v) -> str:
    """Canonical, hashable key of a value (multiset bookkeeping of possibly unhashable elements)."""
    return json.dumps(canon(v), default=repr, sort_keys=False)


def multiset(vals) -> collections.Counter:
    return collections.Counter(key(v) for v in vals)


def yielded_elements(got: list, m: Model, fn: str) -> list[list]:
    """The candidate lists of "elements of x" that an output carries, one per admissible reading:
    itervalues -> the output itself; iteritems -> the output itself (given pairs) and/or its second components
    (kv). For mappings / named tuples / objects the elements are the (name, value) pairs resp. the values."""
    if fn == "itervalues":
        return [list(got)]
    outs = []
    for reading, _ in m.items:
        if reading == "given":
            outs.append(list(got))
        elif m.cls in ("mapping", "namedtuple", "object"):
            outs.append([tuple(g) if type(g) in (tuple, list) else g for g in got])
        else:
            outs.append([g[1] if type(g) in (tuple, list) and len(g) == 2 else g for g in got])
    return outs


def expected_elements(m: Model, fn: str) -> list:
    if fn == "itervalues" and m.cls in ("mapping", "namedtuple", "object"):
        return list(m.values)
    return list(m.elements)


def once_verdict(got: list, m: Model, fn: str) -> str | None:
    """None if every element of x is carried exactly once (under some admissible reading); else the best
    description: lost-first-element | lost-elements | duplicated-elements | foreign-elements."""
    exp = expected_elements(m, fn)
    want = multiset(exp)
    verdicts = []
    for ys in yielded_elements(got, m, fn):
        have = multiset(ys)
        if have == want:
            return None
        missing = want - have
        extra = have - want
        if missing and not extra:
            if exp and sum(missing.values()) == 1 and key(exp[0]) in missing and multiset(exp[1:]) == have:
                verdicts.append("lost-first-element")
            else:
                verdicts.append("lost-elements")
        elif extra and not missing:
            verdicts.append("duplicated-elements" if set(extra) <= set(want) else "foreign-elements")
        else:
            verdicts.append("foreign-elements")
    for pref in ("lost-first-element", "lost-elements", "duplicated-elements", "foreign-elements"):
        if pref in verdicts:
            return pref
    return "foreign-elements"


__all__ = (
    "Model", "model", "items_ok", "values_ok", "once_verdict", "pair_class", "is_pair", "is_len2_collection",
    "elem_kind", "input_class", "public_fields", "declared_fields", "is_one_shot", "key", "multiset",
    "expected_elements", "yielded_elements", "match_items",
)
