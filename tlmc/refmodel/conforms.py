"""why(term, ns, x): locate the first position at which x fails to conform to term (None = conforms)."""
from __future__ import annotations

import collections.abc


def why(term, ns, x, depth=0):  # noqa: C901
    if term.conforms(ns, x):
        return None
    k = term.kind
    if depth < 10:
        if k in ("list", "set", "frozenset", "deque", "vtuple"):
            if isinstance(x, term.abc) and not isinstance(x, (str, bytes, bytearray)) and isinstance(x, collections.abc.Collection):
                for e in x:
                    w = why(term.args[0], ns, e, depth + 1)
                    if w:
                        return w
        elif k == "ftuple":
            if isinstance(x, tuple):
                if len(x) != len(term.args):
                    return term, f"arity:{'short' if len(x) < len(term.args) else 'long'}"
                for a, e in zip(term.args, x):
                    w = why(a, ns, e, depth + 1)
                    if w:
                        return w
        elif k == "dict":
            if isinstance(x, term.abc):
                for kk, e in x.items():
                    w = why(term.args[0], ns, kk, depth + 1)
                    if w:
                        return w[0], "key:" + w[1]
                    w = why(term.args[1], ns, e, depth + 1)
                    if w:
                        return w
        elif k in ("cls", "struct"):
            fields = [(f[0], f[1]) for f in term.fields]
            isdict = (term.isdict() if k == "cls" else term._cls is dict)
            if isdict:
                if isinstance(x, dict):
                    req = term.required() if k == "cls" else ns[term.name].__required_keys__
                    for r in req:
                        if r not in x:
                            return term, "missing-required-key"
                    for n, t in fields:
                        if n in x:
                            w = why(t, ns, x[n], depth + 1)
                            if w:
                                return w
            else:
                c = ns[term.name]
                if isinstance(x, c):
                    for n, t in fields:
                        if not hasattr(x, n):
                            return term, "missing-field"
                        w = why(t, ns, getattr(x, n), depth + 1)
                        if w:
                            return w
        elif k in ("optional",):
            if x is not None:
                w = why(term.members[0], ns, x, depth + 1)
                if w:
                    return w
        elif k == "union":
            if x is not None or term.none_at is None:
                # explain through the member whose own top-level class matches (the deepest explanation wins)
                best = None
                for m in term.members:
                    w = why(m, ns, x, depth + 1)
                    if w and not (w[0] is m and w[1].startswith("class:")):
                        if best is None:
                            best = w
                if best:
                    return best
            return term, "no-member:" + _cls(x)
    return term, "class:" + _cls(x)


def _cls(x):
    t = type(x)
    if t.__module__ in ("builtins", "datetime", "decimal", "uuid", "fractions", "collections"):
        return t.__name__
    if t.__module__.startswith("pendulum"):
        return "pendulum." + t.__name__
    return t.__name__
