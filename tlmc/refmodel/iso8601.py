"""Independent ISO-8601 duration reader / reference writer (DESIGN §4.3).

Reader: ISO 8601-1 §5.5.2 `PnYnMnWnDTnHnMnS` with the 8601-2 sign extension (a leading sign and/or a
sign on each component are both accepted, so the check never demands more than "well-formed to some
standard reader").  Y and calendar-M have no fixed length for a timedelta and are accepted only with
coefficient 0.  At least one component is required; a `T` must be followed by a time component.
"""
from __future__ import annotations

import datetime
import decimal
import re

_NUM = r"[+-]?\d+(?:[.,]\d+)?"
_RX = re.compile(
    rf"^(?P<sign>[+-])?P(?:(?P<Y>{_NUM})Y)?(?:(?P<Mo>{_NUM})M)?(?:(?P<W>{_NUM})W)?(?:(?P<D>{_NUM})D)?"
    rf"(?P<T>T(?:(?P<H>{_NUM})H)?(?:(?P<Mi>{_NUM})M)?(?:(?P<S>{_NUM})S)?)?$"
)


class Malformed(ValueError):
    pass


def read_duration(text: str) -> datetime.timedelta:
    if not isinstance(text, str):
        raise Malformed(f"not text: {text!r}")
    m = _RX.match(text)
    if not m:
        raise Malformed(f"not an ISO-8601 duration: {text!r}")
    g = m.groupdict()
    comps = {k: g[k] for k in ("Y", "Mo", "W", "D", "H", "Mi", "S") if g[k] is not None}
    if not comps:
        raise Malformed(f"duration without any component: {text!r}")
    if g["T"] is not None and not any(g[k] is not None for k in ("H", "Mi", "S")):
        raise Malformed(f"'T' designator without a time component: {text!r}")
    vals = {k: decimal.Decimal(v.replace(",", ".")) for k, v in comps.items()}
    if vals.get("Y", 0) != 0 or vals.get("Mo", 0) != 0:
        raise Malformed(f"calendar years/months have no fixed length: {text!r}")
    # only the lowest-order component may carry a fraction
    order = [k for k in ("Y", "Mo", "W", "D", "H", "Mi", "S") if k in vals]
    for k in order[:-1]:
        if vals[k] != vals[k].to_integral_value():
            raise Malformed(f"fraction on a non-final component: {text!r}")
    us = (
        vals.get("W", 0) * 7 * 86400
        + vals.get("D", 0) * 86400
        + vals.get("H", 0) * 3600
        + vals.get("Mi", 0) * 60
        + vals.get("S", 0)
    ) * 1_000_000
    if us != us.to_integral_value():
        raise Malformed(f"sub-microsecond precision: {text!r}")
    us = int(us)
    if g["sign"] == "-":
        us = -us
    return datetime.timedelta(microseconds=us)


def write_duration(td: datetime.timedelta) -> str:
    """Reference writer used only to *generate inputs* (never as an expected output)."""
    us = (td.days * 86400 + td.seconds) * 1_000_000 + td.microseconds
    sign = "-" if us < 0 else ""
    us = abs(us)
    d, rem = divmod(us, 86400 * 1_000_000)
    h, rem = divmod(rem, 3600 * 1_000_000)
    mi, rem = divmod(rem, 60 * 1_000_000)
    s, f = divmod(rem, 1_000_000)
    out = f"{sign}P"
    if d:
        out += f"{d}D"
    tpart = ""
    if h:
        tpart += f"{h}H"
    if mi:
        tpart += f"{mi}M"
    if s or f or not (d or h or mi):
        tpart += f"{s}.{f:06}S" if f else f"{s}S"
    if tpart:
        out += "T" + tpart
    return out
