"""predoracle - the C17 oracle table (DESIGN Appendix A).

Expected answers are computed from Python itself (`issubclass`, `typing.get_origin/get_args`,
`dataclasses.is_dataclass`, `typing.is_typeddict`, `inspect`...), never from the library.  Where the
library's docstring, the ABC, or the property wording admit two readings the expectation is an
*admissible set*.  `expect()` returns None for pairs outside the predicate's documented domain.

Nothing in this module imports the inspection module under test.
"""
from __future__ import annotations

import abc
import collections
import collections.abc as cabc
import dataclasses
import datetime
import decimal
import enum
import fractions
import functools
import inspect
import ipaddress
import numbers
import pathlib
import re
import sqlite3
import types
import typing
import uuid

NoneType = type(None)

# ---- the documented tables (own copy: a change of the library's tables must be noticed)
BUILTIN_TYPES = (int, bool, float, str, bytes, bytearray, list, set, frozenset, tuple, dict, NoneType)
STDLIB_TYPES = BUILTIN_TYPES + (
    datetime.datetime, datetime.date, datetime.timedelta, datetime.time, decimal.Decimal,
    ipaddress.IPv4Address, ipaddress.IPv6Address, pathlib.Path, uuid.UUID,
    collections.defaultdict, collections.deque, types.MappingProxyType,
)
GENERIC_TYPE_MAP = {
    cabc.Sequence: list, cabc.MutableSequence: list, cabc.Collection: list, cabc.Iterable: list,
    cabc.Set: set, cabc.MutableSet: set,
    cabc.Mapping: dict, cabc.MutableMapping: dict,
    cabc.Hashable: str,
    # the typing spellings are keys of the documented table too (bare aliases)
    typing.Sequence: list, typing.MutableSequence: list, typing.Collection: list, typing.Iterable: list,
    typing.AbstractSet: set, typing.MutableSet: set,
    typing.Mapping: dict, typing.MutableMapping: dict, typing.Hashable: str,
}
UNRESOLVABLE = (object, typing.Any, re.Match, typing.Callable, cabc.Callable, inspect.Parameter.empty, type(Ellipsis), Ellipsis)
DESCRIPTOR_METHODS = ("__get__", "__set__", "__delete__", "__set_name__")
UNION_ORIGINS = (typing.Union, types.UnionType)


# ------------------------------------------------------------------------------------------------
# resolution
# ------------------------------------------------------------------------------------------------
def peel_newtype(obj):
    n = 0
    while hasattr(obj, "__supertype__") and n < 50:
        obj = obj.__supertype__
        n += 1
    return obj


def peel(obj):
    """Peel NewType.__supertype__ and TypeAliasType.__value__ repeatedly (any nesting order)."""
    for _ in range(50):
        if hasattr(obj, "__supertype__"):
            obj = obj.__supertype__
        elif isinstance(obj, typing.TypeAliasType):
            obj = obj.__value__
        else:
            break
    return obj


def resolve(obj, mapped=True):
    x = peel(obj)
    x = typing.get_origin(x) or x
    if mapped:
        try:
            x = GENERIC_TYPE_MAP.get(x, x)
        except TypeError:
            pass
    return x


def resolves_to_class(obj) -> bool:
    return inspect.isclass(resolve(obj))


# ------------------------------------------------------------------------------------------------
class Expect:
    """Admissible answers: either an explicit list of values (compared with ==) or a checker."""

    __slots__ = ("values", "check", "note")

    def __init__(self, values=None, check=None, note=""):
        self.values = values
        self.check = check
        self.note = note

    def admits(self, val) -> bool:
        if self.check is not None:
            return bool(self.check(val))
        for v in self.values:
            try:
                if isinstance(v, bool) or isinstance(val, bool):
                    # boolean answers are compared as booleans (1 is not an admissible spelling of True)
                    if isinstance(v, bool) and isinstance(val, bool) and v == val:
                        return True
                    continue
                if val is v or val == v:
                    return True
            except Exception:  # noqa: BLE001
                continue
        return False

    def describe(self) -> str:
        if self.check is not None:
            return self.note or "<checker>"
        return " | ".join(_short(v) for v in self.values) + (f" ({self.note})" if self.note else "")


def _short(v, n=100):
    s = repr(v)
    return s if len(s) <= n else s[: n - 3] + "..."


def _uniq(vals):
    out = []
    for v in vals:
        if not any((type(v) is type(w)) and (v is w or v == w) for w in out):
            out.append(v)
    return out


def one(v, note=""):
    return Expect([v], note=note)


def anyof(*vs, note=""):
    return Expect(_uniq(vs), note=note)


BOTH = Expect([True, False], note="two readings admissible")


def _try(f, x, default=None):
    try:
        return f(x)
    except Exception:  # noqa: BLE001
        return default


def raw_and_peeled(f, e, note="NewType/alias resolution not documented for this predicate: raw and resolved reading"):
    """Admissible = f(raw) and, for wrapper entries, f(peeled)."""
    vals = [f(e.obj)]
    inner = peel(e.obj)
    if _is_classvar(inner) and typing.get_args(inner):
        # origin() is documented to see through ClassVar[...]: the predicates built on it answer for the argument
        vals.append(_try(f, peel(typing.get_args(inner)[0]), default=vals[0]))
        note = "ClassVar[X]: answer for the annotation itself or for X (origin() unwraps ClassVar)"
    if "wrapper" in e.tags:
        p = _try(f, inner, default=vals[0])
        vals.append(p)
        # a partially resolved reading (NewType only) is covered by the two extremes for booleans
    if len(vals) > 1:
        return Expect(_uniq(vals), note=note)
    return Expect(vals)


# ------------------------------------------------------------------------------------------------
# domains
# ------------------------------------------------------------------------------------------------
def typ(e) -> bool:
    return "typ" in e.tags and e.hashable


def dom_class(e) -> bool:
    """class-valued predicates: entries that resolve to a class; special forms are outside."""
    return typ(e) and "special-form" not in e.tags and "function" not in e.tags and resolves_to_class(e.obj)


def dom_all(e) -> bool:
    return typ(e)


def dom_all_nostr(e) -> bool:
    return typ(e) and "has-stralias" not in e.tags


def dom_instance(e) -> bool:
    return "instance" in e.tags


# ------------------------------------------------------------------------------------------------
# class-valued family
# ------------------------------------------------------------------------------------------------
def _issub(cls, base) -> bool:
    return inspect.isclass(cls) and issubclass(cls, base)


def class_valued(base, extra=None):
    """issubclass(resolve(obj), base); when the documented abstract->builtin map changes the answer
    both are admissible (the map is the library's convention, the ABC is Python's)."""

    def exp(e):
        pre, post = resolve(e.obj, mapped=False), resolve(e.obj, mapped=True)
        vals = [_issub(post, base)]
        if pre is not post and inspect.isclass(pre):
            vals.append(_issub(pre, base))
        if extra is not None:
            vals = extra(e, pre, post, vals)
        return Expect(_uniq(vals), note="pre-map ABC and mapped builtin disagree" if len(_uniq(vals)) > 1 else "")

    return exp


def _seq_extra(e, pre, post, vals):
    # docstring: "subclass of typing.Collection. Includes builtins." while the name says Sequence
    return vals + [_issub(post, cabc.Sequence), _issub(post, cabc.Collection), _issub(pre, cabc.Sequence), _issub(pre, cabc.Collection)]


def exp_ismapping(e):
    pre, post = resolve(e.obj, False), resolve(e.obj, True)
    bases = (cabc.Mapping, dict, sqlite3.Row, types.MappingProxyType)
    return Expect(_uniq([_issub(post, bases), _issub(pre, bases)]))


def is_subscripted(x) -> bool:
    return typing.get_origin(x) is not None and "[" in repr(x)


def exp_issubscriptedcollection(e):
    pre, post = resolve(e.obj, False), resolve(e.obj, True)
    coll = _uniq([_issub(post, cabc.Collection), _issub(pre, cabc.Collection)])
    # subscripted: documented for NewType("Foo", Collection[int]) -> True, i.e. after NewType resolution
    subs = [is_subscripted(peel_newtype(e.obj))]
    if "wrapper" in e.tags:
        subs.append(is_subscripted(peel(e.obj)))  # alias peeled as well
        if any(k != "newtype" for k in e.chain):
            subs.append(is_subscripted(e.obj))  # alias resolution is not documented for this predicate
    return Expect(_uniq([c and s for c in coll for s in subs]))


def exp_table_sub(table):
    """isbuiltinsubtype / isstdlibsubtype: issubclass(resolve(obj), TABLE).  The docstrings say the ABC
    spelling (`Mapping`) is *not* a builtin, so the abstract->builtin map is not applied (both admissible)."""

    def exp(e):
        pre, post = resolve(e.obj, False), resolve(e.obj, True)
        return Expect(_uniq([_issub(pre, table), _issub(post, table)]))

    return exp


# ------------------------------------------------------------------------------------------------
# table membership
# ------------------------------------------------------------------------------------------------
def _member(obj, table) -> bool:
    x = peel_newtype(obj)
    return any(x is t for t in table) or any(peel_newtype(type(obj)) is t for t in table)


def exp_table_member(table):
    def exp(e):
        if "union" in e.tags and "wrapper" not in e.tags:
            return None  # unions: no class to resolve to; only spelling / stability / no-raise are judged
        if e.tags & {"union", "literal", "bare-union"}:
            return BOTH
        if "classvar" in e.tags and typing.get_args(peel(e.obj)):
            return BOTH  # ClassVar[X]: the annotation itself or X (origin() unwraps ClassVar)
        vals = [_member(e.obj, table)]
        # aliases / subscripted generics / ABCs whose resolved class is in the table: the docstring
        # (isbuiltintype(Mapping) is False) and the property ("class the annotation resolves to") disagree
        for r in (resolve(e.obj), resolve(e.obj, mapped=False)):
            if any(r is t for t in table):
                vals.append(True)
        return Expect(_uniq(vals))

    return exp


# ------------------------------------------------------------------------------------------------
# special forms
# ------------------------------------------------------------------------------------------------
def _is_optional(x) -> bool:
    o = typing.get_origin(x)
    if o in UNION_ORIGINS or o is typing.Literal:
        return any(a is None or a is NoneType for a in typing.get_args(x))
    return False


def _is_union(x) -> bool:
    return typing.get_origin(x) in UNION_ORIGINS or x is typing.Union


def _is_literal(x) -> bool:
    return typing.get_origin(x) is typing.Literal or x is typing.Literal


def _is_final(x) -> bool:
    return typing.get_origin(x) is typing.Final or x is typing.Final


def _is_classvar(x) -> bool:
    return typing.get_origin(x) is typing.ClassVar or x is typing.ClassVar


def exp_isoptional(e):
    if "bare-union" in e.tags:
        return BOTH  # bare typing.Optional / typing.Union: not annotations
    return raw_and_peeled(_is_optional, e)


def exp_isunion(e):
    if "bare-union" in e.tags:
        return BOTH
    return raw_and_peeled(_is_union, e)


def exp_isliteral(e):
    if type(e.obj) is typing.ForwardRef:
        starts = e.obj.__forward_arg__.startswith("Literal")
        return BOTH if starts else one(False)
    if "forwardref" in e.tags:
        return BOTH
    return raw_and_peeled(_is_literal, e)


def _nt_then_rest(f):
    """documented with NewType (isfinal(NewType("Foo", Final[str])) is True): NewType resolved; alias: both."""

    def exp(e):
        vals = [f(peel_newtype(e.obj))]
        if "wrapper" in e.tags:
            vals.append(f(peel(e.obj)))
        return Expect(_uniq(vals))

    return exp


exp_isfinal = _nt_then_rest(_is_final)
exp_isclassvar = _nt_then_rest(_is_classvar)


def exp_should_unwrap(e):
    def f(x):
        return (_is_final(x) or _is_classvar(x)) and not _is_literal(x)

    return _nt_then_rest(f)(e)


def exp_isunresolvable(e):
    x = e.obj
    v = any(x is u for u in UNRESOLVABLE)
    if not v:
        # `constants.empty` of the library is documented as unresolvable too; it is inspect.Parameter.empty
        v = _try(lambda y: any(y == u for u in UNRESOLVABLE), x, False)
    return one(bool(v))


def exp_isnonetype(e):
    return one(e.obj is None or e.obj is NoneType)


def exp_isforwardref(e):
    return one(type(e.obj) is typing.ForwardRef)


def exp_istypealiastype(e):
    return one(isinstance(e.obj, typing.TypeAliasType))


def exp_issubscriptedgeneric(e):
    f = is_subscripted
    if "forwardref" in e.tags:
        return BOTH  # text-based predicate; a forward reference to a subscripted generic
    if typing.get_origin(e.obj) is types.UnionType:
        return BOTH  # `int | str`: a union, but its text has no bracket (docstring is text-based)
    if "bare-union" in e.tags or "annotated" in e.tags:
        return BOTH
    return raw_and_peeled(f, e)


def exp_isgeneric(e):
    x = e.obj
    if "wrapper" in e.tags:
        return BOTH
    r = repr(x)
    if typing.get_origin(x) is not None and typing.get_origin(x) is not types.UnionType:
        return one(True)
    if inspect.isclass(x) and x is not typing.Generic and _try(lambda c: issubclass(c, typing.Generic), x, False):
        return one(True)
    if "typing-alias" in e.tags and r.startswith("typing."):
        return one(True)
    if inspect.isclass(x) and ("builtin" in e.tags or "user" in e.tags or "stdlib" in e.tags or "builtin-sub" in e.tags):
        if type(x).__module__ == "abc" or "[" in r or r.startswith("typing."):
            return BOTH
        return one(False)
    return None  # other objects: outside the documented domain


def exp_iscallable(e):
    x = e.obj
    if inspect.isroutine(x) or x is typing.Callable or x is cabc.Callable:
        return one(True)
    if "callable-form" in e.tags or "wrapper" in e.tags:
        return BOTH
    if inspect.isclass(x):
        return one(issubclass(x, cabc.Callable))
    if typing.get_origin(x) is not None:
        r = resolve(x)
        return BOTH if (inspect.isclass(r) and issubclass(r, cabc.Callable)) else one(False)
    return one(False) if not callable(x) else BOTH


# ------------------------------------------------------------------------------------------------
# structured flavours
# ------------------------------------------------------------------------------------------------
def _is_typeddict(x):
    return typing.is_typeddict(x)


def _is_namedtuple(x):
    return inspect.isclass(x) and issubclass(x, tuple) and hasattr(x, "_fields")


def _is_typedtuple(x):
    return _is_namedtuple(x) and bool(getattr(x, "__annotations__", None))


def _is_fixedtuple(x):
    o, a = typing.get_origin(x), typing.get_args(x)
    return inspect.isclass(o) and issubclass(o, tuple) and len(a) > 0 and a[-1] is not Ellipsis


def exp_istypedtuple(e):
    x = e.obj
    if inspect.isclass(x) and issubclass(x, tuple) and not hasattr(x, "_fields") and getattr(x, "__annotations__", None):
        return BOTH  # annotated plain tuple subclass: "typed tuple" in quotes
    return raw_and_peeled(_is_typedtuple, e)


def exp_isfromdict(e):
    return raw_and_peeled(lambda x: inspect.isclass(x) and hasattr(x, "from_dict"), e)


def exp_isfrozendataclass(e):
    def f(x):
        return bool(dataclasses.is_dataclass(x) and x.__dataclass_params__.frozen)

    return raw_and_peeled(f, e)


def exp_isabstract(e):
    x = e.obj
    if inspect.isabstract(x) or x is numbers.Number:
        return one(True)
    if isinstance(x, abc.ABCMeta):
        return BOTH  # docstring example claims an ABC without abstract methods is abstract
    return one(False)


def exp_isstructured(e):
    x = e.obj
    if "wrapper" in e.tags:
        # NewType / alias resolution is not documented for this predicate, and the unresolved reading
        # ("a NewType object is not a tuple / TypedDict / class") has no Python-side answer: not judged
        return None
    return _structured_core(x, e)


def _structured_core(x, e):
    if _is_fixedtuple(x) or _is_namedtuple(x) or _is_typeddict(x):
        return one(True)
    if _is_union(x) or _is_literal(x):
        return one(False)
    if e.tags & {"typevar", "callable-form", "any", "forwardref", "annotated", "none", "ellipsis", "empty", "generic-base",
                 "function-form", "final", "classvar", "function", "bare-union"}:
        return None
    pre, post = resolve(x, False), resolve(x, True)
    if not inspect.isclass(post):
        return None
    if _issub(pre, STDLIB_TYPES):
        return one(False)  # builtin & stdlib scalars / collections (and their subclasses, subscripted or not)
    if pre is not post:
        return one(False)  # mapped ABCs: "Collection[str] -> False"
    mod = getattr(pre, "__module__", "")
    if mod.startswith("tlg_"):
        if issubclass(pre, enum.Enum):
            return BOTH
        if typing.get_origin(x) is not None:
            return BOTH
        return one(True)  # dataclasses and plain user classes (incl. subclasses of the flavours)
    return BOTH  # stdlib classes outside the documented table (Fraction, Pattern, PurePath, ABCs without a mapping...)


# ------------------------------------------------------------------------------------------------
# instance predicates
# ------------------------------------------------------------------------------------------------
def exp_ishashable(e):
    x = e.obj
    vals = [isinstance(x, cabc.Hashable)]
    try:
        hash(x)
        vals.append(True)
    except Exception:  # noqa: BLE001
        vals.append(False)
    return Expect(_uniq(vals))


def exp_isproperty(e):
    return one(isinstance(e.obj, (property, functools.cached_property)))


def _descr_vals(x):
    return _uniq([any(hasattr(x, m) for m in DESCRIPTOR_METHODS), any(hasattr(type(x), m) for m in DESCRIPTOR_METHODS)])


def exp_isdescriptor(e):
    return Expect(_descr_vals(e.obj))


def exp_issimpleattribute(e):
    x = e.obj
    if inspect.isclass(x) or inspect.isroutine(x) or isinstance(x, (property, functools.cached_property)):
        return one(False)
    return Expect(_uniq([not d for d in _descr_vals(x)]))


def exp_isbuiltininstance(e):
    return one(isinstance(e.obj, BUILTIN_TYPES))


def exp_isstdlibinstance(e):
    return one(isinstance(e.obj, STDLIB_TYPES))


# ------------------------------------------------------------------------------------------------
# accessors
# ------------------------------------------------------------------------------------------------
def _norm_tv(t):
    if type(t) is typing.TypeVar:
        if t.__bound__:
            return t.__bound__
        if t.__constraints__:
            return typing.Union[t.__constraints__]
        return typing.Any
    return t


def _args(x):
    a = typing.get_args(x) or getattr(x, "__args__", ())
    return tuple(_norm_tv(t) for t in a)


def exp_args(e):
    return raw_and_peeled(_args, e)


def exp_normalize_typevar(e):
    return one(_norm_tv(e.obj))


def exp_origin(e):
    x = peel(e.obj)
    if isinstance(x, str):
        return None
    if _is_classvar(x) and typing.get_args(x):
        x = peel(typing.get_args(x)[0])
    a = typing.get_origin(x) or x
    try:
        a = GENERIC_TYPE_MAP.get(a, a)
    except TypeError:
        pass
    if inspect.isroutine(a) or a is typing.Callable or a is cabc.Callable:
        return one(typing.Callable)
    if inspect.isclass(a) and _try(lambda c: issubclass(c, cabc.Callable), a, False):
        # a *class* with __call__ (or `type`): "callables -> typing.Callable" vs "origin(Foo) is Foo"
        return anyof(a, typing.Callable, note="class with __call__")
    return one(a)


def dom_origin(e):
    if not dom_all_nostr(e):
        return False
    if "wrapper" in e.tags and "special-form" in e.tags and any(k != "newtype" for k in e.chain):
        return False  # alias of Final/ClassVar/Union...: nothing documented
    return True


COLLECTION_ABCS = (cabc.Collection, cabc.Iterable)


def collection_annotation(e):
    """(d): annotations whose own origin is a collection ABC the library maps, or a concrete builtin /
    stdlib collection class.  Returns the ABC/class an instance of origin() must be an instance of."""
    if not dom_origin(e) or "special-form" in e.tags or "function" in e.tags:
        return None
    pre = resolve(e.obj, mapped=False)
    if not inspect.isclass(pre):
        return None
    try:
        if pre in GENERIC_TYPE_MAP and pre is not cabc.Hashable:
            return pre
    except TypeError:
        return None
    concrete = (list, set, frozenset, tuple, dict, collections.deque, collections.defaultdict, collections.OrderedDict,
                collections.Counter, collections.ChainMap)
    if any(pre is c for c in concrete):
        return pre
    return None


def _qualname(x):
    r = repr(x)
    if type(x) is typing.ForwardRef:
        arg = x.__forward_arg__
        return _uniq([arg, arg.split("[", 1)[0]])
    if r.startswith("typing.") or (typing.get_origin(x) is not None and "[" in r):
        return [r.split("[", 1)[0]]
    q = getattr(x, "__qualname__", None)
    if q is not None:
        return [q.replace("<locals>.", "")]
    return None


def dom_name(e):
    if not typ(e) or "wrapper" in e.tags:
        return False
    x = e.obj
    if typing.get_origin(x) is types.UnionType:
        return False
    if e.tags & {"typevar", "none", "ellipsis", "empty", "annotated"}:
        return False
    return _qualname(x) is not None


def exp_qualname(e):
    return Expect(_qualname(e.obj))


def exp_name(e):
    return Expect(_uniq([q.rsplit(".")[-1] for q in _qualname(e.obj)]))


def exp_resolve_supertype(e):
    return one(peel_newtype(e.obj))


def _unwrap(x, depth=0):
    for _ in range(60):
        if (_is_final(x) or _is_classvar(x)) and not _is_literal(x):
            a = typing.get_args(x)
            if not a:
                return x, "bare"
            x = a[0]
            continue
        if isinstance(x, typing.TypeAliasType):
            v = x.__value__
            if isinstance(v, str):
                return typing.ForwardRef(v, module=x.__module__), "ref"
            x = v
            continue
        if hasattr(x, "__supertype__"):
            x = x.__supertype__
            continue
        break
    return x, "ok"


def exp_unwrap(e):
    v, how = _unwrap(e.obj)
    if how == "bare":
        # bare Final / ClassVar have nothing to unwrap: the object itself is the only sensible answer
        return one(v, note="bare Final/ClassVar: nothing to unwrap")
    return one(v)


# ------------------------------------------------------------------------------------------------
# signature helpers
# ------------------------------------------------------------------------------------------------
def _hints(x):
    h = typing.get_type_hints(x)
    return {k: v for k, v in h.items() if v is not dataclasses.KW_ONLY}


def dom_hints(e):
    if not typ(e) or "wrapper" in e.tags:
        return False
    if not ({"flavour", "user", "function"} & e.tags):
        return False
    if not (inspect.isclass(e.obj) or inspect.isfunction(e.obj)):
        return False
    h = _try(_hints, e.obj, None)
    return bool(h)


def exp_hints(e):
    return one(_hints(e.obj))


def _td_sig_ok(td):
    hints = _hints(td)
    req = getattr(td, "__required_keys__", frozenset(hints))

    def check(sig):
        if not isinstance(sig, inspect.Signature):
            return False
        ps = sig.parameters
        if list(ps) != list(hints):
            return False
        for k, p in ps.items():
            if p.kind is not inspect.Parameter.KEYWORD_ONLY or p.annotation != hints[k]:
                return False
            if k in req and td.__total__:
                if p.default is not inspect.Parameter.empty:
                    return False
            elif p.default not in (inspect.Parameter.empty, Ellipsis):
                return False
        return True

    return check


def _tuple_sig(x):
    a = _args(x)
    P = inspect.Parameter
    if not a or a[-1] is Ellipsis:
        return inspect.Signature([P("args", P.VAR_POSITIONAL, annotation=(a[0] if a else typing.Any))])
    return inspect.Signature([P(f"arg{i}", P.POSITIONAL_ONLY, annotation=t) for i, t in enumerate(a)])


def _is_plain_tuple_type(x):
    o = typing.get_origin(x) or x
    return inspect.isclass(o) and issubclass(o, tuple) and not hasattr(o, "_fields")


def dom_signature(e):
    if not typ(e) or "wrapper" in e.tags:
        return False
    x = e.obj
    if _is_typeddict(x):
        return True
    if _is_plain_tuple_type(x) and (x is tuple or typing.get_origin(x) is tuple):
        return True
    if "function" in e.tags or (inspect.isclass(x) and ({"flavour", "user"} & e.tags)):
        return _try(inspect.signature, x, None) is not None
    return False


def exp_signature(e):
    x = e.obj
    if _is_typeddict(x):
        return Expect(check=_td_sig_ok(x), note="keyword-only parameter per hint; required keys have no default")
    if _is_plain_tuple_type(x):
        return one(_tuple_sig(x))
    return one(inspect.signature(x))


def dom_tuple_signature(e):
    return typ(e) and "wrapper" not in e.tags and _is_plain_tuple_type(e.obj) and (e.obj is tuple or typing.get_origin(e.obj) is tuple)


def exp_tuple_signature(e):
    return one(_tuple_sig(e.obj))


def dom_td_signature(e):
    return typ(e) and "wrapper" not in e.tags and _is_typeddict(e.obj)


def exp_td_signature(e):
    return Expect(check=_td_sig_ok(e.obj), note="keyword-only parameter per hint; required keys have no default")


def dom_params(e):
    if not typ(e) or "wrapper" in e.tags:
        return False
    x = e.obj
    if x is dict or x is collections.OrderedDict or x is collections.defaultdict:
        return True
    if inspect.isclass(x) and issubclass(x, cabc.Callable):
        return False  # "return an empty mapping if we encounter an error": the error is judged on signature()
    return dom_signature(e) and "function" not in e.tags


def exp_params(e):
    x = e.obj
    if inspect.isclass(x) and issubclass(x, dict) and not _is_typeddict(x):
        return one({})
    s = exp_signature(e)
    if inspect.isclass(x) and issubclass(x, cabc.Mapping) and s.check is None:
        return anyof({}, dict(s.values[0].parameters), note="mappings have no parameters (pinned for dict / Mapping)")
    if s.check is not None:
        chk = s.check

        def check(params):
            return _try(lambda p: chk(inspect.Signature(list(p.values()))), params, False)

        return Expect(check=check, note=s.note)
    return one(dict(s.values[0].parameters))


def dom_simple_attributes(e):
    x = e.obj
    return typ(e) and inspect.isclass(x) and "user" in e.tags and bool(x.__dict__.get("__slots__")) and not isinstance(x.__dict__.get("__slots__"), str)


def exp_simple_attributes(e):
    return one(tuple(s for s in e.obj.__slots__ if not s.startswith("_")))
