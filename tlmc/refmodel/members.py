"""Independent reference for 'the member types a type directly contains' (C09 I4)."""
from __future__ import annotations

import dataclasses
import typing


def is_structured_class(x) -> bool:
    if not isinstance(x, type):
        return False
    if dataclasses.is_dataclass(x) or typing.is_typeddict(x):
        return True
    if issubclass(x, tuple) and hasattr(x, "_fields"):
        return True
    mod = getattr(x, "__module__", "")
    return mod.startswith("tlg_")


def members(x):
    """Generic arguments and, for structured classes, field types (Any / Ellipsis / unannotated dropped)."""
    origin = typing.get_origin(x)
    if origin is typing.Literal:
        return []
    out = []
    if origin is not None:
        out.extend(a for a in typing.get_args(x))
    elif is_structured_class(x):
        try:
            hints = typing.get_type_hints(x)
        except Exception:  # noqa: BLE001 - unresolvable hints: no claim
            hints = {}
        out.extend(h for h in hints.values() if typing.get_origin(h) is not typing.ClassVar)
    return [m for m in out if m is not Ellipsis and m is not typing.Any and not isinstance(m, typing.TypeVar)]
