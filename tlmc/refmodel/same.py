"""same(a, b): deep equality *with classes* (DESIGN §4.3)."""
from __future__ import annotations

import collections
import dataclasses
import datetime
import re


def same(a, b, _d=0):  # noqa: C901
    if a is b:
        return True
    if type(a) is not type(b):
        return False
    if _d > 500:
        return a == b
    d = _d + 1
    if a is None:
        return True
    if isinstance(a, float):
        # -0.0 == 0.0 is fine ("equals"); nan is outside U but be reflexive
        return a == b or (a != a and b != b)
    if isinstance(a, datetime.datetime):
        return a == b and a.utcoffset() == b.utcoffset() and a.microsecond == b.microsecond and (
            a.replace(tzinfo=None) == b.replace(tzinfo=None)
        )
    if isinstance(a, datetime.time):
        return (
            a.replace(tzinfo=None) == b.replace(tzinfo=None)
            and a.utcoffset() == b.utcoffset()
            and a.microsecond == b.microsecond
        )
    if isinstance(a, re.Pattern):
        return a.pattern == b.pattern and a.flags == b.flags
    if isinstance(a, tuple) and hasattr(a, "_fields"):
        return len(a) == len(b) and all(same(x, y, d) for x, y in zip(a, b))
    if isinstance(a, (list, tuple, collections.deque)):
        return len(a) == len(b) and all(same(x, y, d) for x, y in zip(a, b))
    if isinstance(a, (set, frozenset)):
        if len(a) != len(b):
            return False
        rest = list(b)
        for x in a:
            for i, y in enumerate(rest):
                if same(x, y, d):
                    del rest[i]
                    break
            else:
                return False
        return True
    if isinstance(a, dict):
        if len(a) != len(b):
            return False
        bk = list(b.items())
        for k, v in a.items():
            for i, (k2, v2) in enumerate(bk):
                if same(k, k2, d) and same(v, v2, d):
                    del bk[i]
                    break
            else:
                return False
        return True
    if dataclasses.is_dataclass(a):
        return all(
            same(getattr(a, f.name, _MISSING), getattr(b, f.name, _MISSING), d) for f in dataclasses.fields(a)
        )
    if hasattr(a, "__tlmc_fields__"):
        return all(same(getattr(a, f, _MISSING), getattr(b, f, _MISSING), d) for f in a.__tlmc_fields__)
    try:
        if a != a and b != b:  # NaN-like values (Decimal('NaN')): reflexive
            return True
    except Exception:  # noqa: BLE001 - signalling NaNs raise on comparison
        return repr(a) == repr(b)
    return a == b


class _Missing:
    def __eq__(self, o):
        return o is self

    def __hash__(self):
        return 0


_MISSING = _Missing()
