"""symtyping - a symbolic 'typing' universe used as the meaning oracle of C20.

`meaning(src)` evaluates an expression string with Python's own `eval` in a namespace where every name is
a symbolic `Term`.  Terms support `| + - @ ...` (and the reflected versions), `[]`, `()`, `.attr`, unary
operators, iteration and comparison, each building a *distinct* node, except that

* `a | b` builds a flattened n-ary ``union`` node, and `typing.Union[...]` (or any extra name passed in
  ``union_names``) builds the SAME flattened node (PEP 604 / typing.Union are associative and flatten;
  `Union[a]` is `a`).  No de-duplication is modelled, on either side.
* `typing.Dict/List/Set/Tuple/Pattern` are IDENTIFIED with the names `dict/list/set/tuple/Pattern`
  (the rewriting documented by typelib.py.future).

Constructs whose value Python's eval cannot observe structurally are made observable by a small desugaring
pass that is applied alike to both sides of a comparison and never touches BinOp / Subscript / Attribute /
Call / Name nodes: constants become `__const__(c)` (so `None | None` or `'A' | None` have a meaning, as they
do for an annotation), `not x`, `and/or`, `x if c else y` become strict calls, a lambda is applied to
symbolic parameters, generator expressions are listed, and comprehension conditions are traced.
Nothing here imports or looks at typelib.
"""
from __future__ import annotations

import ast

GENERIC_ALIASES = {"Dict": "dict", "List": "list", "Set": "set", "Tuple": "tuple", "Pattern": "Pattern"}
BUILTIN_GENERICS = frozenset(GENERIC_ALIASES.values())


class Term:
    __slots__ = ("op", "args", "_h")

    def __init__(self, op, *args):
        object.__setattr__(self, "op", op)
        object.__setattr__(self, "args", args)
        object.__setattr__(self, "_h", None)

    # ---- identity
    def __eq__(self, other):
        return isinstance(other, Term) and self.op == other.op and self.args == other.args

    def __ne__(self, other):
        return not self.__eq__(other)

    def __hash__(self):
        h = self._h
        if h is None:
            h = hash((self.op, _hashable(self.args)))
            object.__setattr__(self, "_h", h)
        return h

    def __repr__(self):
        op, a = self.op, self.args
        if op == "name":
            return a[0]
        if op == "const":
            return a[0]
        if op == "attr":
            return f"{a[0]!r}.{a[1]}"
        if op == "union":
            return "U<" + ", ".join(map(repr, a)) + ">"
        if op == "sub":
            return f"{a[0]!r}[{a[1]!r}]"
        return f"{op}(" + ", ".join(map(repr, a)) + ")"

    __str__ = __repr__

    def __format__(self, spec):
        return repr(self) + (":" + spec if spec else "")

    def __bool__(self):
        return True

    # ---- PEP 604
    def __or__(self, o):
        return union((self, o))

    def __ror__(self, o):
        return union((o, self))

    # ---- structure
    def __getitem__(self, key):
        if self.op == "unionformer":
            return union(key if isinstance(key, tuple) else (key,))
        return Term("sub", self, key)

    def __call__(self, *a, **k):
        return Term("call", self, a, tuple(sorted(k.items())))

    def __getattr__(self, name):
        if name.startswith("__") and name.endswith("__"):
            raise AttributeError(name)
        if self.op == "name" and self.args[0] == "typing":
            if name == "Union":
                return Term("unionformer", "typing.Union")
            if name in GENERIC_ALIASES:
                return Term("name", GENERIC_ALIASES[name])
        return Term("attr", self, name)

    def __setattr__(self, name, value):  # `for typing.List in c` style targets must not succeed silently
        raise AttributeError("symbolic terms are immutable")

    def __iter__(self):
        return iter((Term("elem", self, 0), Term("elem", self, 1)))

    def __neg__(self):
        return Term("neg", self)

    def __pos__(self):
        return Term("pos", self)

    def __invert__(self):
        return Term("invert", self)


def _binop(sym):
    def f(self, o):
        return Term(sym, self, o)

    def r(self, o):
        return Term(sym, o, self)

    return f, r


for _name, _sym in [("add", "+"), ("sub", "-"), ("matmul", "@"), ("mul", "*"), ("truediv", "/"), ("floordiv", "//"),
                    ("mod", "%"), ("pow", "**"), ("and", "&"), ("xor", "^"), ("lshift", "<<"), ("rshift", ">>")]:
    _f, _r = _binop(_sym)
    setattr(Term, f"__{_name}__", _f)
    setattr(Term, f"__r{_name}__", _r)
for _name, _sym in [("lt", "<"), ("le", "<="), ("gt", ">"), ("ge", ">=")]:
    setattr(Term, f"__{_name}__", _binop("cmp" + _sym)[0])


def _hashable(x):
    if isinstance(x, (tuple, list)):
        return (type(x).__name__,) + tuple(_hashable(e) for e in x)
    if isinstance(x, dict):
        return ("dict",) + tuple((_hashable(k), _hashable(v)) for k, v in x.items())
    if isinstance(x, (set, frozenset)):
        return ("set", frozenset(_hashable(e) for e in x))
    return x


def union(members) -> Term:
    """The flattened n-ary union node; Union[a] is a."""
    flat = []
    for m in members:
        if isinstance(m, Term) and m.op == "union":
            flat.extend(m.args)
        else:
            flat.append(m)
    if len(flat) == 1:
        return flat[0]
    return Term("union", *flat)


class Namespace(dict):
    """globals/locals mapping: every unknown name is a symbolic name."""

    def __init__(self, union_names=()):
        super().__init__()
        self.trace = []
        self["__builtins__"] = {}
        for u in union_names:
            self[u] = Term("unionformer", u)
        self["__const__"] = _const
        self["__not__"] = lambda x: Term("not", x)
        self["__boolop__"] = lambda kind, *xs: Term("bool" + kind, *xs)
        self["__if__"] = lambda t, b, o: Term("ifexp", t, b, o)
        self["__lam__"] = _lam
        self["__gen__"] = lambda xs: Term("genexp", tuple(xs))
        self["__test__"] = self._test

    def _test(self, cond):
        self.trace.append(cond)
        return True

    def __missing__(self, name):
        t = Term("name", name)
        self[name] = t
        return t


def _const(c):
    return Term("const", repr(c) if c is not Ellipsis else "...")


def _lam(names, fn):
    return Term("lambda", names, fn(*[Term("param", n) for n in names]))


def _at(new, node):
    """give a synthesised node (and its synthesised Name/Constant children) the position of the node it replaces"""
    for n in (new, *ast.iter_child_nodes(new)):
        if not hasattr(n, "lineno"):
            n.lineno, n.col_offset, n.end_lineno, n.end_col_offset = node.lineno, node.col_offset, node.end_lineno, node.end_col_offset
    return new


def _callnode(fname, args, node):
    return _at(ast.Call(func=ast.Name(id=fname, ctx=ast.Load()), args=args, keywords=[]), node)


class _Desugar(ast.NodeTransformer):
    def visit_Constant(self, node):
        return _callnode("__const__", [node], node)

    def visit_JoinedStr(self, node):
        # keep the literal pieces of an f-string as they are; only desugar the interpolated expressions
        for v in node.values:
            if isinstance(v, ast.FormattedValue):
                v.value = self.visit(v.value)
        return node

    def visit_UnaryOp(self, node):
        self.generic_visit(node)
        if isinstance(node.op, ast.Not):
            return _callnode("__not__", [node.operand], node)
        return node

    def visit_BoolOp(self, node):
        self.generic_visit(node)
        return _callnode("__boolop__", [_at(ast.Constant(value=type(node.op).__name__), node), *node.values], node)

    def visit_IfExp(self, node):
        self.generic_visit(node)
        return _callnode("__if__", [node.test, node.body, node.orelse], node)

    def visit_Lambda(self, node):
        a = node.args
        node.body = self.visit(node.body)
        if a.vararg or a.kwarg or a.kwonlyargs or a.defaults or a.kw_defaults:
            return node  # left opaque (not generated by C20)
        names = _at(ast.Tuple(elts=[ast.Constant(value=x.arg) for x in (*a.posonlyargs, *a.args)], ctx=ast.Load()), node)
        return _callnode("__lam__", [names, node], node)

    def visit_comprehension(self, node):
        self.generic_visit(node)
        node.ifs = [_callnode("__test__", [c], c) for c in node.ifs]
        return node

    def visit_GeneratorExp(self, node):
        self.generic_visit(node)
        return _callnode("__gen__", [_at(ast.ListComp(elt=node.elt, generators=node.generators), node)], node)


_DESUGAR = _Desugar()


def desugar(tree: ast.Expression) -> ast.Expression:
    """In-place desugaring of a parsed expression (see module docstring)."""
    return _DESUGAR.visit(tree)


def meaning_of_tree(tree: ast.Expression, union_names=()):
    """Symbolic meaning of an (already parsed, will be mutated) expression tree. Raises whatever eval raises."""
    code = compile(desugar(tree), "<symtyping>", "eval")
    ns = Namespace(union_names)
    val = eval(code, ns, ns)  # noqa: S307 - the namespace has no builtins
    if ns.trace:
        return Term("traced", val, tuple(ns.trace))
    return val


def plain_meaning_of_code(code, union_names=()):
    """Meaning of an already compiled, NOT desugared expression (constants stay Python constants): cheaper, defined
    only where Python's own operators are (raises e.g. on `None | None`); compare plain with plain only."""
    ns = Namespace(union_names)
    return eval(code, ns, ns)  # noqa: S307


def meaning(src: str, union_names=()):
    return meaning_of_tree(ast.parse(src, mode="eval"), union_names)
