"""Reference model of C16: a write-once dict whose lookup sees through aliases and references.

Independent of the library: nothing here calls typelib. The *primary* reading is

    lookup(k) = store[k]                                   ("direct")
           else KeyError            if k is a ForwardRef   ("fwdref-miss")
           else store[ref_unwrap(k)]                       ("unwrapped")
           else store[name_ref(k)]                         ("fwdref")
           else KeyError                                   ("miss")

`admissible(k)` is the set of answers under every defensible reading of the two phrases the property
leaves open for keys that are not classes ("its unwrapped form" of a string-valued alias; "a forward
reference naming it" for a NewType / alias / Final[...]). A check fires only outside that set.
"""
from __future__ import annotations

import functools
import sys
import typing

try:  # the library accepts both spellings of TypeAliasType; on 3.12 they are the same class
    import typing_extensions as _te

    _ALIAS = tuple({typing.TypeAliasType, _te.TypeAliasType})
except Exception:  # noqa: BLE001  pragma: no cover
    _ALIAS = (typing.TypeAliasType,)

ForwardRef = typing.ForwardRef
KEYERROR = ("KeyError",)


def hit(v):
    return ("hit", v)


@functools.lru_cache(maxsize=None)  # pure in the key object; the references built here are never evaluated
def ref_unwrap(k):
    """Peel NewType / TypeAliasType / Final / ClassVar to a fixpoint; a string-valued alias becomes the
    forward reference it spells (in the alias's module) and peeling stops there."""
    for _ in range(64):
        if isinstance(k, _ALIAS):
            v = k.__value__
            if isinstance(v, str):
                return ForwardRef(v, module=k.__module__)
            k = v
        elif isinstance(k, typing.NewType):
            k = k.__supertype__
        elif typing.get_origin(k) in (typing.Final, typing.ClassVar):
            k = k.__args__[0]
        else:
            return k
    raise RecursionError("ref_unwrap: wrapper chain deeper than 64")


@functools.lru_cache(maxsize=None)
def name_ref(k):
    """The forward reference naming `k` itself: classes by qualname, NewTypes and aliases by their declared
    name; Final[...] / ClassVar[...] have no name."""
    if isinstance(k, type):
        return ForwardRef(k.__qualname__, module=k.__module__)
    if isinstance(k, (typing.NewType, *_ALIAS)):
        return ForwardRef(k.__name__, module=k.__module__)
    return None


def _resolve(ref):
    """The class a never-evaluated ForwardRef spells, by a plain module-attribute walk (no eval)."""
    obj = sys.modules.get(ref.__forward_module__ or "")
    for part in ref.__forward_arg__.split("."):
        obj = getattr(obj, part, None)
    return obj


class CtxModel:
    def __init__(self, items=()):
        self.store = dict(items)

    def insert(self, k, v):
        if k in self.store:
            raise ValueError("write-once: key already stored")
        self.store[k] = v

    def contains(self, k):  # judged for stored keys only
        return k in self.store

    def _first(self, cands):
        for path, c in cands:
            if c is not None and c in self.store:
                return hit(self.store[c]), path
        return KEYERROR, "miss"

    def lookup(self, k):
        """Primary reading -> (outcome, path)."""
        if k in self.store:
            return hit(self.store[k]), "direct"
        if isinstance(k, ForwardRef):
            return KEYERROR, "fwdref-miss"
        return self._first((("unwrapped", ref_unwrap(k)), ("fwdref", name_ref(k))))

    def get(self, k, default):
        out, path = self.lookup(k)
        return (out if out != KEYERROR else hit(default)), path

    def admissible(self, k):
        """Every answer some reading of the property allows (always contains the primary answer)."""
        primary, _ = self.lookup(k)
        if k in self.store or isinstance(k, ForwardRef) or isinstance(k, type):
            return {primary}
        u = ref_unwrap(k)
        # "unwrapped form" of a string-valued alias: the reference it spells, optionally ALSO the class that reference
        # spells (before or after it). The reference itself is consulted under every reading: no reading lets a
        # string alias miss the value stored under the very reference it holds.
        if isinstance(u, ForwardRef):
            target = _resolve(u)
            chains = [[u], [u, target], [target, u]]
        else:
            target, chains = u, [[u]]
        # "a forward reference naming it": the reference naming the looked-up key itself (the class it stands for is reached through
        # the "unwrapped form", not through a reference to that class: with only ForwardRef(B) stored, NewType(B) is absent)
        names = [name_ref(k)]
        return {self._first([("unwrapped", c) for c in chain] + [("fwdref", n)])[0] for chain in chains for n in names}
