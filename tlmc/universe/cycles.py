"""Cyclic class topologies and recursive aliases (DESIGN §3.5).

A topology over n classes C0..C(n-1): every class has payload `v: int` and 1-2 link fields; a link is
(target, edge kind), edge kind in KINDS. All digraphs with <= n+1 links in which every node is reachable from
C0 are enumerated (non-root relabelings identified)."""
from __future__ import annotations

import itertools

KINDS = ("opt", "list", "dict", "vtuple", "member", "bare")
# links that reach the target class through a NewType / a value alias declared AFTER the classes (`next: Optional[NextId]`,
# `NextId = NewType("NextId", Node)`): only in the small extra topologies (extra_topologies), not in the full product
KINDS_X = ("optnt", "optalias", "pipe")  # pipe: a bracket-free PEP 604 union mixing builtin members with the class, `int | C1 | str`


def _ann(kind, tgt, future, hname=None):
    q = tgt if future else f'"{tgt}"'
    if kind == "opt":
        return f"typing.Optional[{q}]", "None"
    if kind == "pipe":
        return (f"int | {tgt} | str" if future else f'"int | {tgt} | str"'), "0"
    if kind in KINDS_X:
        wq = hname if future else f'"{hname}"'
        return f"typing.Optional[{wq}]", "None"
    if kind == "list":
        return f"list[{q}]", "dataclasses.field(default_factory=list)"
    if kind == "dict":
        return f"dict[str, {q}]", "dataclasses.field(default_factory=dict)"
    if kind == "vtuple":
        return f"tuple[{q}, ...]", "()"
    if kind == "member":
        hq = hname if future else f'"{hname}"'
        return hq, f"dataclasses.field(default_factory=lambda: {hname}())"
    if kind == "bare":
        # a plain class-typed field (always given a value; the default only keeps the field order legal)
        return q, "None"
    raise KeyError(kind)


def view(ns):
    """harness-side namespace in which nested classes are addressable by their short names (the module itself has no such aliases)"""
    outer = ns.get("Outer")
    if outer is None:
        return ns
    v = dict(ns)
    v.update({k: x for k, x in vars(outer).items() if isinstance(x, type)})
    return v


class Topo:
    def __init__(self, n, links):
        """links: tuple per node of tuple of (target index, kind)"""
        self.n = n
        self.links = links

    def key(self):
        ab = {"optnt": "N", "optalias": "A", "pipe": "P"}
        return f"n{self.n}:" + ";".join(",".join(f"{t}{ab.get(k, k[0])}" for t, k in ls) for ls in self.links)

    def kinds(self):
        return sorted({k for ls in self.links for _, k in ls})

    def source(self, future, nested=False, flavour="dc", callable_=False):
        """nested=True: every class is defined inside `class Outer:` and referred to as Outer.C<i>.
        flavour: dc (dataclass) | td (TypedDict, total=False) | nt (typing.NamedTuple) | init (plain class, hinted only by its `__init__`)."""
        lines = ["from __future__ import annotations"] if future else []
        lines += ["import dataclasses, typing", ""]
        helpers = []
        classes = []
        post = []  # wrappers of the classes, declared after them
        q = "Outer." if nested else ""
        for i, ls in enumerate(self.links):
            if flavour == "init":
                params, sets = ["self", "v: int = 0"], ["        self.v = v"]
                for j, (t, k) in enumerate(ls):
                    hname = f"H{i}_{j}"
                    if k == "optnt":
                        post.append(f'{hname} = typing.NewType("{hname}", C{t})')
                    elif k == "optalias":
                        post.append(f'{hname} = typing.TypeAliasType("{hname}", C{t})')
                    a, d = _ann(k, f"{q}C{t}", future, f"{q}{hname}")
                    if k == "member":
                        tq = f"{q}C{t} | None" if future else f'"{q}C{t} | None"'
                        helpers.append(f"@dataclasses.dataclass\nclass {hname}:\n    x: {tq} = None\n")
                    params.append(f"l{j}: {a} = None")
                    dflt = {"list": "[]", "dict": "{}", "vtuple": "()", "member": f"{q}{hname}()"}.get(k)
                    sets.append(f"        self.l{j} = l{j}" + (f" if l{j} is not None else {dflt}" if dflt else ""))
                body = [f"class C{i}:", f"    def __init__({', '.join(params)}):"] + sets + [
                    "    def __eq__(self, other):", "        return type(other) is type(self) and vars(other) == vars(self)",
                    "    def __repr__(self):", "        return type(self).__name__ + repr(vars(self))"]
                classes.append("\n".join(body) + "\n")
                continue
            if flavour == "td":
                body = [f"class C{i}(typing.TypedDict, total=False):", "    v: int"]
            elif flavour == "nt":
                body = [f"class C{i}(typing.NamedTuple):", "    v: int = 0"]
            else:
                body = [f"@dataclasses.dataclass", f"class C{i}:", "    v: int = 0"]
            for j, (t, k) in enumerate(ls):
                hname = f"H{i}_{j}"
                if k == "optnt":
                    post.append(f'{hname} = typing.NewType("{hname}", C{t})')
                elif k == "optalias":
                    post.append(f'{hname} = typing.TypeAliasType("{hname}", C{t})')
                a, d = _ann(k, f"{q}C{t}", future, f"{q}{hname}")
                if k == "member" and nested:
                    d = f"dataclasses.field(default_factory=lambda: Outer.{hname}())"
                if flavour == "td":
                    body.append(f"    l{j}: {a}")
                elif flavour == "nt":
                    body.append(f"    l{j}: {a} = None")
                else:
                    body.append(f"    l{j}: {a} = {d}")
                if k == "member":
                    tq = f"{q}C{t} | None" if future else f'"{q}C{t} | None"'
                    helpers.append(f"@dataclasses.dataclass\nclass {hname}:\n    x: {tq} = None\n")
            if callable_ and flavour == "dc":
                body.append("    def __call__(self):  # instances are callable (a handler / command object); the class is data all the same\n        return self.v")
            classes.append("\n".join(body) + "\n")
        body = "\n".join(helpers) + "\n" + "\n".join(classes) + "\n" + "\n".join(post) + "\n"
        if nested:
            body = "class Outer:\n" + "\n".join(("    " + ln if ln else ln) for ln in body.split("\n")) + "\n"
        return "\n".join(lines) + "\n" + body

    # ---- values: follow the first link for deep chains, all links while depth <= full
    def wire(self, node, d, full=2, level=0, ints=False):
        pv = 7 + min(level, 10**3) % 1000  # the payload tells the levels apart (a level converted with another level's data is visible)
        w = {"v": pv if ints else str(pv)}
        for j, (t, k) in enumerate(self.links[node]):
            go = level < d and (j == 0 or level < full)
            child = self.wire(t, d, full, level + 1, ints) if go else None
            if k == "bare":
                # a bare link always carries a value; at the horizon it is a terminal node (its own links stopped)
                w[f"l{j}"] = child if go else self.wire(t, 0, full, 10**6, ints)
                continue
            if k == "pipe":
                w[f"l{j}"] = child if go else 0
            elif k == "opt" or k in KINDS_X:
                w[f"l{j}"] = child
            elif k == "list":
                w[f"l{j}"] = [child] if go else []
            elif k == "dict":
                w[f"l{j}"] = {"kk": child} if go else {}
            elif k == "vtuple":
                w[f"l{j}"] = [child] if go else []
            elif k == "member":
                w[f"l{j}"] = {"x": child}
        return w

    def expected(self, ns, node, d, full=2, level=0, flavour="dc"):
        kw = {"v": 7 + min(level, 10**3) % 1000}
        for j, (t, k) in enumerate(self.links[node]):
            go = level < d and (j == 0 or level < full)
            child = self.expected(ns, t, d, full, level + 1, flavour) if go else None
            if k == "bare":
                kw[f"l{j}"] = child if go else self.expected(ns, t, 0, full, 10**6, flavour)
                continue
            if k == "pipe":
                kw[f"l{j}"] = child if go else 0
            elif k == "opt" or k in KINDS_X:
                kw[f"l{j}"] = child
            elif k == "list":
                kw[f"l{j}"] = [child] if go else []
            elif k == "dict":
                kw[f"l{j}"] = {"kk": child} if go else {}
            elif k == "vtuple":
                kw[f"l{j}"] = (child,) if go else ()
            elif k == "member":
                kw[f"l{j}"] = ns[f"H{node}_{j}"](x=child)
        return dict(kw) if flavour == "td" else ns[f"C{node}"](**kw)


ROOT_FORMS = ("cls", "list", "dict", "vtuple", "opt")


def root_ann(ns, form, node):
    import typing

    c = ns[f"C{node}"]
    return {"cls": c, "list": list[c], "dict": dict[str, c], "vtuple": tuple[c, ...], "opt": typing.Optional[c]}[form]


def root_wire(form, w):
    return {"cls": w, "list": [w], "dict": {"kk": w}, "vtuple": [w], "opt": w}[form]  # (two-character keys: a 2-element first member is what pair sniffing looks at)


def root_expected(form, e):
    return {"cls": e, "list": [e], "dict": {"kk": e}, "vtuple": (e,), "opt": e}[form]


def _reachable(n, links):
    seen, todo = {0}, [0]
    while todo:
        i = todo.pop()
        for t, _ in links[i]:
            if t not in seen:
                seen.add(t)
                todo.append(t)
    return len(seen) == n


def _has_cycle(n, links):
    # every topology must contain at least one cycle reachable from the root to be "cyclic"
    color = {}

    def dfs(i):
        color[i] = 1
        for t, _ in links[i]:
            if color.get(t) == 1:
                return True
            if t not in color and dfs(t):
                return True
        color[i] = 2
        return False

    return dfs(0)


def extra_topologies():
    """Topologies with at least one link through a NewType / value alias of the target: one class with <= 2 links, two classes with one link each."""
    out = []
    for n, ml in ((1, 2), (2, 2)):
        out += [t for t in topologies(n, max_links=ml, kinds=KINDS + KINDS_X) if any(k in KINDS_X for k in t.kinds())]
    return out


def topologies(n, *, cyclic_only=True, max_links=None, kinds=KINDS):
    """All topologies over exactly n classes with 1-2 links per class and <= n+1 links in total."""
    max_links = max_links if max_links is not None else n + 1
    per_node = []
    one = [((t, k),) for t in range(n) for k in kinds]
    two = [(a[0], b[0]) for a in one for b in one]
    opts = one + two
    out, seen = [], set()
    for combo in itertools.product(opts, repeat=n):
        if sum(len(c) for c in combo) > max_links:
            continue
        if not _reachable(n, combo):
            continue
        if cyclic_only and not _has_cycle(n, combo):
            continue
        bare_sources = {i for i, ls in enumerate(combo) if any(k == "bare" for _, k in ls)}
        if any(t in bare_sources for ls in combo for t, k in ls if k == "bare"):
            continue
        # identify relabelings of the non-root nodes
        best = None
        for perm in itertools.permutations(range(1, n)):
            m = {0: 0, **{old: new for old, new in zip(range(1, n), perm)}}
            rel = [None] * n
            for i, ls in enumerate(combo):
                rel[m[i]] = tuple((m[t], k) for t, k in ls)
            key = repr(rel)
            if best is None or key < best:
                best = key
        if best in seen:
            continue
        seen.add(best)
        out.append(Topo(n, tuple(combo)))
    return out


# ---------------------------------------------------------------- recursive aliases

ALIAS_PROGRAMS = [
    # (name, source, root expr, wire builder(d), expected builder(d))
    ("dict-alias", 'import typing\nA = typing.TypeAliasType("A", "dict[str, A | int]")\n', "A"),
    ("list-alias", 'import typing\nA = typing.TypeAliasType("A", "list[A]")\n', "A"),
    ("list-or-int", 'import typing\nA = typing.TypeAliasType("A", "list[A] | int")\n', "A"),
    ("mutual", 'import typing\nA = typing.TypeAliasType("A", "dict[str, B | int]")\nB = typing.TypeAliasType("B", "list[A]")\n', "A"),
    # PEP 695 `type` statements: lazily evaluated aliases whose value contains the alias itself
    ("dict-alias", "type A = dict[str, A | int]\n", "A"),
    ("list-alias", "type A = list[A]\n", "A"),
    ("list-or-int", "type A = list[A] | int\n", "A"),
    ("mutual", "type A = dict[str, B | int]\ntype B = list[A]\n", "A"),
    ("list-or-int", "type A = list[A] | int\n", "A.__value__"),
    ("dict-alias", "type A = dict[str, A | int]\n", "A.__value__"),
    # the alias met BELOW the root: as a container member and as a class field (its written form differs from its unwrapped form)
    ("list-or-int", "type A = list[A] | int\n", "dict[str, A]"),
    ("list-or-int", "type A = list[A] | int\n", "list[A]"),
    ("dict-alias", "type A = dict[str, A | int]\n", "dict[str, A]"),
    ("dict-alias", "type A = dict[str, A | int]\n", "list[A]"),
    ("mutual", "type A = dict[str, B | int]\ntype B = list[A]\n", "dict[str, A]"),
    ("dict-alias", "import dataclasses\ntype A = dict[str, A | int]\n@dataclasses.dataclass\nclass H:\n    body: A = None\n    n: int = 0\n", "H"),
    ("list-or-int", "import dataclasses\ntype A = list[A] | int\n@dataclasses.dataclass\nclass H:\n    body: A = None\n    n: int = 0\n", "H"),
    ("dict-alias", 'import dataclasses, typing\nA = typing.TypeAliasType("A", "dict[str, A | int]")\n@dataclasses.dataclass\nclass H:\n    body: A = None\n    n: int = 0\n', "H"),
    # a cycle made only of aliases whose way back is a bare `|` union of builtin-backed members
    ("mutual-opt", "type A = B | None\ntype B = dict[str, A]\n", "A"),
    ("mutual-opt", "type A = B | None\ntype B = dict[str, A]\n", "B"),
    ("mutual-opt", "type A = B | None\ntype B = dict[str, A]\n", "list[A]"),
]


def alias_value(name, d):
    """(wire with textual payloads, expected converted value) of nesting depth d"""
    if name == "dict-alias":
        w, e = {"n": "7"}, {"n": 7}
        for _ in range(d):
            w, e = {"k": w, "n": "7"}, {"k": e, "n": 7}
        return w, e
    if name == "list-alias":
        w, e = [], []
        for _ in range(d):
            w, e = [w], [e]
        return w, e
    if name == "list-or-int":
        w, e = "7", 7
        for _ in range(d):
            w, e = [w, "7"], [e, 7]
        return w, e
    if name == "mutual-opt":
        w = e = {"z": None}
        for _ in range(d):
            w = e = {"k": w, "z": None}
        return w, e
    if name == "mutual":
        w, e = {"n": "7"}, {"n": 7}
        for _ in range(d):
            w, e = {"k": [w], "n": "7"}, {"k": [e], "n": 7}
        return w, e
    raise KeyError(name)
