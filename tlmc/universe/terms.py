"""The supported type universe U as a term grammar (DESIGN §3).

Every Term has: Python source (`src`), a realisation (`ann(ns)`), an ordered finite value alphabet
(`values(ns, w, r)`, fresh objects on every call), a reference wire form (`wire(ns, v)`, used to
*generate inputs* and as oracle only for scalars) and a reference conformance predicate
(`conforms(ns, x)`).
"""
from __future__ import annotations

import collections
import collections.abc
import datetime
import decimal
import fractions
import itertools
import pathlib
import re
import typing
import uuid

from ..refmodel import iso8601
from . import prelude

D = decimal.Decimal
F = fractions.Fraction
UTC = datetime.timezone.utc


def tz(minutes):
    return datetime.timezone(datetime.timedelta(minutes=minutes))


# --------------------------------------------------------------------------- base


class Term:
    kind = "?"
    src = ""
    depth = 0
    args: tuple = ()
    hashable = False  # values are hashable (may be set members)
    keyable = False  # may be a mapping key (wire form is a JSON primitive)
    strkey = False  # wire form is a str (JSON object key)
    has_union = False
    has_opt = False
    has_bytes = False
    has_cls = False
    temporal = False
    size = 1

    def ann(self, ns):
        return eval(self.src, ns)  # noqa: S307 - our own generated source

    def values(self, ns, w=2, r=2, top=True):
        raise NotImplementedError

    def wire(self, ns, v):
        raise NotImplementedError

    def conforms(self, ns, x, strict=False):
        raise NotImplementedError

    def decompose(self, ns, v):
        """[(member term, member value)] for a valid value v."""
        return []

    def sig(self):
        return self.kind

    def classes(self):
        """ClsTerm nodes (with generated sources) reachable from here, dependencies first."""
        out = []
        for a in self.args:
            for c in a.classes():
                if c not in out:
                    out.append(c)
        return out

    def walk(self):
        yield self
        for a in self.args:
            yield from a.walk()

    def __repr__(self):
        return f"<{self.src}>"

    def __eq__(self, o):
        return isinstance(o, Term) and self.src == o.src

    def __hash__(self):
        return hash(self.src)


# --------------------------------------------------------------------------- leaves


class Leaf(Term):
    kind = "leaf"

    def __init__(self, name, src, vals, wire, cls, *, hashable=True, keyable=False, strkey=False, temporal=False, has_bytes=False, strictcls=None, big=()):
        self.name = name
        self.src = src
        self._vals = vals
        self._wire = wire
        self._cls = cls  # class(es) for isinstance
        self.hashable = hashable
        self.keyable = keyable
        self.strkey = strkey
        self.temporal = temporal
        self.has_bytes = has_bytes
        self._big = big

    def values(self, ns, w=2, r=2, top=True):
        vs = list(self._vals(ns))
        return vs

    def wire(self, ns, v):
        return self._wire(v)

    def conforms(self, ns, x, strict=False):
        cls = self._cls(ns) if callable(self._cls) and not isinstance(self._cls, type) else self._cls
        if strict:
            return type(x) is cls if isinstance(cls, type) else type(x) in cls
        return isinstance(x, cls)

    def sig(self):
        return self.name


class LiteralLeaf(Leaf):
    kind = "literal"

    def __init__(self, name, src, members):
        self.name = name
        self.src = src
        self.members = members
        self.hashable = True
        self.keyable = all(isinstance(m, (str, int)) and not isinstance(m, bool) for m in members)
        self.strkey = all(isinstance(m, str) for m in members)

    def values(self, ns, w=2, r=2, top=True):
        return list(self.members)

    def wire(self, ns, v):
        return v

    def conforms(self, ns, x, strict=False):
        return any(x == m and type(x) is type(m) for m in self.members)


def _ident(v):
    return v


def _enum_vals(name):
    return lambda ns: list(ns[name])


def _aware_datetimes():
    base = [
        (1, 1, 1, 0, 0, 0, 0),
        (1970, 1, 1, 0, 0, 0, 0),
        (2020, 2, 29, 23, 59, 59, 999999),
        (9999, 12, 31, 23, 59, 59, 999999),
        (1969, 12, 31, 23, 59, 59, 1),
    ]
    offs = [0, 330, -1439, 1439, -1]
    out = []
    for b in base:
        for o in offs:
            try:
                d = datetime.datetime(*b, tzinfo=tz(o) if o else UTC)
                d.utctimetuple()
                (d - datetime.datetime(1970, 1, 1, tzinfo=UTC))  # representable instant
                d.astimezone(UTC)
            except (OverflowError, ValueError):
                continue
            out.append(d)
    return out


DATETIMES_FULL = _aware_datetimes()
DATETIMES = [
    datetime.datetime(1970, 1, 1, tzinfo=UTC),
    datetime.datetime(1970, 1, 1, 5, 30, tzinfo=tz(330)),  # the same instant as the first value, other offset (== and hash alike)
    datetime.datetime(2020, 2, 29, 23, 59, 59, 999999, tzinfo=tz(330)),
    datetime.datetime(1, 1, 1, tzinfo=UTC),
    datetime.datetime(9999, 12, 31, 23, 59, 59, 999999, tzinfo=UTC),
    datetime.datetime(1969, 12, 31, 23, 59, 59, 1, tzinfo=tz(-1)),
    datetime.datetime(2020, 2, 29, 12, 0, tzinfo=tz(-1439)),
    datetime.datetime(2001, 9, 9, 1, 46, 40, tzinfo=tz(1439)),
    datetime.datetime(2021, 11, 7, 1, 30, tzinfo=tz(-300), fold=1),
]
TIMES = [
    datetime.time(0, 0, tzinfo=UTC),
    datetime.time(5, 30, tzinfo=tz(330)),  # equal to the first value (same UTC time of day), other offset
    datetime.time(12, 30, tzinfo=tz(330)),
    datetime.time(23, 59, 59, 999999, tzinfo=UTC),
    datetime.time(0, 0, 0, 1, tzinfo=tz(-1)),
    datetime.time(1, 2, 3, tzinfo=tz(300)),
    datetime.time(23, 59, 59, tzinfo=tz(-1439)),
    datetime.time(6, 0, tzinfo=tz(1439)),
]
TIMEDELTAS = [
    datetime.timedelta(0),
    datetime.timedelta(seconds=1),
    datetime.timedelta(microseconds=1),
    datetime.timedelta(microseconds=-1),
    datetime.timedelta(seconds=59, microseconds=999999),
    datetime.timedelta(minutes=1),
    datetime.timedelta(hours=1),
    datetime.timedelta(hours=25),
    datetime.timedelta(days=1),
    datetime.timedelta(days=6, hours=23),
    datetime.timedelta(days=7),
    datetime.timedelta(days=8, seconds=1),
    datetime.timedelta(days=30),
    datetime.timedelta(days=365),
    datetime.timedelta(days=400),
    datetime.timedelta(days=-1),
    datetime.timedelta(days=-8),
    datetime.timedelta(seconds=-1),
    datetime.timedelta.max,
    datetime.timedelta.min,
]
DATES = [
    datetime.date(1970, 1, 1),
    datetime.date(2020, 2, 29),
    datetime.date(1, 1, 1),
    datetime.date(9999, 12, 31),
    datetime.date(1969, 12, 31),
]
STRS = [
    "", "a", "ab", "abc", "1", "1.5", "null", "true", "None", "[1]", '{"a": 1}', "(1, 2)", "1,2", '"x"',
    "2020-01-01", "12:00:00", "PT1S", " 1 ", "é", "\x00", "nan", "0x10", "1_0",
]
INTS = [0, 1, -1, 7, 2**63 - 1, -(2**63)]
INTS_BIG = [2**64, 10**30]
FLOATS = [0.0, 1.5, -0.0, 0.1, 1e16, 1e22, 5e-324, 1.7976931348623157e308, -2.5]
DECIMALS = [D("0"), D("-0"), D("1"), D("0.1"), D("1.10"), D("1E+30"), D("1E-30"), D("-7.25"), D("Infinity")]
FRACTIONS = [F(0), F(1, 2), F(-3, 4), F(5), F(10**30, 7)]
UUIDS = [
    uuid.UUID(int=0),
    uuid.UUID(int=1),
    uuid.UUID(int=2**128 - 1),
    uuid.UUID("12345678-1234-1234-1234-123456789012"),
    uuid.UUID("9f1c2d3e-4b5a-4c6d-8e7f-0a1b2c3d4e5f"),
]
PATHS = [".", "a", "a/b", "/", "/a/b", "1", "1.5", "null", "[1]", "a b"]
PATTERNS = ["a+", "", "[0-9]+", "1", "(a|b)", r"\d"]


def _cls(name):
    return lambda ns: ns[name]


def _mk_leaves():
    L = {}

    def add(leaf):
        L[leaf.name] = leaf

    add(Leaf("int", "int", lambda ns: list(INTS), _ident, int, keyable=True))
    add(Leaf("bool", "bool", lambda ns: [True, False], _ident, bool, keyable=True))
    add(Leaf("float", "float", lambda ns: list(FLOATS), _ident, float, keyable=True))
    add(Leaf("str", "str", lambda ns: list(STRS), _ident, str, keyable=True, strkey=True))
    add(Leaf("Decimal", "decimal.Decimal", lambda ns: list(DECIMALS), str, D, keyable=True, strkey=True))
    add(Leaf("Fraction", "fractions.Fraction", lambda ns: list(FRACTIONS), str, F))
    add(Leaf("UUID", "uuid.UUID", lambda ns: list(UUIDS), str, uuid.UUID, keyable=True, strkey=True))
    add(Leaf("PurePosixPath", "pathlib.PurePosixPath", lambda ns: [pathlib.PurePosixPath(p) for p in PATHS], str, pathlib.PurePosixPath))
    add(Leaf("Path", "pathlib.Path", lambda ns: [pathlib.Path(p) for p in PATHS], str, lambda ns: type(pathlib.Path("."))))
    add(Leaf("Pattern", "re.Pattern", lambda ns: [re.compile(p) for p in PATTERNS], lambda v: v.pattern, re.Pattern))
    add(Leaf("date", "datetime.date", lambda ns: list(DATES), lambda v: v.isoformat(), datetime.date, keyable=True, strkey=True, temporal=True))
    add(Leaf("datetime", "datetime.datetime", lambda ns: list(DATETIMES), lambda v: v.isoformat(), datetime.datetime, keyable=True, strkey=True, temporal=True))
    add(Leaf("DTsub", "DTsub", lambda ns: [ns["DTsub"](1970, 1, 1, tzinfo=UTC), ns["DTsub"](2020, 2, 29, 23, 59, 59, 999999, tzinfo=tz(330)), ns["DTsub"](2001, 9, 9, 1, 46, 40, tzinfo=tz(-60))],
             lambda v: v.isoformat(), _cls("DTsub"), temporal=True))
    add(Leaf("time", "datetime.time", lambda ns: list(TIMES), lambda v: v.isoformat(), datetime.time, temporal=True))
    add(Leaf("timedelta", "datetime.timedelta", lambda ns: list(TIMEDELTAS), iso8601.write_duration, datetime.timedelta, temporal=True))
    add(Leaf("DurSub", "DurSub", lambda ns: [ns["DurSub"](0), ns["DurSub"](days=1, seconds=5), ns["DurSub"](days=-2, microseconds=7)], iso8601.write_duration, _cls("DurSub"), temporal=True))
    for en, key, sk in (("EInt", True, False), ("EStr", True, True), ("EMix", False, False), ("EIntEnum", True, False), ("EStrMix", True, True)):
        add(Leaf(en, en, _enum_vals(en), lambda v: v.value, _cls(en), keyable=key, strkey=sk))
    # a Flag enumeration: its values include unnamed COMBINATIONS (R|X), a named multi-bit member and the zero member
    add(Leaf("EFlag", "EFlag", lambda ns: [ns["EFlag"].R, ns["EFlag"].R | ns["EFlag"].X, ns["EFlag"].RWX, ns["EFlag"].NONE, ns["EFlag"].W | ns["EFlag"].X], lambda v: v.value, _cls("EFlag"), keyable=True))
    # user subclasses of builtin scalars as TARGET types (the routine has to build the subclass, from every carrier)
    add(Leaf("StrSub", "StrSub", lambda ns: [ns["StrSub"](x) for x in ("a", "", "1", "null", "é")], lambda v: str(v), _cls("StrSub")))
    add(Leaf("IntSub", "IntSub", lambda ns: [ns["IntSub"](x) for x in (0, 1, -1, 7)], lambda v: int(v), _cls("IntSub")))
    add(Leaf("IntSub2", "IntSub2", lambda ns: [ns["IntSub2"](x) for x in (0, 1, 7)], lambda v: int(v), _cls("IntSub2")))
    add(LiteralLeaf("Lit12", "Literal[1, 2]", [1, 2]))
    add(LiteralLeaf("Litab", 'Literal["a", "b"]', ["a", "b"]))
    add(LiteralLeaf("Lit1s1", 'Literal["1", 1]', ["1", 1]))
    add(LiteralLeaf("LitMix", 'Literal[True, "x", None]', [True, "x", None]))
    add(LiteralLeaf("Lit0T", "Literal[0, True]", [0, True]))
    add(LiteralLeaf("Lit1T", "Literal[1, True]", [1, True]))  # members that are EQUAL across classes (1 == True)

    def struct(name, ctor, hashable=False):
        def vals(ns):
            c = ns[name]
            return [ctor(c, a, b) for a, b in ((1, "x"), (0, ""), (-1, "ab"), (7, "1"), (2**63 - 1, "null"), (2, '{"a": 1}'))]

        def wire(v):
            if isinstance(v, dict):
                return dict(v)
            return {"a": v.a, "b": v.b}

        leaf = Leaf(name, name, vals, wire, _cls(name), hashable=hashable)
        leaf.kind = "struct"
        leaf.has_cls = True
        leaf.fields = (("a", L["int"]), ("b", L["str"]))
        return leaf

    kw = lambda c, a, b: c(a=a, b=b)  # noqa: E731
    add(struct("DC", kw))
    add(struct("DCslots", kw))
    add(struct("DCkw", kw))
    add(struct("DCfrozen", kw, hashable=True))
    add(struct("DCcall", kw))
    add(struct("DCcv", kw))
    add(struct("NT", kw, hashable=True))
    add(struct("NTba", kw, hashable=True))  # str field first (2-character / 2-element first members)
    add(struct("NTbaSub", kw, hashable=True))
    add(struct("PC", kw, hashable=True))
    add(struct("PCcv", kw, hashable=True))
    add(struct("PCinh", kw, hashable=True))
    add(struct("PCinit", kw, hashable=True))
    add(struct("PCinitE", kw, hashable=True))
    add(struct("PCkwo", kw, hashable=True))
    add(struct("PCfin", kw, hashable=True))  # second field Final[str]
    add(struct("SOleaf", kw, hashable=True))
    add(struct("SC", kw, hashable=True))
    td = struct("TD", lambda c, a, b: {"a": a, "b": b})
    tdnr = struct("TDnr", lambda c, a, b: {"a": a, "b": b})
    for t in (td, tdnr):
        t._cls = dict
        add(t)
    tdnr._required = ("a",)
    tdpart = struct("TDpart", lambda c, a, b: {"a": a, "b": b})
    tdpart._cls = dict
    tdpart._required = ("a", "b")
    tdpart.fields = (("a", L["int"]), ("b", L["str"]), ("c", L["int"]))
    _op = tdpart._vals
    tdpart._vals = lambda ns: _op(ns) + [{"a": 3, "b": "y", "c": 4}]
    add(tdpart)
    tdreq = struct("TDreq", lambda c, a, b: {"a": a, "b": b})
    tdreq._cls = dict
    tdreq._required = ("a",)
    _oq = tdreq._vals
    tdreq._vals = lambda ns: _oq(ns) + [{"a": 3}]
    add(tdreq)
    tditems = struct("TDitems", lambda c, a, b: {"items": a, "b": b})
    tditems._cls = dict
    tditems._required = ("items", "b")
    tditems.fields = (("items", L["int"]), ("b", L["str"]))
    add(tditems)
    tdund = struct("TDund", lambda c, a, b: {"_a": decimal.Decimal(a), "b": b})
    tdund._cls = dict
    tdund._required = ("_a", "b")
    tdund.fields = (("_a", L["Decimal"]), ("b", L["str"]))
    add(tdund)
    tdte = struct("TDte", lambda c, a, b: {"a": a, "b": b})
    tdte._cls = dict
    add(tdte)
    _orig = tdnr._vals

    def tdnr_vals(ns):
        return _orig(ns) + [{"a": 3}]

    tdnr._vals = tdnr_vals
    return L


class StructLeafMixin:
    pass


LEAVES = _mk_leaves()


def _struct_conforms(leaf, ns, x, strict=False):
    name = leaf.name
    if leaf._cls is dict:
        if not isinstance(x, dict):
            return False
        req = ns[name].__required_keys__  # Python's own record of the required keys
        if not all(k in x for k in req):
            return False
        for f, t in leaf.fields:
            if f in x and not t.conforms(ns, x[f]):
                return False
        return True
    c = ns[name]
    if not (type(x) is c if strict else isinstance(x, c)):
        return False
    for f, t in leaf.fields:
        try:
            fv = getattr(x, f)
        except AttributeError:
            return False
        if not t.conforms(ns, fv):
            return False
    return True


def _struct_decompose(leaf, ns, v):
    out = []
    for f, t in leaf.fields:
        if isinstance(v, dict):
            if f in v:
                out.append((t, v[f]))
        else:
            out.append((t, getattr(v, f)))
    return out


for _l in LEAVES.values():
    if _l.kind == "struct":
        _l.conforms = (lambda leaf: lambda ns, x, strict=False: _struct_conforms(leaf, ns, x, strict))(_l)
        _l.decompose = (lambda leaf: lambda ns, v: _struct_decompose(leaf, ns, v))(_l)
        _l.wire = (lambda leaf: lambda ns, v: {f: t.wire(ns, fv) for (f, t), (_, fv) in zip([(f, t) for f, t in leaf.fields if not isinstance(v, dict) or f in v], _struct_decompose(leaf, ns, v))})(_l)

L_ALL = list(LEAVES)
K = ["int", "str", "Decimal", "datetime", "timedelta", "EStr", "Lit1s1", "DC", "NT", "TD"]
K4 = ["int", "str", "datetime", "DC"]

# bytes-like roots (C02 clause 4, C14 exclusions)
BYTES_LEAVES = {
    "bytes": Leaf("bytes", "bytes", lambda ns: [b"", b"a", b"1", b"\xff\x00", b'{"a": 1}'], _ident, bytes, has_bytes=True),
    "bytearray": Leaf("bytearray", "bytearray", lambda ns: [bytearray(b""), bytearray(b"a"), bytearray(b"1"), bytearray(b"\xff\x00")], _ident, bytearray, hashable=False, has_bytes=True),
}


def leaf(name) -> Leaf:
    return LEAVES[name]


# --------------------------------------------------------------------------- constructors

NESTED_TRUNC = 6


def _member_vals(t, ns, w, r, top):
    vs = t.values(ns, w, r, top=False)
    if not top:
        vs = vs[:NESTED_TRUNC]
    return vs


class Seq(Term):
    """list / set / frozenset / deque / tuple[X, ...] in any spelling."""

    # spelling -> (kind, concrete origin name, abstract class for conformance)
    SPELLINGS = {
        "list": ("list", list, list),
        "typing.List": ("list", list, list),
        "typing.Sequence": ("list", list, collections.abc.Sequence),
        "collections.abc.Sequence": ("list", list, collections.abc.Sequence),
        "typing.MutableSequence": ("list", list, collections.abc.MutableSequence),
        "typing.Collection": ("list", list, collections.abc.Collection),
        "typing.Iterable": ("list", list, collections.abc.Iterable),
        "collections.abc.Iterable": ("list", list, collections.abc.Iterable),
        "set": ("set", set, set),
        "typing.Set": ("set", set, set),
        "typing.AbstractSet": ("set", set, collections.abc.Set),
        "collections.abc.Set": ("set", set, collections.abc.Set),
        "typing.MutableSet": ("set", set, collections.abc.MutableSet),
        "frozenset": ("frozenset", frozenset, frozenset),
        "typing.FrozenSet": ("frozenset", frozenset, frozenset),
        "collections.deque": ("deque", collections.deque, collections.deque),
        "typing.Deque": ("deque", collections.deque, collections.deque),
        "tuple...": ("vtuple", tuple, tuple),
        "typing.Tuple...": ("vtuple", tuple, tuple),
    }
    CANON = ["list", "set", "frozenset", "collections.deque", "tuple..."]

    def __init__(self, spelling, arg):
        self.spelling = spelling
        self.kind, self.origin, self.abc = self.SPELLINGS[spelling]
        self.args = (arg,)
        if spelling.endswith("..."):
            self.src = f"{spelling[:-3]}[{arg.src}, ...]"
        else:
            self.src = f"{spelling}[{arg.src}]"
        self.depth = arg.depth + 1
        self.size = arg.size + 1
        self.hashable = self.kind in ("frozenset", "vtuple") and arg.hashable
        self.has_union = arg.has_union
        self.has_opt = arg.has_opt
        self.has_bytes = arg.has_bytes
        self.has_cls = arg.has_cls
        self.temporal = arg.temporal

    @staticmethod
    def ok(spelling, arg):
        kind = Seq.SPELLINGS[spelling][0]
        return arg.hashable if kind in ("set", "frozenset") else True

    def values(self, ns, w=2, r=2, top=True):
        a = self.args[0]
        mk = self.origin
        out = [mk()]
        mv = _member_vals(a, ns, w, r, top)
        for i in range(len(mv)):
            out.append(mk([_member_vals(a, ns, w, r, top)[i]]))
        if w >= 2:
            n = min(r, len(mv))
            isset = self.kind in ("set", "frozenset")
            for size in range(2, w + 1):
                for combo in itertools.product(range(n), repeat=size):
                    if isset and (len(set(combo)) < size or list(combo) != sorted(combo)):
                        continue
                    fresh = _member_vals(a, ns, w, r, top)
                    vals = [fresh[i] for i in combo] if len(set(combo)) == size else [_member_vals(a, ns, w, r, top)[i] for i in combo]
                    if isset:
                        try:
                            s = mk(vals)
                        except TypeError:
                            continue
                        if len(s) != size:
                            continue  # members compare equal (1 == True)
                        out.append(s)
                    else:
                        out.append(mk(vals))
        return out

    def wire(self, ns, v):
        a = self.args[0]
        return [a.wire(ns, x) for x in v]

    def conforms(self, ns, x, strict=False):
        if strict:
            if type(x) is not self.origin:
                return False
        elif not isinstance(x, self.abc) or isinstance(x, (str, bytes, bytearray)):
            return False
        if self.abc in (collections.abc.Iterable,) and not isinstance(x, collections.abc.Collection):
            return False  # one-shot iterators are judged by the caller (consumed first)
        a = self.args[0]
        return all(a.conforms(ns, e, strict) for e in x)

    def decompose(self, ns, v):
        return [(self.args[0], e) for e in v]

    def sig(self):
        return f"{self.kind}[{self.args[0].sig()}]"


class FTuple(Term):
    kind = "ftuple"

    def __init__(self, spelling, args):
        self.spelling = spelling
        self.args = tuple(args)
        self.src = f"{spelling}[{', '.join(a.src for a in args)}]"
        self.depth = max(a.depth for a in args) + 1
        self.size = sum(a.size for a in args) + 1
        self.hashable = all(a.hashable for a in args)
        self.has_union = any(a.has_union for a in args)
        self.has_opt = any(a.has_opt for a in args)
        self.has_bytes = any(a.has_bytes for a in args)
        self.has_cls = any(a.has_cls for a in args)

    def values(self, ns, w=2, r=2, top=True):
        return [tuple(c) for c in _product_values([(a, None) for a in self.args], ns, w, r, top)]

    def wire(self, ns, v):
        return [a.wire(ns, x) for a, x in zip(self.args, v)]

    def conforms(self, ns, x, strict=False):
        if not (type(x) is tuple if strict else isinstance(x, tuple)):
            return False
        return len(x) == len(self.args) and all(a.conforms(ns, e, strict) for a, e in zip(self.args, x))

    def decompose(self, ns, v):
        return list(zip(self.args, v))

    def sig(self):
        return f"ftuple[{','.join(a.sig() for a in self.args)}]"


def _product_values(members, ns, w, r, top):
    """One-at-a-time sweep + full product over the first r values of every member (DESIGN §3.4)."""
    terms = [m[0] for m in members]

    def fresh(i):
        return _member_vals(terms[i], ns, w, r, top)

    firsts = [fresh(i) for i in range(len(terms))]
    seen = set()
    out = []

    def emit(idx):
        if idx in seen:
            return
        seen.add(idx)
        out.append([fresh(i)[j] for i, j in enumerate(idx)])

    base = tuple(0 for _ in terms)
    emit(base)
    for i in range(len(terms)):
        for j in range(len(firsts[i])):
            emit(base[:i] + (j,) + base[i + 1 :])
    for idx in itertools.product(*(range(min(r, len(f))) for f in firsts)):
        emit(tuple(idx))
    return out


class Map(Term):
    kind = "dict"
    SPELLINGS = {
        "dict": (dict, dict),
        "typing.Dict": (dict, dict),
        "typing.Mapping": (dict, collections.abc.Mapping),
        "collections.abc.Mapping": (dict, collections.abc.Mapping),
        "typing.MutableMapping": (dict, collections.abc.MutableMapping),
        # a concrete mapping class other than dict as TARGET: the result is an instance of that class
        "collections.OrderedDict": (collections.OrderedDict, collections.OrderedDict),
    }

    def __init__(self, spelling, k, v):
        self.spelling = spelling
        self.origin, self.abc = self.SPELLINGS[spelling]
        self.args = (k, v)
        self.src = f"{spelling}[{k.src}, {v.src}]"
        self.depth = max(k.depth, v.depth) + 1
        self.size = k.size + v.size + 1
        self.has_union = k.has_union or v.has_union
        self.has_opt = k.has_opt or v.has_opt
        self.has_bytes = k.has_bytes or v.has_bytes
        self.has_cls = v.has_cls
        self.strkeys_only = k.strkey and getattr(v, "strkeys_only", True)

    @staticmethod
    def ok(k, v):
        return k.keyable

    def values(self, ns, w=2, r=2, top=True):
        kt, vt = self.args
        ks = _member_vals(kt, ns, w, r, top)
        vs = _member_vals(vt, ns, w, r, top)
        out = [{}]
        seen = set()
        for i in range(len(ks)):
            seen.add((i, 0))
            out.append({_member_vals(kt, ns, w, r, top)[i]: _member_vals(vt, ns, w, r, top)[0]})
        for j in range(1, len(vs)):
            out.append({_member_vals(kt, ns, w, r, top)[0]: _member_vals(vt, ns, w, r, top)[j]})
        if w >= 2:
            nk, nv = min(max(r, 2), len(ks)), min(r, len(vs))
            for i1 in range(nk):
                for i2 in range(i1 + 1, nk):
                    for j1 in range(nv):
                        for j2 in range(nv):
                            kk = _member_vals(kt, ns, w, r, top)
                            d = {kk[i1]: _member_vals(vt, ns, w, r, top)[j1], kk[i2]: _member_vals(vt, ns, w, r, top)[j2]}
                            if len(d) == 2:
                                out.append(d)
        if self.origin is not dict:
            out = [self.origin(d) for d in out]  # valid values are instances of the annotated concrete class
        return out

    def wire(self, ns, v):
        kt, vt = self.args
        return {kt.wire(ns, k): vt.wire(ns, x) for k, x in v.items()}

    def conforms(self, ns, x, strict=False):
        if not (type(x) is self.origin if strict else isinstance(x, self.abc)):
            return False
        kt, vt = self.args
        return all(kt.conforms(ns, k, strict) and vt.conforms(ns, e, strict) for k, e in x.items())

    def decompose(self, ns, v):
        kt, vt = self.args
        out = []
        for k, e in v.items():
            out.append((kt, k))
            out.append((vt, e))
        return out

    def sig(self):
        return f"dict[{self.args[0].sig()},{self.args[1].sig()}]"


class Union(Term):
    kind = "union"
    has_union = True

    def __init__(self, spelling, members, none_at=None):
        """members: list of Terms; none_at: position of None among the members (or None)."""
        self.spelling = spelling  # "typing.Union" | "|" | "typing.Optional"
        self.members = tuple(members)
        self.args = tuple(members)
        self.none_at = none_at
        srcs = [m.src for m in members]
        if none_at is not None:
            srcs.insert(none_at, "None")
        if spelling == "typing.Optional":
            assert len(members) == 1 and none_at == 1
            self.src = f"typing.Optional[{members[0].src}]"
        elif spelling == "|":
            self.src = " | ".join(f"({s})" if " | " in s else s for s in srcs)
        else:
            self.src = f"typing.Union[{', '.join(srcs)}]"
        self.depth = max(m.depth for m in members) + 1
        self.size = sum(m.size for m in members) + 1
        self.hashable = all(m.hashable for m in members)
        self.has_union = len(members) > 1 or any(m.has_union for m in members)
        self.has_opt = none_at is not None or any(m.has_opt for m in members)
        self.has_bytes = any(m.has_bytes for m in members)
        self.has_cls = any(m.has_cls for m in members)
        self.kind = "union" if len(members) > 1 else "optional"
        self.keyable = False

    def ordered(self):
        """Declared order incl. None as (index, term|None)."""
        out = list(self.members)
        if self.none_at is not None:
            out.insert(self.none_at, None)
        return out

    def values(self, ns, w=2, r=2, top=True):
        out = []
        if self.none_at is not None:
            out.append(None)
        for m in self.members:
            vs = _member_vals(m, ns, w, r, top)
            out.extend(vs if len(self.members) == 1 else vs[: max(4, r + 2)])
        return out

    def member_of(self, ns, v):
        """indices (into self.members) of members v strictly is an instance of"""
        return [i for i, m in enumerate(self.members) if m.conforms(ns, v, strict=True)]

    def wire(self, ns, v):
        if v is None and self.none_at is not None:
            return None
        for m in self.members:
            if m.conforms(ns, v, strict=True):
                return m.wire(ns, v)
        for m in self.members:
            if m.conforms(ns, v):
                return m.wire(ns, v)
        raise ValueError("not a union value")

    def conforms(self, ns, x, strict=False):
        if x is None and self.none_at is not None:
            return True
        return any(m.conforms(ns, x, strict) for m in self.members)

    def decompose(self, ns, v):
        if v is None:
            return []
        idx = self.member_of(ns, v)
        return [(self.members[idx[0]], v)] if idx and len(self.members) == 1 else []

    def sig(self):
        parts = [m.sig() for m in self.members]
        if self.none_at is not None:
            parts.insert(self.none_at, "None")
        return ("opt" if self.kind == "optional" else "union") + "[" + ",".join(parts) + "]"


def Optional(arg, spelling="typing.Optional"):
    if spelling == "typing.Optional":
        return Union("typing.Optional", [arg], none_at=1)
    if spelling == "typing.Union":
        return Union("typing.Union", [arg], none_at=1)
    if spelling == "|":
        return Union("|", [arg], none_at=1)
    if spelling == "None|":
        return Union("|", [arg], none_at=0)
    raise ValueError(spelling)


# --------------------------------------------------------------------------- synthesised classes

FLAVOURS = ["DC", "DCslots", "DCkw", "DCfrozen", "NT", "TD", "TDnr", "PC", "SC"]


class ClsTerm(Term):
    """A synthesised structured class `name` of a given flavour with fields [(fname, Term, default_src|None)]."""

    kind = "cls"
    has_cls = True

    def __init__(self, flavour, name, fields, *, module=None):
        self.flavour = flavour
        self.name = name
        self.fields = tuple(fields)
        self.args = tuple(f[1] for f in fields)
        self.src = name
        self.depth = max([a.depth for a in self.args] or [0]) + 1
        self.size = sum(a.size for a in self.args) + 1
        self.hashable = flavour in ("DCfrozen", "NT", "PC", "SC") and all(a.hashable for a in self.args)
        self.has_union = any(a.has_union for a in self.args)
        self.has_opt = any(a.has_opt for a in self.args)
        self.has_bytes = any(a.has_bytes for a in self.args)
        self.module = module

    def classes(self):
        out = super().classes()
        if self not in out:
            out.append(self)
        return out

    def source(self):
        fl = self.flavour
        names = [f[0] for f in self.fields]
        lines = []
        if fl in ("DC", "DCslots", "DCkw", "DCfrozen"):
            deco = {"DC": "", "DCslots": "slots=True", "DCkw": "kw_only=True", "DCfrozen": "frozen=True"}[fl]
            lines.append(f"@dataclasses.dataclass({deco})")
            lines.append(f"class {self.name}:")
            for n, t, d in self.fields:
                lines.append(f"    {n}: {t.src}" + (f" = {d}" if d is not None else ""))
        elif fl == "NT":
            lines.append(f"class {self.name}(typing.NamedTuple):")
            for n, t, d in self.fields:
                lines.append(f"    {n}: {t.src}" + (f" = {d}" if d is not None else ""))
        elif fl in ("TD", "TDnr"):
            lines.append(f"class {self.name}(typing.TypedDict):")
            for i, (n, t, d) in enumerate(self.fields):
                if fl == "TDnr" and d is not None:
                    lines.append(f"    {n}: typing.NotRequired[{t.src}]")
                else:
                    lines.append(f"    {n}: {t.src}")
        else:  # PC / SC
            lines.append(f"class {self.name}:")
            if fl == "SC":
                lines.append(f"    __slots__ = {tuple(names)!r}")
            for n, t, d in self.fields:
                lines.append(f"    {n}: {t.src}")
            lines.append(f"    __tlmc_fields__ = {tuple(names)!r}")
            params = ", ".join(f"{n}: {t.src}" + (f" = {d}" if d is not None else "") for n, t, d in self.fields)
            lines.append(f"    def __init__(self, {params}):")
            for n in names:
                lines.append(f"        self.{n} = {n}")
            if not names:
                lines.append("        pass")
            tup = "(" + "".join(f"self.{n}, " for n in names) + ")"
            otup = "(" + "".join(f"o.{n}, " for n in names) + ")"
            lines.append("    def __eq__(self, o):")
            lines.append(f"        return type(o) is type(self) and {tup} == {otup}")
            lines.append("    def __hash__(self):")
            lines.append(f"        return hash({tup})")
            lines.append("    def __repr__(self):")
            lines.append(f"        return '{self.name}' + repr({tup})")
        if len(lines) and lines[-1].endswith(":"):
            lines.append("    pass")
        return "\n".join(lines) + "\n"

    def isdict(self):
        return self.flavour in ("TD", "TDnr")

    def required(self):
        if self.flavour == "TDnr":
            return [n for n, t, d in self.fields if d is None]
        return [n for n, t, d in self.fields]

    def make(self, ns, vals):
        if self.isdict():
            return dict(zip([f[0] for f in self.fields], vals))
        return ns[self.name](**dict(zip([f[0] for f in self.fields], vals)))

    def values(self, ns, w=2, r=2, top=True):
        out = [self.make(ns, vs) for vs in _product_values([(t, d) for n, t, d in self.fields], ns, w, r, top)]
        if self.flavour == "TDnr":
            req = self.required()
            if len(req) < len(self.fields):
                first = _product_values([(t, d) for n, t, d in self.fields], ns, w, r, top)[0]
                out.append({n: v for (n, t, d), v in zip(self.fields, first) if n in req})
        return out

    def wire(self, ns, v):
        return {n: t.wire(ns, fv) for (n, t, d), fv in self._fieldvals(v)}

    def _fieldvals(self, v):
        for f in self.fields:
            if isinstance(v, dict):
                if f[0] in v:
                    yield f, v[f[0]]
            else:
                yield f, getattr(v, f[0])

    def conforms(self, ns, x, strict=False):
        if self.isdict():
            if not isinstance(x, dict):
                return False
            if not all(k in x for k in self.required()):
                return False
            return all(t.conforms(ns, x[n], strict) for n, t, d in self.fields if n in x)
        c = ns[self.name]
        if not (type(x) is c if strict else isinstance(x, c)):
            return False
        for n, t, d in self.fields:
            try:
                fv = getattr(x, n)
            except AttributeError:
                return False
            if not t.conforms(ns, fv, strict):
                return False
        return True

    def decompose(self, ns, v):
        return [(f[1], fv) for f, fv in self._fieldvals(v)]

    def sig(self):
        return f"{self.flavour}({','.join(a.sig() for a in self.args)})"


# --------------------------------------------------------------------------- programs (term -> namespace)

HEADER = (
    "from tlg_prelude import *\nimport collections, collections.abc, dataclasses, datetime, decimal, enum, fractions, pathlib, re, typing, uuid\n"
    "def call1(f, *a, **k):\n    return f(*a, **k)\ndef call2(f, *a, **k):\n    return call1(f, *a, **k)\ndef call3(f, *a, **k):\n    return call2(f, *a, **k)\n"
)


class Program:
    """A root term plus the module that defines its synthesised classes."""

    _n = 0

    def __init__(self, term: Term, extra_src: str = "", future: bool = False):
        self.term = term
        classes = term.classes()
        self.src = None
        if classes or extra_src or future:
            body = "".join(c.source() + "\n" for c in classes)
            self.src = ("from __future__ import annotations\n" if future else "") + HEADER + body + extra_src
        self.modname = None
        self.ns = None

    def load(self):
        pm = prelude.prelude()
        if self.src is None:
            self.ns = pm.__dict__
            self.modname = prelude.PRELUDE_NAME
        else:
            Program._n += 1
            self.modname = f"tlg_p{Program._n}"
            self.ns = prelude.mkmod(self.modname, self.src).__dict__
        return self.ns

    def unload(self):
        if self.src is not None and self.modname:
            prelude.dropmod(self.modname)

    def ann(self):
        return self.term.ann(self.ns)

    def describe(self):
        return {"T": self.term.src, "module": self.src}


# --------------------------------------------------------------------------- enumerators


def leaves(names):
    return [LEAVES[n] for n in names]


def compose1(args, *, spellings="canon", with_union=True, ternary_over=None):
    """All depth+1 terms whose members are drawn from `args` (list of Terms)."""
    out = []
    seq_sp = Seq.CANON if spellings == "canon" else list(Seq.SPELLINGS)
    map_sp = ["dict"] if spellings == "canon" else list(Map.SPELLINGS)
    tup_sp = ["tuple"] if spellings == "canon" else ["tuple", "typing.Tuple"]
    opt_sp = ["typing.Optional"] if spellings == "canon" else ["typing.Optional", "typing.Union", "|", "None|"]
    uni_sp = ["typing.Union"] if spellings == "canon" else ["typing.Union", "|"]
    for a in args:
        for sp in seq_sp:
            if Seq.ok(sp, a):
                out.append(Seq(sp, a))
        for sp in opt_sp:
            if not (a.kind in ("optional", "union") and a.has_opt):
                out.append(Optional(a, sp))
    for a in args:
        for b in args:
            for sp in tup_sp:
                out.append(FTuple(sp, [a, b]))
            if Map.ok(a, b):
                for sp in map_sp:
                    out.append(Map(sp, a, b))
            if with_union and a.src != b.src and a.kind not in ("union", "optional") and b.kind not in ("union", "optional"):
                for sp in uni_sp:
                    out.append(Union(sp, [a, b]))
    if ternary_over:
        for a, b, c in itertools.product(ternary_over, repeat=3):
            out.append(FTuple("tuple", [a, b, c]))
            if len({a.src, b.src, c.src}) == 3:
                out.append(Union("typing.Union", [a, b, c]))
    return out


def U1(names, *, spellings="canon", ternary_over=None):
    ls = leaves(names)
    return ls + compose1(ls, spellings=spellings, ternary_over=leaves(ternary_over) if ternary_over else None)


def R2(names):
    """Restricted depth 2: every binary constructor has at least one leaf argument."""
    ls = leaves(names)
    d1 = compose1(ls)
    out = []
    for a in d1:
        for sp in Seq.CANON:
            if Seq.ok(sp, a):
                out.append(Seq(sp, a))
        if a.kind not in ("optional", "union"):
            out.append(Optional(a))
    for a in d1:
        for b in ls:
            out.append(FTuple("tuple", [a, b]))
            out.append(FTuple("tuple", [b, a]))
            if Map.ok(b, a):
                out.append(Map("dict", b, a))
            if Map.ok(a, b):
                out.append(Map("dict", a, b))
            if a.kind not in ("union", "optional") and a.src != b.src:
                out.append(Union("typing.Union", [a, b]))
                out.append(Union("typing.Union", [b, a]))
    return out


def U2(names):
    ls = leaves(names)
    d1 = ls + compose1(ls)
    return [t for t in compose1(d1) if t.depth == 2]
