"""The shared prelude module `tlg_prelude` (DESIGN §3.1): leaf classes of every structured flavour and
enum kind, defined with *eager* annotations inside a real module registered in sys.modules.

No name or path here contains the substring "typelib" (typelib.py.frames skips such frames)."""
from __future__ import annotations

import sys
import types

PRELUDE_NAME = "tlg_prelude"

PRELUDE_SRC = r'''
import collections, collections.abc, dataclasses, datetime, decimal, enum, fractions, pathlib, re, typing, typing_extensions, uuid
from typing import *  # noqa

class EInt(enum.Enum):
    A = 1
    B = 2
    C = 7

class EStr(enum.Enum):
    A = "a"
    ONE = "1"
    NULL = "null"

class EMix(enum.Enum):
    I = 1
    S = "b"
    N = None
    F = 2.5
    # members whose value is the TEXT of another member's value
    T1 = "1"
    TNULL = "null"
    TF = "2.5"

class EIntEnum(enum.IntEnum):
    A = 1
    B = 2

class EStrMix(str, enum.Enum):
    A = "a"
    ONE = "1"
    T = "true"
    N = "null"
    B = "A"  # the value is the NAME of another member

class EFlag(enum.Flag):
    R = 4
    W = 2
    X = 1
    RWX = 7   # a named multi-bit member
    NONE = 0  # the named zero member

class EOther(enum.Enum):
    Z = "z"

@dataclasses.dataclass
class DC:
    a: int
    b: str = "x"

@dataclasses.dataclass(slots=True)
class DCslots:
    a: int
    b: str = "x"

@dataclasses.dataclass(kw_only=True)
class DCkw:
    a: int
    b: str = "x"

@dataclasses.dataclass(frozen=True)
class DCfrozen:
    a: int
    b: str = "x"

class NT(typing.NamedTuple):
    a: int
    b: str = "x"

class NTba(typing.NamedTuple):
    b: str
    a: int = 0

class NTbaSub(NTba):
    # an INHERITED named tuple: no annotations of its own, only a method
    def label(self):
        return self.b

class TD(typing.TypedDict):
    a: int
    b: str

class TDnr(typing.TypedDict):
    a: int
    b: typing.NotRequired[str]

@dataclasses.dataclass
class DCcall:
    a: int
    b: str = "x"
    def __call__(self, *args, **kwargs):
        return (self.a, args, kwargs)

@dataclasses.dataclass
class DCcv:
    # a class constant next to the fields (a pseudo-field: not a constructor parameter, not a member)
    a: int
    b: str = "x"
    SCHEMA: typing.ClassVar[int] = 2

class TDpart(TD, total=False):
    c: int

class TDreq(typing.TypedDict, total=False):
    a: typing.Required[int]
    b: str

class TDitems(typing.TypedDict):
    items: int
    b: str

class TDund(typing.TypedDict):
    # a key that starts with an underscore is a key like any other (its value needs converting: Decimal <-> text)
    _a: decimal.Decimal
    b: str

class TDte(typing_extensions.TypedDict):
    # typing_extensions ships its own TypedDict implementation (typing.is_typeddict does not know it)
    a: int
    b: str

class PC:
    a: int
    b: str
    __tlmc_fields__ = ("a", "b")
    def __init__(self, a: int, b: str = "x"):
        self.a = a
        self.b = b
    def __eq__(self, o):
        return type(o) is type(self) and (self.a, self.b) == (o.a, o.b)
    def __hash__(self):
        return hash((self.a, self.b))
    def __repr__(self):
        return f"PC(a={self.a!r}, b={self.b!r})"

class PCbase:
    a: int

class PCinh(PCbase):
    # field `a` is annotated by the base class, `b` by this one
    b: str
    __tlmc_fields__ = ("a", "b")
    def __init__(self, a: int, b: str = "x"):
        self.a = a
        self.b = b
    def __eq__(self, o):
        return type(o) is type(self) and (self.a, self.b) == (o.a, o.b)
    def __hash__(self):
        return hash((self.a, self.b))
    def __repr__(self):
        return f"PCinh(a={self.a!r}, b={self.b!r})"

class PCinitE:
    # no class-level hints: the fields are known from the annotations of __init__, given as real objects (no postponed evaluation)
    __tlmc_fields__ = ("a", "b")
    def __init__(self, a: int, b: str = "x"):
        self.a = a
        self.b = b
    def __eq__(self, o):
        return type(o) is type(self) and (self.a, self.b) == (o.a, o.b)
    def __hash__(self):
        return hash((self.a, self.b))
    def __repr__(self):
        return f"PCinitE(a={self.a!r}, b={self.b!r})"

class PCkwo:
    # hinted by __init__ only, with a KEYWORD-ONLY parameter
    __tlmc_fields__ = ("a", "b")
    def __init__(self, a: int, *, b: str = "x"):
        self.a = a
        self.b = b
    def __eq__(self, o):
        return type(o) is type(self) and (self.a, self.b) == (o.a, o.b)
    def __hash__(self):
        return hash((self.a, self.b))
    def __repr__(self):
        return f"PCkwo(a={self.a!r}, b={self.b!r})"

class SObase:
    __slots__ = ("a", "b")

class SOleaf(SObase):
    # the attributes live in the slots of the BASE; this class declares `__slots__ = ()` and the constructor hints
    __slots__ = ()
    __tlmc_fields__ = ("a", "b")
    def __init__(self, a: int, b: str = "x"):
        self.a = a
        self.b = b
    def __eq__(self, o):
        return type(o) is type(self) and (self.a, self.b) == (o.a, o.b)
    def __hash__(self):
        return hash((self.a, self.b))
    def __repr__(self):
        return f"SOleaf(a={self.a!r}, b={self.b!r})"

class PCinit:
    # no class-level hints: the fields are known from the (string) annotations of __init__ only
    __tlmc_fields__ = ("a", "b")
    def __init__(self, a: "int", b: "str" = "x"):
        self.a = a
        self.b = b
    def __eq__(self, o):
        return type(o) is type(self) and (self.a, self.b) == (o.a, o.b)
    def __hash__(self):
        return hash((self.a, self.b))
    def __repr__(self):
        return f"PCinit(a={self.a!r}, b={self.b!r})"

class PCfin:
    """annotated plain class whose second field is qualified Final (an instance attribute, not a class variable)"""
    a: int
    b: typing.Final[str]
    __tlmc_fields__ = ("a", "b")
    def __init__(self, a: int, b: str = "x"):
        self.a = a
        self.b = b
    def __eq__(self, o):
        return type(o) is type(self) and (self.a, self.b) == (o.a, o.b)
    def __hash__(self):
        return hash((self.a, self.b))
    def __repr__(self):
        return f"PCfin(a={self.a!r}, b={self.b!r})"

class PCcv:
    """annotated plain class with a ClassVar next to its fields"""
    kind: typing.ClassVar[str] = "pccv"
    a: int
    b: str
    __tlmc_fields__ = ("a", "b")
    def __init__(self, a: int, b: str = "x"):
        self.a = a
        self.b = b
    def __eq__(self, o):
        return type(o) is type(self) and (self.a, self.b) == (o.a, o.b)
    def __hash__(self):
        return hash((self.a, self.b))
    def __repr__(self):
        return f"PCcv(a={self.a!r}, b={self.b!r})"

class SC:
    __slots__ = ("a", "b")
    a: int
    b: str
    __tlmc_fields__ = ("a", "b")
    def __init__(self, a: int, b: str = "x"):
        self.a = a
        self.b = b
    def __eq__(self, o):
        return type(o) is type(self) and (self.a, self.b) == (o.a, o.b)
    def __hash__(self):
        return hash((self.a, self.b))
    def __repr__(self):
        return f"SC(a={self.a!r}, b={self.b!r})"

@dataclasses.dataclass
class Unrelated:
    q: int = 0
    z: str = "z"

class UnrelatedNT(typing.NamedTuple):
    q: int = 0

class StrSub(str):
    pass

class FloatSub(float):
    pass

class DurSub(datetime.timedelta):
    # a user subclass of timedelta
    pass

class DateSub(datetime.date):
    # a user subclass of date (not a datetime)
    pass

class DTsub(datetime.datetime):
    # a user subclass of datetime as TARGET type (the routine has to build the subclass from every kind of input)
    pass

class IntSub(int):
    pass

class IntSub2(IntSub):
    # two levels below the builtin
    pass

UTC = datetime.timezone.utc
def tz(minutes):
    return datetime.timezone(datetime.timedelta(minutes=minutes))

def call1(f, *a, **k):
    return f(*a, **k)
def call2(f, *a, **k):
    return call1(f, *a, **k)
def call3(f, *a, **k):
    return call2(f, *a, **k)
'''

_mod = None


def mkmod(name: str, src: str) -> types.ModuleType:
    m = types.ModuleType(name)
    m.__file__ = f"<tlg:{name}>"
    sys.modules[name] = m
    exec(compile(src, m.__file__, "exec", dont_inherit=True), m.__dict__)
    return m


def dropmod(name: str):
    sys.modules.pop(name, None)


def prelude() -> types.ModuleType:
    global _mod
    if _mod is None:
        _mod = mkmod(PRELUDE_NAME, PRELUDE_SRC)
    return _mod
