"""Annotation-expression universe of C20: deterministic, randomly addressable families of expression strings.

Families (each is a `Family` with `len()` and `[i]`, simplest first):
  full(atoms, d)     every expression of depth <= d of the annotation grammar over `atoms`
  spine(atoms, d)    every expression of depth <= d in which each binary former has exactly one non-atom argument
                     (depth 1 = all of depth 1)
  chains(ops, n)     every parenthesisation (Catalan) of `|`-chains of 2..n operands drawn from `ops`,
                     rendered with minimal and with fully explicit parentheses
  nonannot(k)        NON-annotation expressions: + - @ mixed with | in every association of <= k operands (in a
                     few contexts), calls, attribute-of-subscript, conditionals, comprehensions, unary ops, lambda,
                     displays, comparisons, binder names that shadow builtin generics
No typelib import here.
"""
from __future__ import annotations

import functools
import itertools

ATOMS14 = ["int", "str", "None", "list", "dict", "tuple", "set", "Pattern", "a.b", "typing.Any", "...",
           "'int | str'", "Literal['a|b']", "Literal['x[', 1]",
           # string constants with whitespace runs / a tab inside (the text between the quotes is data, not layout)
           "Literal['a  |  b']", "Literal['t\tb', ' ']", "'int  |  str'"]
# tier sub-alphabets (sized to the time budget; all 14 atoms are always covered to depth 1 by full:A14:1)
ALPHABETS = {
    "A14": ATOMS14,
    "A9": ["int", "None", "list", "dict", "Pattern", "a.b", "...", "'int | str'", "Literal['a|b']"],
    "A8": ["int", "None", "list", "Pattern", "a.b", "...", "'int | str'", "Literal['a|b']"],
    "A6": ["int", "None", "list", "Pattern", "'int | str'", "Literal['a|b']"],
    "S3": ["int", "tuple", "Literal['x[', 1]"],
    "S2": ["list", "Literal['a|b']"],
}

UNARY = [("list", "list[{}]"), ("set", "set[{}]"), ("Optional", "typing.Optional[{}]"), ("xSeq", "x.Seq[{}]"),
         ("Annotated", "Annotated[{}, 'm|n']"),
         # metadata given as a call with KEYWORD arguments (pydantic / msgspec style): the keywords are rewritten like any sub-expression
         ("AnnKw", "Annotated[int, Meta(1, alias={}, n=1)]"),
         # metadata built with a binary operator other than `|`: its operands are rewritten like any sub-expression
         ("AnnOp", "Annotated[int, tag & ({}) & list[str]]"),
         # an attribute OF a subscript (a nested class of a parameterised generic): the subscript below the dot is rewritten too
         ("SubAttr", "Box[{}].Item")]
BINARY = [("bitor", "{} | {}"), ("parbitor", "({}) | ({})"), ("dict", "dict[{}, {}]"), ("tuple", "tuple[{}, {}]"),
          ("Callable", "Callable[[{}], {}]")]
NU, NB = len(UNARY), len(BINARY)


def _binary(f, l, r, r_is_bitor):
    """`X | Y` keeps the tree structure: a right operand that is itself a top-level `|` is parenthesised (the left one
    never needs it: `|` is left-associative).  `(X) | (Y)` parenthesises both operands whatever they are."""
    if f == 0 and r_is_bitor:
        return f"{l} | ({r})"
    return BINARY[f][1].format(l, r)


class Family:
    name = "?"
    annotation = True

    def __len__(self):
        raise NotImplementedError

    def __getitem__(self, i) -> str:
        raise NotImplementedError

    def info(self, i) -> tuple[str, int]:
        """(top former kind, depth) of item i - for coverage tables"""
        return ("?", 0)


class Full(Family):
    """depth<=d terms: T0 = atoms; Td = atoms + unary(T(d-1)) + binary(T(d-1) x T(d-1)). No duplicates."""

    def __init__(self, atoms, d):
        self.atoms, self.d = list(atoms), d
        self.sub = Full(atoms, d - 1) if d > 0 else None
        n = len(self.atoms)
        if d == 0:
            self.n = n
        else:
            m = len(self.sub)
            self.n = n + NU * m + NB * m * m
        self.name = f"full(d<={d},atoms={n})"

    def __len__(self):
        return self.n

    def _split(self, i):
        n = len(self.atoms)
        if i < n:
            return ("atom", i, None, None)
        i -= n
        m = len(self.sub)
        if i < NU * m:
            return ("u", i // m, i % m, None)
        i -= NU * m
        f, p = i % NB, i // NB
        return ("b", f, p // m, p % m)

    def __getitem__(self, i):
        k, f, a, b = self._split(i)
        if k == "atom":
            return self.atoms[f]
        if k == "u":
            return UNARY[f][1].format(self.sub[a])
        return _binary(f, self.sub[a], self.sub[b], self.sub._split(b)[:2] in (("b", 0), ("b", 1)))

    def depth(self, i):
        k, f, a, b = self._split(i)
        if k == "atom":
            return 0
        if k == "u":
            return 1 + self.sub.depth(a)
        return 1 + max(self.sub.depth(a), self.sub.depth(b))

    def info(self, i):
        k, f, a, b = self._split(i)
        if k == "atom":
            return ("atom", 0)
        return ((UNARY if k == "u" else BINARY)[f][0], self.depth(i))


class Spine(Family):
    """exact-depth layers E1 = all depth-1 terms; Ed = unary(E(d-1)) + binary(E(d-1), atom) + binary(atom, E(d-1));
    the family is atoms + E1 + ... + Ed."""

    def __init__(self, atoms, d):
        self.atoms, self.d = list(atoms), d
        n = len(self.atoms)
        self.layers = [n, NU * n + NB * n * n]
        for _ in range(2, d + 1):
            self.layers.append(self.layers[-1] * (NU + 2 * NB * n))
        self.layers = self.layers[: d + 1]
        self.n = sum(self.layers)
        self.name = f"spine(d<={d},atoms={n})"

    def __len__(self):
        return self.n

    def _layer(self, d, i):
        """item i of exact layer d -> (string, top former)"""
        n = len(self.atoms)
        if d == 0:
            return self.atoms[i], "atom"
        if d == 1:
            if i < NU * n:
                return UNARY[i // n][1].format(self.atoms[i % n]), UNARY[i // n][0]
            i -= NU * n
            f, p = i % NB, i // NB
            return _binary(f, self.atoms[p // n], self.atoms[p % n], False), BINARY[f][0]
        m = self.layers[d - 1]
        if i < NU * m:
            return UNARY[i // m][1].format(self._layer(d - 1, i % m)[0]), UNARY[i // m][0]
        i -= NU * m
        side, i = i % 2, i // 2
        f, i = i % NB, i // NB
        at, (inner, itop) = self.atoms[i % n], self._layer(d - 1, i // n)
        l, r = (inner, at) if side == 0 else (at, inner)
        return _binary(f, l, r, side == 1 and itop in ("bitor", "parbitor")), BINARY[f][0]

    def _loc(self, i):
        for d, m in enumerate(self.layers):
            if i < m:
                return d, i
            i -= m
        raise IndexError(i)

    def __getitem__(self, i):
        d, j = self._loc(i)
        return self._layer(d, j)[0]

    def info(self, i):
        d, j = self._loc(i)
        return (self._layer(d, j)[1], d)


@functools.lru_cache(maxsize=None)
def _trees(k):
    """all binary tree shapes with k leaves, as nested tuples of leaf indices (in order)"""

    def build(lo, hi):
        if hi - lo == 1:
            return [lo]
        out = []
        for mid in range(lo + 1, hi):
            for l in build(lo, mid):
                for r in build(mid, hi):
                    out.append((l, r))
        return out

    return build(0, k)


_PREC = {"|": 1, "+": 2, "-": 2, "@": 3}


def _render(tree, leaves, ops, full):
    """tree: nested pairs of leaf indices; ops: iterator-order list of operators for internal nodes (pre-order).
    full=True: parenthesise every compound operand; False: only where Python's precedence/left-assoc needs it."""
    pos = [0]

    def go(t):
        if not isinstance(t, tuple):
            return leaves[t], 99
        op = ops[pos[0]]
        pos[0] += 1
        (ls, lp), (rs, rp) = go(t[0]), go(t[1])
        p = _PREC[op]
        if lp != 99 and (full or lp < p):
            ls = f"({ls})"
        if rp != 99 and (full or rp <= p):
            rs = f"({rs})"
        return f"{ls} {op} {rs}", p

    return go(tree)[0]


class Chains(Family):
    def __init__(self, operands, n, product=True):
        self.items = []
        seen = set()
        for k in range(2, n + 1):
            for tree in _trees(k):
                for leaves in (itertools.product(operands, repeat=k) if product else [tuple(operands[:k])]):
                    for full in (False, True):
                        s = _render(tree, leaves, ["|"] * (k - 1), full)
                        if s not in seen:
                            seen.add(s)
                            self.items.append((s, k))
        self.name = f"chains(n<={n},operands={len(operands)})"

    def __len__(self):
        return len(self.items)

    def __getitem__(self, i):
        return self.items[i][0]

    def info(self, i):
        return ("chain", self.items[i][1])


CONTEXTS = ["{}", "list[{}]", "f({})", "x[{}].y", "({})[k]", "typing.Optional[{}] | z"]


class NonAnnot(Family):
    annotation = False

    def __init__(self, k):
        items, seen = [], set()

        def add(s, kind):
            if s not in seen:
                seen.add(s)
                items.append((s, kind))

        names = ["a", "b", "c", "d"]
        for n in range(2, k + 1):
            for tree in _trees(n):
                for ops in itertools.product(["|", "+", "-", "@"], repeat=n - 1):
                    for full in (False, True):
                        e = _render(tree, names[:n], list(ops), full)
                        for ctx in (CONTEXTS if n <= 3 else CONTEXTS[:1]):
                            add(ctx.format(e), f"mixed{n}")
        for s in ["f(x | y)", "f(x | y, z)", "f(k=x | y)", "f(*a | b)", "f(**a | b)", "f(x)(y | z)", "f(x | y).g", "f(x | y)[z]",
                  "f(x | y) | z", "f(list[int] | None)", "f()[a | b]", "(f | g)(x)", "f(x + y | z)", "f(g(x | y) | z)", "f(x, *y, k=z | w)"]:
            add(s, "call")
        for s in ["a[b].c | d", "a[b | e].c | d", "a[b].c[d | e]", "(a | b)[c]", "(a | b).c", "(a | b)[c | d]", "list[int][a | b]",
                  "(a | b)[c].d | e", "a.b[c | d].e[f | g]", "(list | a)[b]", "(a | b).c[d] | (e | f).g", "a[b][c | d] | e"]:
            add(s, "attrsub")
        for s in ["a | b if c else d", "a if b | c else d", "a if c else b | d", "(a if c else b) | d", "list[a if c else b | d]",
                  "a | (b if c else d) | e", "a if b else c if d | e else f | g"]:
            add(s, "ifexp")
        for s in ["[a | b for a in c]", "[x for x in a | b]", "[x | y for x in a for y in b]", "{x | y for x in a}", "{x: x | y for x in a}",
                  "(x | y for x in a)", "[x for x in a if x | b]", "list[[x | y for x in a]]", "[x | y for x in a] | z",
                  "[x + y | z for x in a]", "[(x | y)[z] for x in a]"]:
            add(s, "comprehension")
        for s in ["-a | b", "~a | b", "not a | b", "+a | b", "-(a | b)", "a | -b", "~(a | b) | c", "not (a | b)", "-a + b | c", "-(a + b | c)"]:
            add(s, "unary")
        for s in ["lambda x: x | a", "lambda: a | b", "(lambda x: x)(a | b)", "lambda x: list[x | a]", "lambda x, y: x + y | a",
                  "lambda x: (lambda y: x | y)", "(lambda x: x | a) | b", "lambda x: x | a if x else b"]:
            add(s, "lambda")
        for s in ["[a | b, c]", "{a | b: c | d}", "{a | b, c}", "(a | b, c)", "tuple[*a | b]", "a[b | c:d]", "a[b | c:d | e, f]",
                  "a | b < c", "a < b | c", "a | b and c", "a and b | c", "f'{a | b}'", "f'{a + b | c}'", "a | b, c", "[a + b | c]",
                  "1 + 2", "a + 1", "a * b + c", "a.b + c", "x[1 + 2]", "a & b", "a << b", "a ** b", "(a, b)", "[a, b][c]"]:
            add(s, "misc")
        for g in ["list", "dict", "set", "tuple", "Pattern"]:
            for s in [f"lambda {g}: {g}", f"lambda {g}: {g}[a]", f"[{g} for {g} in c]", f"[{g} | a for {g} in c]",
                      f"lambda {g}: a | {g}", f"{{{g}: 1 for {g} in c}}", f"lambda a: {g}[a]", f"f({g}=a | b)", f"a.{g} | b", f"a.{g}[b]"]:
                add(s, "binder-shadow")
        self.items = items
        self.name = f"nonannot(k<={k})"

    def __len__(self):
        return len(self.items)

    def __getitem__(self, i):
        return self.items[i][0]

    def info(self, i):
        return (self.items[i][1], 0)


@functools.lru_cache(maxsize=None)
def family(spec: str) -> Family:
    """'full:A14:2' | 'spine:S3:4' | 'chains:3:6' | 'chains:names:6' | 'nonannot:4'"""
    kind, *rest = spec.split(":")
    if kind == "full":
        return Full(ALPHABETS[rest[0]], int(rest[1]))
    if kind == "spine":
        return Spine(ALPHABETS[rest[0]], int(rest[1]))
    if kind == "chains":
        if rest[0] == "names":  # distinct operands a, b, c, ... in order: the pure parenthesisation space
            return Chains(["a", "b", "c", "d", "e", "f", "g"], int(rest[1]), product=False)
        ops = {2: ["int", "None"], 3: ["int", "None", "list[str]"], 4: ["int", "None", "list[str]", "Literal['a|b']"]}[int(rest[0])]
        return Chains(ops, int(rest[1]))
    if kind == "nonannot":
        return NonAnnot(int(rest[0]))
    raise KeyError(spec)
