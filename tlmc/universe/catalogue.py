"""C17 catalogue (DESIGN §7 C17): a fixed, deterministic list of annotation objects / instances.

Every entry is defined by a *source expression* evaluated in the namespace of the synthesised module
`tlg_c17` (no name here contains the substring "typelib"); the source text is the stable label used in
signatures and replay files.  Wrapper entries (NewType / TypeAliasType(value) / TypeAliasType("string"))
are created inside that module so their `__module__` is `tlg_c17`.
"""
from __future__ import annotations

import inspect
import types
import typing

from .prelude import mkmod, prelude

MOD_NAME = "tlg_c17"

MOD_SRC = r'''
import abc, collections, collections.abc, dataclasses, datetime, decimal, enum, fractions, functools
import inspect, ipaddress, numbers, pathlib, re, sqlite3, types, typing, uuid
import collections.abc as cabc
from tlg_prelude import (DC, DCslots, DCkw, DCfrozen, NT, TD, TDnr, PC, SC,
                         EInt, EStr, EMix, EIntEnum, EStrMix)

NoneType = type(None)

# ---- subclasses of builtin / stdlib classes
class StrSub(str): pass
class IntSub(int): pass
class FloatSub(float): pass
class BytesSub(bytes): pass
class ListSub(list): pass
class DictSub(dict): pass
class SetSub(set): pass
class TupleSub(tuple): pass
class DateSub(datetime.date): pass
class DatetimeSub(datetime.datetime): pass
class UUIDSub(uuid.UUID): pass
class DecimalSub(decimal.Decimal): pass
class PathSub(pathlib.PurePosixPath): pass

# ---- subclasses of the structured flavours (where legal)
@dataclasses.dataclass
class DCSub(DC):
    c: float = 0.0

@dataclasses.dataclass(slots=True)
class DCslotsSub(DCslots):
    c: float = 0.0

@dataclasses.dataclass(kw_only=True)
class DCkwSub(DCkw):
    c: float = 0.0

@dataclasses.dataclass(frozen=True)
class DCfrozenSub(DCfrozen):
    c: float = 0.0

class NTSub(NT):
    pass

class TDSub(TD):
    c: float

class TDpartial(typing.TypedDict, total=False):
    a: int
    b: str

class PCSub(PC):
    c: float = 0.0

class SCSub(SC):
    __slots__ = ("c",)
    c: float

@dataclasses.dataclass
class DCkwonly:
    a: int
    _: dataclasses.KW_ONLY
    b: str = "x"

NTplain = collections.namedtuple("NTplain", ["a", "b"])

# ---- user classes whose *names* collide with typing special forms
@dataclasses.dataclass
class Union:
    a: int = 0

class Optional:
    a: int
    def __init__(self, a: int = 0):
        self.a = a

@dataclasses.dataclass
class Literal:
    a: int = 0

# ---- a user class with __call__ (still a plain annotated class)
class PCcall:
    a: int
    def __init__(self, a: int = 0):
        self.a = a
    def __call__(self):
        return self.a

# ---- custom ABC implementations / generics / misc
class MyMapping(collections.abc.Mapping):
    def __init__(self, d=()):
        self._d = dict(d)
    def __getitem__(self, k):
        return self._d[k]
    def __iter__(self):
        return iter(self._d)
    def __len__(self):
        return len(self._d)

class MySeq(collections.abc.Sequence):
    def __init__(self, d=()):
        self._d = list(d)
    def __getitem__(self, i):
        return self._d[i]
    def __len__(self):
        return len(self._d)

QAliasList = typing.TypeAliasType("QAliasList", list[int])
QAliasInt = typing.TypeAliasType("QAliasInt", int)
QAliasDict = typing.TypeAliasType("QAliasDict", dict[str, int])
QNewInt = typing.NewType("QNewInt", int)
QNewDC = typing.NewType("QNewDC", DC)
# alias chains of depth >= 2 (alias of alias, alias of a NewType of an alias)
QAlias2 = typing.TypeAliasType("QAlias2", QAliasList)
QAlias3 = typing.TypeAliasType("QAlias3", QAlias2)
QNewOverAlias = typing.NewType("QNewOverAlias", QAliasInt)
QAliasOverNew = typing.TypeAliasType("QAliasOverNew", QNewOverAlias)
QAliasDict2 = typing.TypeAliasType("QAliasDict2", QAliasDict)
T = typing.TypeVar("T")
TBound = typing.TypeVar("TBound", bound=int)
TCons = typing.TypeVar("TCons", str, int)

class Gen(typing.Generic[T]):
    x: T
    def __init__(self, x: T = None):
        self.x = x

class FromDict:
    a: int
    def __init__(self, a: int = 0):
        self.a = a
    @classmethod
    def from_dict(cls, d: dict):
        return cls(**d)

class MyABC(abc.ABC):
    @abc.abstractmethod
    def method(self): ...

class MyABCempty(abc.ABC):
    pass

class Desc:
    def __get__(self, instance, owner=None):
        return 1

class DescSet:
    def __set__(self, instance, value):
        pass

class DescName:
    def __set_name__(self, owner, name):
        pass

class Props:
    attr = 1
    sattr = "s"
    desc = Desc()
    def __init__(self):
        self.inst = 2
    @property
    def prop(self) -> int:
        return 1
    @functools.cached_property
    def cached(self) -> str:
        return "c"
    def meth(self, x: int) -> int:
        return x
    @classmethod
    def cmeth(cls):
        return cls
    @staticmethod
    def smeth():
        return 0

class Unhashable:
    __hash__ = None

class HasFields:
    _fields = ("a",)
    a: int = 0

def func(a: int, b: str = "x") -> bool:
    return True

def func_noann(a, b=1):
    return a

def outer():
    def closure(): ...
    return closure

class HasLocal:
    class Inner:
        a: int

lam = lambda x: x  # noqa: E731

def mk_newtype(name, t):
    return typing.NewType(name, t)

def mk_alias(name, v):
    return typing.TypeAliasType(name, v)
'''

# ------------------------------------------------------------------------------------------------
# Source tables.  (src, tags, twin-group | None)
# Tags given here are *declared*; structural tags ("class", "subscripted", ...) are computed.
# ------------------------------------------------------------------------------------------------

T_ = "typ"  # usable as an annotation (hashable; goes to the cached predicates)

BUILTINS = ["int", "bool", "float", "str", "bytes", "bytearray", "memoryview", "list", "set", "frozenset", "tuple",
            "dict", "NoneType", "complex", "object", "type", "range"]

STDLIB = [
    "datetime.datetime", "datetime.date", "datetime.time", "datetime.timedelta", "datetime.timezone",
    "decimal.Decimal", "fractions.Fraction", "uuid.UUID",
    "pathlib.Path", "pathlib.PurePath", "pathlib.PurePosixPath", "pathlib.PosixPath", "pathlib.PureWindowsPath",
    "re.Pattern", "re.Match",
    "ipaddress.IPv4Address", "ipaddress.IPv6Address", "ipaddress.IPv4Network", "ipaddress.IPv6Interface",
    "collections.defaultdict", "collections.OrderedDict", "collections.deque", "collections.Counter",
    "collections.ChainMap", "types.MappingProxyType", "sqlite3.Row",
    "enum.Enum", "enum.IntEnum", "enum.Flag",
    "numbers.Number", "numbers.Integral", "numbers.Real",
]

ENUMS = ["EInt", "EStr", "EMix", "EIntEnum", "EStrMix"]

FLAVOURS = ["DC", "DCslots", "DCkw", "DCfrozen", "NT", "TD", "TDnr", "PC", "SC"]
FLAVOUR_SUBS = ["DCSub", "DCslotsSub", "DCkwSub", "DCfrozenSub", "NTSub", "TDSub", "PCSub", "SCSub"]
USER_MISC = ["TDpartial", "DCkwonly", "NTplain", "Union", "Optional", "Literal", "PCcall", "MyMapping", "MySeq", "Gen",
             "FromDict", "MyABC", "MyABCempty", "Desc", "DescSet", "DescName", "Props", "Unhashable", "HasFields", "HasLocal.Inner"]
BUILTIN_SUBS = ["StrSub", "IntSub", "FloatSub", "BytesSub", "ListSub", "DictSub", "SetSub", "TupleSub", "DateSub",
                "DatetimeSub", "UUIDSub", "DecimalSub", "PathSub"]

# every collections.abc ABC with its typing alias (None where there is none) and a parameter list
ABCS = [
    # (collections.abc name, typing name, params)
    ("Sequence", "Sequence", "int"), ("MutableSequence", "MutableSequence", "int"),
    ("Collection", "Collection", "int"), ("Iterable", "Iterable", "int"), ("Iterator", "Iterator", "int"),
    ("Reversible", "Reversible", "int"), ("Container", "Container", "int"),
    ("Generator", "Generator", "int, None, None"),
    ("Set", "AbstractSet", "int"), ("MutableSet", "MutableSet", "int"),
    ("Mapping", "Mapping", "str, int"), ("MutableMapping", "MutableMapping", "str, int"),
    ("KeysView", "KeysView", "int"), ("ValuesView", "ValuesView", "int"), ("ItemsView", "ItemsView", "str, int"),
    ("MappingView", "MappingView", None),
    ("Hashable", "Hashable", None), ("Sized", "Sized", None),
    ("Awaitable", "Awaitable", "int"), ("AsyncIterable", "AsyncIterable", "int"),
]

# concrete generic classes: (builtin/stdlib spelling, typing spelling, params)
CONCRETE = [
    ("list", "typing.List", "int"), ("set", "typing.Set", "int"), ("frozenset", "typing.FrozenSet", "int"),
    ("dict", "typing.Dict", "str, int"), ("tuple", "typing.Tuple", "int, ..."),
    ("tuple", "typing.Tuple", "int, str"), ("tuple", "typing.Tuple", "int"),
    ("collections.deque", "typing.Deque", "int"), ("collections.defaultdict", "typing.DefaultDict", "str, int"),
    ("collections.OrderedDict", "typing.OrderedDict", "str, int"), ("collections.Counter", "typing.Counter", "str"),
    ("collections.ChainMap", "typing.ChainMap", "str, int"),
    ("re.Pattern", "typing.Pattern", "str"), ("re.Match", "typing.Match", "str"), ("type", "typing.Type", "int"),
]

EXTRA_SUBSCRIPTED = [
    "list[str]", "list[DC]", "list[list[int]]", "dict[str, list[int]]", "dict[str, None]", "typing.Dict[str, None]",
    "dict[str, T]", "typing.Dict[str, T]", "typing.Dict[str, TBound]", "typing.Dict[str, TCons]", "list[T]",
    "tuple[int, str, float]", "tuple[DC, ...]", "Gen[int]", "re.Pattern[bytes]", "list[typing.Optional[int]]",
    "types.MappingProxyType[str, int]",
]

# unions: twin groups (same group label => must agree on the spelling-independent predicates)
UNIONS = [
    ("typing.Union[int, str]", "u:int|str"), ("int | str", "u:int|str"),
    ("typing.Optional[int]", "u:int|None"), ("int | None", "u:int|None"), ("typing.Union[int, None]", "u:int|None"),
    ("None | int", "u:int|None"), ("typing.Union[None, int]", "u:int|None"),
    ("typing.Union[int, None, str]", "u:int|None|str"), ("int | None | str", "u:int|None|str"),
    ("typing.Optional[typing.Union[int, str]]", "u:int|None|str"),
    ("typing.Optional[PC]", "u:PC|None"), ("PC | None", "u:PC|None"), ("None | PC", "u:PC|None"),
    ("typing.Union[PC, None]", "u:PC|None"),
    ("typing.Optional[list[int]]", "u:list[int]|None"), ("list[int] | None", "u:list[int]|None"),
    ("typing.Union[DC, NT]", "u:DC|NT"), ("DC | NT", "u:DC|NT"),
    ("typing.Union[int, str, float]", "u:int|str|float"), ("int | str | float", "u:int|str|float"),
]

# "reordered twins": distinct objects that compare (and hash) EQUAL but list their members in another order
# (Union / Literal equality ignores member order; generic aliases compare their arguments with ==).  A memo cache
# keyed by == conflates them.  (X source, Y source, extra tags, pair kind used in signatures)
REORDERED = [
    # pair kinds are coarse on purpose: one root cause (an == keyed cache) must not give one cell per spelling
    ("typing.Union[int, str]", "typing.Union[str, int]", ["union"], "union"),
    ("int | str", "str | int", ["union"], "union"),
    ("typing.Union[None, int]", "typing.Union[int, None]", ["union"], "union"),
    ("None | int", "int | None", ["union"], "union"),
    ("typing.Optional[typing.Union[int, str]]", "typing.Optional[typing.Union[str, int]]", ["union"], "union"),
    ("typing.Literal[1, 2]", "typing.Literal[2, 1]", ["literal"], "literal"),
    ("list[typing.Union[int, str]]", "list[typing.Union[str, int]]", [], "generic[union]"),
    ("typing.List[typing.Union[int, str]]", "typing.List[typing.Union[str, int]]", [], "generic[union]"),
    ("dict[str, int | None]", "dict[str, None | int]", [], "generic[union]"),
    ("tuple[typing.Union[int, str], int]", "tuple[typing.Union[str, int], int]", [], "generic[union]"),
    ("typing.Final[typing.Union[int, str]]", "typing.Final[typing.Union[str, int]]", ["final"], "final-classvar[union]"),
    ("typing.ClassVar[int | str]", "typing.ClassVar[str | int]", ["classvar"], "final-classvar[union]"),
]
# the pairs that are additionally judged through a NewType / alias wrapper (both tiers)
REORDERED_WRAPPED = ["typing.Union[int, str]", "int | str", "typing.Literal[1, 2]", "list[typing.Union[int, str]]"]

SPECIAL = [
    ("typing.Literal[1, 'a']", ["literal"]), ("typing.Literal[1, None]", ["literal"]), ("typing.Literal[1]", ["literal"]),
    ("typing.Literal['str', None]", ["literal"]), ("typing.Literal[EInt.A]", ["literal"]), ("typing.Literal", ["literal"]),
    ("typing.Final[int]", ["final"]), ("typing.Final[str]", ["final"]), ("typing.Final[list[int]]", ["final"]),
    ("typing.Final", ["final"]),
    ("typing.ClassVar[int]", ["classvar"]), ("typing.ClassVar[str]", ["classvar"]),
    ("typing.ClassVar[list[int]]", ["classvar"]), ("typing.ClassVar", ["classvar"]),
    ("typing.Final[typing.Literal[1]]", ["final"]),
    ("typing.ClassVar[typing.Literal[1]]", ["classvar"]), ("typing.ClassVar[typing.Literal[1, 2]]", ["classvar"]),
    ("typing.Final[typing.Literal[1, None]]", ["final"]),
    # a qualifier around an alias / NewType (two different peeling steps in one annotation)
    ("typing.ClassVar[QAliasList]", ["classvar"]), ("typing.Final[QAliasList]", ["final"]),
    ("typing.ClassVar[QAliasInt]", ["classvar"]), ("typing.ClassVar[QAliasDict]", ["classvar"]),
    ("typing.ClassVar[QNewInt]", ["classvar"]), ("typing.Final[QNewInt]", ["final"]), ("typing.ClassVar[QNewDC]", ["classvar"]),
    ("tuple[()]", ["empty-subscript"]), ("typing.Tuple[()]", ["empty-subscript"]),
    ("typing.ClassVar[tuple[int, ...]]", ["classvar"]), ("typing.ClassVar[tuple[int, str]]", ["classvar"]), ("typing.Final[tuple[int, ...]]", ["final"]),
    ("typing.ClassVar[typing.Optional[int]]", ["classvar"]), ("typing.Final[typing.Optional[int]]", ["final"]),
    ("T", ["typevar"]), ("TBound", ["typevar"]), ("TCons", ["typevar"]),
    ("typing.Callable", ["callable-form"]), ("cabc.Callable", ["callable-form"]),
    ("typing.Callable[[int], str]", ["callable-form"]), ("cabc.Callable[[int], str]", ["callable-form"]),
    ("typing.Callable[..., int]", ["callable-form"]),
    ("typing.Any", ["any"]), ("typing.Union", ["bare-union"]), ("typing.Optional", ["bare-union"]),
    ("typing.ForwardRef('int')", ["forwardref"]), ("typing.ForwardRef('DC')", ["forwardref"]),
    ("typing.ForwardRef('foo.Bar')", ["forwardref"]), ("typing.ForwardRef('Literal[1]')", ["forwardref"]),
    ("typing.Annotated[int, 'x']", ["annotated"]),
    ("None", ["none"]), ("...", ["ellipsis"]), ("type(...)", ["ellipsis"]), ("inspect.Parameter.empty", ["empty"]),
    ("typing.Generic", ["generic-base"]), ("typing.Protocol", ["generic-base"]),
    ("typing.NamedTuple", ["function-form"]), ("typing.TypedDict", ["function-form"]),
]

FUNCTIONS = ["func", "func_noann", "lam", "outer()", "len", "Props.meth", "Props.smeth", "dict.fromkeys"]

INSTANCES = [
    "1", "True", "1.5", "'s'", "b'b'", "bytearray(b'x')", "None", "(1, 2)", "(1, [2])", "[1]", "{1}", "frozenset({1})",
    "{'a': 1}", "1 + 2j", "range(3)", "datetime.datetime(2020, 1, 2)", "datetime.date(2020, 1, 2)", "datetime.time(1, 2)",
    "datetime.timedelta(1)", "decimal.Decimal('1.5')", "fractions.Fraction(1, 2)", "uuid.UUID(int=1)",
    "pathlib.PurePosixPath('a')", "pathlib.Path('a')", "ipaddress.IPv4Address('1.2.3.4')", "ipaddress.IPv6Address('::1')",
    "ipaddress.IPv4Network('1.2.3.0/24')", "re.compile('a')", "collections.defaultdict(int)", "collections.deque([1])",
    "collections.OrderedDict(a=1)", "types.MappingProxyType({'a': 1})", "EInt.A", "EIntEnum.A", "EStrMix.A",
    "DC(1)", "DCslots(1)", "DCfrozen(1)", "NT(1)", "PC(1)", "SC(1)", "TD(a=1, b='b')", "StrSub('s')", "ListSub([1])",
    "DateSub(2020, 1, 2)", "UUIDSub(int=1)", "Unhashable()", "Props()", "Desc()", "DescSet()", "DescName()", "MyMapping()",
    # class attributes / descriptors
    "Props.prop", "Props.cached", "Props.meth", "Props().meth", "Props.cmeth", "Props.smeth", "Props.attr", "Props.sattr",
    "Props.__dict__['desc']", "Props.__dict__['cmeth']", "Props.__dict__['smeth']", "SC.a", "DCslots.a", "NT.a",
    "func", "lam", "len", "object()", "functools.partial(func, 1)",
]

CLASSES_AS_OBJECTS = ["int", "str", "list", "dict", "set", "tuple", "object", "type", "DC", "DCfrozen", "PC", "NT", "TD",
                      "Unhashable", "Desc", "DescSet", "DescName", "Props", "EInt", "MyABC"]

# representative subset that gets NewType / alias / string-alias wrappers in the quick tier
WRAP_SUBSET = [
    "int", "str", "float", "bytes", "bool", "list", "dict", "tuple", "NoneType",
    "datetime.datetime", "datetime.date", "datetime.time", "datetime.timedelta", "uuid.UUID", "decimal.Decimal",
    "fractions.Fraction", "pathlib.Path", "re.Pattern", "collections.deque",
    "EInt", "EIntEnum", "DC", "DCfrozen", "NT", "TD", "PC", "StrSub", "ListSub", "DateSub",
    "list[int]", "typing.List[int]", "dict[str, int]", "typing.Dict[str, int]", "tuple[int, str]", "tuple[int, ...]",
    "cabc.Sequence[int]", "typing.Mapping[str, int]", "cabc.Collection[int]", "typing.Dict", "typing.Mapping",
    "re.Pattern[str]",
    "typing.Optional[int]", "int | None", "typing.Union[int, str]", "int | str", "typing.Literal[1, 'a']",
    "typing.Literal[1, None]", "typing.Final[str]", "typing.ClassVar[str]", "typing.ClassVar[typing.Literal[1]]", "typing.Final[typing.Literal[1]]",
    # Y sides (and missing X sides) of the reordered twins judged through wrappers
    "typing.Union[str, int]", "str | int", "typing.Literal[1, 2]", "typing.Literal[2, 1]",
    "list[typing.Union[int, str]]", "list[typing.Union[str, int]]",
]
NO_WRAP = {"Union", "Optional", "Literal"}  # the name-collision classes are judged unwrapped only
CHAIN_SUBSET = ["int", "str", "dict", "datetime.datetime", "EInt", "DC", "NT", "TD", "list[int]", "typing.Dict[str, int]",
                "cabc.Sequence[int]", "tuple[int, str]", "re.Pattern[str]", "typing.Optional[int]", "int | str",
                "typing.Literal[1, None]", "typing.Final[str]", "typing.ClassVar[str]"]

_BUILTIN_TABLE = (int, bool, float, str, bytes, bytearray, list, set, frozenset, tuple, dict, type(None))

SPECIAL_TAGS = {"union", "literal", "final", "classvar", "typevar", "callable-form", "any", "bare-union", "forwardref",
                "annotated", "none", "ellipsis", "empty", "generic-base", "function-form"}


class Entry:
    __slots__ = ("label", "obj", "tags", "twins", "kind", "src", "chain", "base", "hashable")

    def __init__(self, label, obj, tags, kind, src=None, chain=(), base=None):
        self.label = label
        self.obj = obj
        self.tags = set(tags)
        self.twins: list[str] = []  # labels of the other spellings
        self.kind = kind  # abstraction used in violation signatures
        self.src = src or label
        self.chain = tuple(chain)  # wrapper kinds, outermost first
        self.base = base  # label of the wrapped base entry
        try:
            hash(obj)
            self.hashable = True
        except Exception:  # noqa: BLE001
            self.hashable = False

    def __repr__(self):
        return f"<Entry {self.label} {sorted(self.tags)}>"


_mod = None


def module():
    global _mod
    if _mod is None:
        prelude()
        _mod = mkmod(MOD_NAME, MOD_SRC)
    return _mod


def _typing_cleanup():
    # typing caches `X[...]` keyed by ==: `typing.List[Union[str, int]]` evaluated after `typing.List[Union[int, str]]`
    # would come back with the FIRST member order.  Every catalogue object is created right after a cleanup.
    for f in getattr(typing, "_cleanups", ()):
        f()


def _ev(src):
    _typing_cleanup()
    return eval(src, module().__dict__)  # noqa: S307 - fixed source table


def ordered_form(x, _d=0):
    """Structural form of an annotation that keeps the member order (Union / Literal equality does not)."""
    if _d > 12:
        return repr(x)
    if hasattr(x, "__supertype__"):
        return ("newtype", ordered_form(x.__supertype__, _d + 1))
    if isinstance(x, typing.TypeAliasType):
        return ("alias", ordered_form(x.__value__, _d + 1))
    a = typing.get_args(x)
    if a:
        return (repr(typing.get_origin(x)), tuple(ordered_form(y, _d + 1) for y in a))
    if isinstance(x, (list, tuple)):
        return tuple(ordered_form(y, _d + 1) for y in x)
    return repr(x)


def _structural_tags(obj, tags):
    if inspect.isclass(obj):
        tags.add("class")
    if typing.get_origin(obj) is not None and "[" in repr(obj):
        tags.add("subscripted")
    if tags & SPECIAL_TAGS:
        tags.add("special-form")


def _kind_of_base(src, obj, tags):
    if "class-as-object" in tags:
        return "class-object:" + ("instances-unhashable" if getattr(obj, "__hash__", 1) is None else "instances-hashable")
    if "instance" in tags:
        return "instance:" + src
    if "union" in tags:
        a = typing.get_args(obj)
        return ("union-pipe" if isinstance(obj, types.UnionType) else "union-typing") + ("-none-first" if a and a[0] is type(None) else "")
    if "subscripted" in tags and not (tags & SPECIAL_TAGS):
        return "subscripted:" + _family(typing.get_origin(obj), src.split("[", 1)[0])
    if "typing-alias" in tags and "bare" in tags:
        return "typing-alias:" + _family(typing.get_origin(obj), src)
    return src


def _family(o, default):
    """Origin class of a generic, abstracted: the builtin table and the stdlib collections are one family each."""
    import collections

    if o in _BUILTIN_TABLE:
        return "builtin"
    if o in (collections.deque, collections.defaultdict, collections.OrderedDict, collections.Counter, collections.ChainMap,
             types.MappingProxyType):
        return "stdlib-collection"
    return getattr(o, "__qualname__", None) or default


def _base_entries():
    out: list[Entry] = []
    groups: dict[str, list[str]] = {}

    def add(src, tags=(), group=None, label=None):
        obj = _ev(src)
        tg = set(tags)
        _structural_tags(obj, tg)
        e = Entry(label or src, obj, tg, _kind_of_base(src, obj, tg), src=src)
        out.append(e)
        if group:
            groups.setdefault(group, []).append(e.label)
        return e

    for s in BUILTINS:
        add(s, [T_, "builtin"])
    for s in STDLIB:
        add(s, [T_, "stdlib"])
    for s in ENUMS:
        add(s, [T_, "enum", "user"])
    for s in FLAVOURS:
        add(s, [T_, "flavour", "user"])
    for s in FLAVOUR_SUBS:
        add(s, [T_, "flavour", "flavour-sub", "user"])
    for s in USER_MISC:
        add(s, [T_, "user"])
    for s in BUILTIN_SUBS:
        add(s, [T_, "builtin-sub", "user"])
    for cname, tname, params in ABCS:
        add(f"cabc.{cname}", [T_, "abc", "bare"], group=f"abc:{cname}")
        add(f"typing.{tname}", [T_, "abc", "bare", "typing-alias"], group=f"abc:{cname}")
        if params:
            add(f"cabc.{cname}[{params}]", [T_, "abc"], group=f"abc:{cname}[{params}]")
            add(f"typing.{tname}[{params}]", [T_, "abc", "typing-alias"], group=f"abc:{cname}[{params}]")
    seen = set()
    for bname, tname, params in CONCRETE:
        if tname not in seen:
            seen.add(tname)
            add(tname, [T_, "concrete", "bare", "typing-alias"], group=f"c:{bname}")
            groups[f"c:{bname}"].insert(0, bname)  # the plain class (already added above) is the twin
        add(f"{bname}[{params}]", [T_, "concrete"], group=f"c:{bname}[{params}]")
        add(f"{tname}[{params}]", [T_, "concrete", "typing-alias"], group=f"c:{bname}[{params}]")
    for s in EXTRA_SUBSCRIPTED:
        add(s, [T_])
    groups.setdefault("x:dict[str,None]", []).extend(["dict[str, None]", "typing.Dict[str, None]"])
    groups.setdefault("x:dict[str,T]", []).extend(["dict[str, T]", "typing.Dict[str, T]"])
    for s, g in UNIONS:
        add(s, [T_, "union"], group=g)
    for s, tg in SPECIAL:
        add(s, [T_, *tg])
    have = {e.label for e in out}
    for sx, sy, tg, _k in REORDERED:
        for s in (sx, sy):
            if s not in have:
                have.add(s)
                add(s, [T_, "reordered-twin", *tg])
    for s in FUNCTIONS:
        add(s, [T_, "function"], label=f"fn:{s}")
    for s in INSTANCES:
        add(s, ["instance"], label=f"inst:{s}")
    for s in CLASSES_AS_OBJECTS:
        add(s, ["instance", "class-as-object"], label=f"obj:{s}")

    by = {e.label: e for e in out}
    assert len(by) == len(out), "duplicate catalogue label"
    for g, labels in groups.items():
        labels = list(dict.fromkeys(labels))
        for lab in labels:
            by[lab].twins = [x for x in labels if x != lab]
    return out


def _resolved_name(obj):
    from ..refmodel import predoracle

    r = predoracle.resolve(obj, mapped=False)
    return getattr(r, "__qualname__", None) or repr(r)


_WRAPPERS = ("newtype", "alias", "stralias")


def _wrap(kind, name, inner_obj, inner_src):
    m = module()
    if kind == "newtype":
        return m.mk_newtype(name, inner_obj)
    if kind == "alias":
        return m.mk_alias(name, inner_obj)
    if kind == "stralias":
        return m.mk_alias(name, inner_src)
    raise ValueError(kind)


_LBL = {"newtype": "NewType", "alias": "Alias", "stralias": "StrAlias"}


def _wrapper_entries(base: list[Entry], tier: str):
    by = {e.label: e for e in base}
    out: list[Entry] = []
    counter = [0]

    def mk(chain, b: Entry):
        """chain: wrapper kinds innermost first."""
        obj, src = b.obj, b.src
        label = b.label
        for k in chain:
            counter[0] += 1
            name = f"W{counter[0]}"
            if k == "stralias" and label != b.label:
                # a string alias can only name something reachable by name: bind the inner wrapper in the module
                setattr(module(), f"_in_{name}", obj)
                src = f"_in_{name}"
            obj = _wrap(k, name, obj, src)
            label = f"{_LBL[k]}({label})"
        tags = {T_, "wrapper", chain[-1]} | {t for t in b.tags if t in SPECIAL_TAGS or t in ("special-form", "subscripted-base")}
        if "subscripted" in b.tags:
            tags.add("wraps-subscripted")
        if "stralias" in chain:
            tags.add("has-stralias")
        tags.add("wraps:" + "+".join(reversed(chain)))
        outer = chain[-1]  # chains are abstracted to their outermost wrapper kind
        if b.tags & SPECIAL_TAGS:
            rn = b.src
        elif "subscripted" in b.tags:
            rn = "subscripted"
        elif "typing-alias" in b.tags:
            rn = "typing-alias"
        else:
            rn = "class"
        e = Entry(label, obj, tags, f"{outer}:{rn}", src=label, chain=tuple(reversed(chain)), base=b.label)
        out.append(e)

    for s in WRAP_SUBSET:
        for k in _WRAPPERS:
            mk((k,), by[s])
    # both tiers: chains of depth 2-3 over a few bases (alias of alias, alias of NewType, NewType of alias, alias of NewType of alias)
    for s in ("int", "list[int]", "dict[str, int]", "DC", "typing.Mapping[str, int]"):
        for chain in (("alias", "alias"), ("newtype", "alias"), ("alias", "newtype"), ("alias", "newtype", "alias"), ("alias", "alias", "alias")):
            mk(chain, by[s])
    if tier == "thorough":
        done = set(WRAP_SUBSET)
        for b in base:
            if T_ in b.tags and b.hashable and b.label not in done and "function" not in b.tags and b.label not in NO_WRAP:
                for k in ("newtype", "alias"):
                    mk((k,), b)
        for s in CHAIN_SUBSET:
            for k1 in ("newtype", "alias"):
                for k2 in _WRAPPERS:
                    if s in ("int", "DC") and (k1, k2) in (("alias", "alias"), ("newtype", "alias"), ("alias", "newtype")):
                        continue  # built above for both tiers
                    mk((k1, k2), by[s])
            mk(("stralias", "newtype"), by[s])
            mk(("stralias", "alias"), by[s])
    return out


_CACHE: dict[str, list[Entry]] = {}


def catalogue(tier: str = "quick") -> list[Entry]:
    """The full ordered catalogue of the tier (deterministic; built once per process)."""
    if tier not in _CACHE:
        if "quick" not in _CACHE or tier == "quick":
            base = _base_entries()
            _CACHE["_base"] = base
            _CACHE["quick"] = base + _wrapper_entries(base, "quick")
        if tier != "quick":
            base = _CACHE["_base"]
            # quick wrappers are a prefix of the thorough ones (same construction order)
            _CACHE[tier] = base + _wrapper_entries(base, tier)
    return _CACHE[tier]


def reordered_pairs(tier: str = "quick") -> list[tuple[str, str, str]]:
    """(label X, label Y, pair kind): distinct catalogue objects that are == but list their members in another
    order; verified here (the two objects must really differ in order and, unwrapped, compare equal)."""
    by = by_label(tier)
    pairs = [(sx, sy, k) for sx, sy, _t, k in REORDERED]
    for s in REORDERED_WRAPPED:
        sy = next(y for x, y, _t, _k in REORDERED if x == s)
        k = next(k for x, _y, _t, k in REORDERED if x == s)
        for w in ("NewType", "Alias"):
            pairs.append((f"{w}({s})", f"{w}({sy})", f"{w.lower()}:{k}"))
    for lx, ly, _k in pairs:
        x, y = by[lx].obj, by[ly].obj
        assert x is not y and ordered_form(x) != ordered_form(y), f"reordered twins do not differ in order: {lx} / {ly}"
        if "wrapper" not in by[lx].tags:
            assert x == y and hash(x) == hash(y), f"reordered twins are not equal: {lx} / {ly}"
    return pairs


def by_label(tier: str = "quick") -> dict[str, Entry]:
    return {e.label: e for e in catalogue(tier)}
