"""Structured-class program templates P0..P5 and spine terms (DESIGN §3.2, §3.4). P6 (cycles) lives in cycles.py."""
from __future__ import annotations

import itertools

from . import terms as T


def spine3(names):
    """Depth-3 spine terms: every binary constructor has exactly one non-leaf argument."""
    ls = T.leaves(names)
    d1 = T.compose1(ls)
    d2 = []
    for a in d1:
        for sp in T.Seq.CANON:
            if T.Seq.ok(sp, a):
                d2.append(T.Seq(sp, a))
        if a.kind not in ("optional", "union"):
            d2.append(T.Optional(a))
        for b in ls:
            d2.append(T.FTuple("tuple", [a, b]))
            d2.append(T.FTuple("tuple", [b, a]))
            if T.Map.ok(b, a):
                d2.append(T.Map("dict", b, a))
            if a.kind not in ("union", "optional") and a.src != b.src:
                d2.append(T.Union("typing.Union", [a, b]))
                d2.append(T.Union("typing.Union", [b, a]))
    out = []
    for a in d2:
        for sp in T.Seq.CANON:
            if T.Seq.ok(sp, a):
                out.append(T.Seq(sp, a))
        if a.kind not in ("optional", "union"):
            out.append(T.Optional(a))
        for b in ls:
            out.append(T.FTuple("tuple", [a, b]))
            out.append(T.FTuple("tuple", [b, a]))
            if T.Map.ok(b, a):
                out.append(T.Map("dict", b, a))
            if a.kind not in ("union", "optional") and a.src != b.src:
                out.append(T.Union("typing.Union", [a, b]))
    return out


_DEFAULTS = {
    "int": "0", "str": '"x"', "Decimal": 'decimal.Decimal("1")', "datetime": "datetime.datetime(1970, 1, 1, tzinfo=UTC)",
    "timedelta": "datetime.timedelta(0)", "EStr": "EStr.A", "Lit1s1": "1", "DC": None, "NT": "NT(1)", "TD": None,
}


def _default_for(t):
    if t.kind == "leaf" or t.kind == "literal" or t.kind == "struct":
        return _DEFAULTS.get(getattr(t, "name", ""), None)
    if t.kind == "optional":
        return "None"
    if t.kind == "vtuple":
        return "()"
    if t.kind == "ftuple":
        return None
    return None  # mutable defaults are not allowed in dataclasses


def template_terms(name):  # noqa: C901
    """P0 .. P5 as lists of ClsTerm-rooted terms."""
    K = T.leaves(T.K)
    if name.startswith("P0"):
        # single class: flavour x (f1: T1, f2: T2 = default); P0q = T1,T2 over a reduced member set
        flavours = T.FLAVOURS
        if name == "P0q":
            members = T.leaves(T.K4) + [t for t in T.compose1(T.leaves(T.K4)) if t.kind != "union"][:40]
            pairs = [(a, T.LEAVES["str"]) for a in members] + [(T.LEAVES["int"], b) for b in members]
        else:
            members = T.U1(T.K)
            pairs = [(a, T.LEAVES["str"]) for a in members] + [(T.LEAVES["int"], b) for b in members]
        out = []
        n = 0
        for fl in flavours:
            for a, b in pairs:
                if fl in ("NT",) and False:
                    continue
                n += 1
                out.append(T.ClsTerm(fl, f"C{fl}", [("f1", a, None), ("f2", b, _default_for(b))]))
        return out
    if name.startswith("P1"):
        # field-name collision: Parent(x: TA, child: Child), Child(x: TB)
        flavours = ["DC", "NT", "TD"] if name == "P1q" else T.FLAVOURS
        out = []
        for fp, fc in itertools.product(flavours, repeat=2):
            for a, b in itertools.permutations(K, 2):
                child = T.ClsTerm(fc, "Child", [("x", b, None)])
                out.append(T.ClsTerm(fp, "Parent", [("x", a, None), ("child", child, None)]))
        return out
    if name.startswith("P3"):
        # diamond sharing: Root(l: S, r: S, ls: list[S], os: Optional[S], ds: dict[str, S]) all subsets >= 2
        flavours = ["DC", "NT", "TD"] if name == "P3q" else T.FLAVOURS
        out = []
        for fl in flavours:
            for x in K if name != "P3q" else T.leaves(T.K4):
                S = T.ClsTerm(fl, "S", [("x", x, None)])
                forms = [("l", S), ("r", S), ("ls", T.Seq("list", S)), ("os", T.Optional(S)), ("ds", T.Map("dict", T.LEAVES["str"], S))]
                for k in range(2, len(forms) + 1):
                    for sub in itertools.combinations(forms, k):
                        out.append(T.ClsTerm("DC", "Root", [(n, t, None) for n, t in sub]))
        return out
    if name.startswith("P4"):
        # chains C0(x: C1) ... C(n-1)(x: leaf), n <= 4, mixed flavours
        flavours = ["DC", "NT", "TD", "PC"] if name == "P4q" else T.FLAVOURS
        out = []
        for n in (2, 3) if name == "P4q" else (2, 3, 4):
            for fls in itertools.product(flavours, repeat=n) if n < 4 else itertools.product(["DC", "NT", "TD"], repeat=n):
                for lf in T.leaves(T.K4):
                    cur = lf
                    for i in reversed(range(n)):
                        cur = T.ClsTerm(fls[i], f"C{i}", [("x", cur, None), ("n", T.LEAVES["int"], "0")] if fls[i] != "TD" else [("x", cur, None)])
                    out.append(cur)
        return out
    if name.startswith("P6"):
        # one subscripted generic G reached at several depths of one class (shared, not cyclic)
        out = []
        xs = K if name == "P6" else T.leaves(["int", "datetime", "DC", "EStr"])
        for x in xs:
            for G in (T.Seq("list", x), T.Map("dict", T.LEAVES["str"], x), T.Seq("tuple...", x)):
                forms = [("g", G), ("og", T.Optional(G)), ("dg", T.Map("dict", T.LEAVES["str"], G)), ("lg", T.Seq("list", G))]
                for k in range(2, len(forms) + 1):
                    for sub in itertools.combinations(forms, k):
                        out.append(T.ClsTerm("DC", "Shared", [(n, t, None) for n, t in sub]))
                        # the deeper occurrence first
                        out.append(T.ClsTerm("DC", "Shared", [(n, t, None) for n, t in reversed(sub)]))
        return out
    if name.startswith("P7"):
        # one CLASS S used at two depths of one class (shared, not cyclic): directly and inside a middle class / a container of
        # the middle class, in both declaration orders (deeper use first / shallow use first)
        out = []
        flavours = ["DC", "NT", "TD"] if name == "P7q" else T.FLAVOURS
        xs = T.leaves(T.K4) if name == "P7q" else K
        for fl in flavours:
            for x in xs:
                S = T.ClsTerm(fl, "S", [("x", x, None)])
                for fm in ("DC", "TD") if name == "P7q" else ("DC", "NT", "TD", "PC"):
                    Mid = T.ClsTerm(fm, "Mid", [("s", S, None)])
                    for mid in (Mid, T.Seq("list", Mid), T.Optional(Mid), T.Map("dict", T.LEAVES["str"], Mid)):
                        for shallow in (S, T.Optional(S), T.Seq("list", S)):
                            fs = [("mid", mid, None), ("s", shallow, None)]
                            out.append(T.ClsTerm("DC", "Root", fs))
                            out.append(T.ClsTerm("DC", "Root", list(reversed(fs))))
        return out
    raise KeyError(name)
