"""The input pool X (DESIGN §3.7): fixed pool X0, text carriers, wire renderings Xw(T), corruptions Corr_k."""
from __future__ import annotations

import collections
import datetime
import decimal
import json
import pathlib

from . import terms as T

# memoryview-slice: a view of PART of a larger buffer (the bytes it gives are the payload, the buffer behind it is not)
CARRIERS = ("str", "bytes", "bytearray", "memoryview-ro", "memoryview-rw", "memoryview-slice")


def carry(text: str, carrier: str):
    if carrier == "str":
        return text
    b = text.encode("utf-8", "surrogatepass")
    if carrier == "bytes":
        return b
    if carrier == "bytearray":
        return bytearray(b)
    if carrier == "memoryview-ro":
        return memoryview(b)
    if carrier == "memoryview-rw":
        return memoryview(bytearray(b))
    if carrier == "memoryview-slice":
        return memoryview(b"\x02[" + b + b"]\x03")[2:-2]
    raise KeyError(carrier)


def _gen(items):
    yield from items


def x0(ns):
    """~130 fixed objects, each as (label, factory) - factories give FRESH objects (one-shot iterators!)."""
    out = []

    def add(label, f):
        out.append((label, f))

    for v in (None, True, False, 0, 1, -1, 7, 2**63 - 1, -(2**63), 2**64, 0.0, 1.5, -2.5, 1e22, float("nan"), float("inf")):
        add(f"prim:{v!r}", (lambda v: lambda: v)(v))
    for s in T.STRS:
        add(f"str:{s!r}", (lambda s: lambda: s)(s))
    for s in ("1", "null", "[1]", '{"a": 1}', "abc", "", "2020-01-01", "a"):
        for c in CARRIERS[1:]:
            add(f"{c}:{s!r}", (lambda s, c: lambda: carry(s, c))(s, c))
    conts = [
        ("list0", lambda: []), ("list1", lambda: [1]), ("list2", lambda: [1, "a"]), ("list-strs", lambda: ["1", "2"]),
        ("tuple0", lambda: ()), ("tuple1", lambda: (1,)), ("tuple2", lambda: (1, "a")),
        ("set0", lambda: set()), ("set1", lambda: {1}), ("set2", lambda: {1, 2}),
        ("dict0", lambda: {}), ("dict1", lambda: {"a": 1}), ("dict2", lambda: {"a": 1, "b": "x"}), ("dict-int", lambda: {1: 2}),
        ("dict-ab", lambda: {"a": "7", "b": 5}), ("dict-extra", lambda: {"a": 1, "b": "x", "zz": 3}),
        ("deque0", lambda: collections.deque()), ("deque2", lambda: collections.deque([1, 2])),
        ("pairs", lambda: [("a", 1), ("b", "x")]), ("pairs-list", lambda: [["a", 1], ["b", "x"]]),
        ("gen-pairs", lambda: _gen([("a", 1), ("b", "x")])), ("gen-nonpairs", lambda: _gen([1, 2, 3])), ("gen-empty", lambda: _gen([])),
        ("iter-list", lambda: iter([1, 2])), ("nested", lambda: [[1], [2, 3]]), ("list-of-dicts", lambda: [{"a": 1, "b": "x"}]),
        ("dict-of-lists", lambda: {"a": [1]}), ("list-none", lambda: [None]),
    ]
    for label, f in conts:
        add("cont:" + label, f)
    add("obj:object", lambda: object())
    add("obj:Unrelated", lambda: ns["Unrelated"]())
    add("obj:UnrelatedNT", lambda: ns["UnrelatedNT"]())
    add("obj:EOther", lambda: ns["EOther"].Z)
    add("obj:DC", lambda: ns["DC"](a=1, b="x"))
    add("obj:NT", lambda: ns["NT"](a=1, b="x"))
    add("obj:datetime", lambda: datetime.datetime(2020, 1, 1, tzinfo=datetime.timezone.utc))
    add("obj:array", lambda: __import__("array").array("i", [1, 2, 3]))  # exports a buffer, is not text
    add("obj:datetime-subclass", lambda: ns["DTsub"](2020, 1, 2, 3, 4, 5, tzinfo=datetime.timezone.utc))
    add("obj:date-subclass", lambda: ns["DateSub"](2020, 1, 2))
    add("obj:date", lambda: datetime.date(2020, 1, 1))
    add("obj:time", lambda: datetime.time(1, 2, 3, tzinfo=datetime.timezone.utc))
    add("obj:timedelta", lambda: datetime.timedelta(seconds=5))
    add("obj:Decimal", lambda: decimal.Decimal("1.5"))
    add("obj:Path", lambda: pathlib.PurePosixPath("a/b"))
    add("obj:type", lambda: int)
    return out


def input_class(label: str) -> str:
    """Coarse class of an X0 label for signatures (DESIGN Appendix B)."""
    k = label.split(":", 1)[0]
    if k == "prim":
        return "none" if label == "prim:None" else "scalar"
    if k in ("str",) or k in CARRIERS:
        return "text"
    if k == "cont":
        n = label[5:]
        if n.startswith("dict"):
            return "mapping"
        if n.startswith(("gen", "iter")):
            return "iterator"
        if n.startswith("pairs"):
            return "pairs"
        return "sequence"
    if k == "obj":
        return "foreign-instance"
    return k


# ---------------------------------------------------------------- wire renderings


def jsonable(w):
    try:
        json.dumps(w)
        return True
    except (TypeError, ValueError):
        return False


def renderings(w):
    """The wire value itself, its JSON text and its Python-literal text (when they exist)."""
    out = [("wire", w)]
    if jsonable(w):
        out.append(("json", json.dumps(w)))
    if isinstance(w, (list, dict, tuple, int, float, str, bool, type(None))):
        try:
            r = repr(w)
            import ast

            ast.literal_eval(r)
            out.append(("repr", r))
        except (ValueError, SyntaxError, MemoryError, RecursionError):
            pass
    return out


# ---------------------------------------------------------------- corruptions

RETYPES = (None, 1, "x", [], {})


def _positions(w, path=()):
    yield path, w
    if isinstance(w, dict):
        for k, v in w.items():
            yield from _positions(v, path + (("k", k),))
    elif isinstance(w, list):
        for i, v in enumerate(w):
            yield from _positions(v, path + (("i", i),))


def _replace(w, path, f):
    if not path:
        return f(w)
    (kind, key), rest = path[0], path[1:]
    if kind == "k":
        d = dict(w)
        d[key] = _replace(w[key], rest, f)
        return d
    lst = list(w)
    lst[key] = _replace(w[key], rest, f)
    return lst


class _Drop:
    pass


def corruptions(w):
    """All single applications of the corruption operators at every position of a JSON-like wire value.
    Yields (operator label, corrupted value)."""
    for path, node in _positions(w):
        if isinstance(node, dict):
            for k in node:
                yield "drop-key", _replace(w, path, lambda d, k=k: {a: b for a, b in d.items() if a != k})
                yield "rename-key", _replace(w, path, lambda d, k=k: {(a if a != k else f"{a}_x"): b for a, b in d.items()})
            yield "add-key", _replace(w, path, lambda d: {**d, "zz_extra": 1})
        if isinstance(node, list):
            for i in range(len(node)):
                yield "remove-element", _replace(w, path, lambda lst, i=i: lst[:i] + lst[i + 1 :])
            yield "append-wrong", _replace(w, path, lambda lst: lst + [{"zz": object}] if False else lst + [["zz"]])
            yield "append-none", _replace(w, path, lambda lst: lst + [None])
            if len(node) >= 2:
                yield "swap", _replace(w, path, lambda lst: [lst[1], lst[0]] + lst[2:])
            if len(node) == 1:
                yield "unwrap-singleton", _replace(w, path, lambda lst: lst[0])
        for r in RETYPES:
            if type(node) is not type(r) or node != r:
                yield f"retype:{type(r).__name__}", _replace(w, path, lambda _n, r=r: r if not isinstance(r, (list, dict)) else type(r)())
        yield "wrap-in-list", _replace(w, path, lambda n: [n])
        if path and jsonable(node) and isinstance(node, (list, dict)):
            yield "subtree-as-json-text", _replace(w, path, lambda n: json.dumps(n))


def corr(w, k=1, cap=4000):
    """Corr_k: everything reachable with exactly 1..k operator applications (deduplicated by repr)."""
    seen = {repr(w)}
    level = [("", w)]
    out = []
    for _ in range(k):
        nxt = []
        for lab, cur in level:
            for op, c in corruptions(cur):
                r = repr(c)
                if r in seen:
                    continue
                seen.add(r)
                item = ((lab + "+" + op) if lab else op, c)
                nxt.append(item)
                out.append(item)
                if len(out) >= cap:
                    return out, True
        level = nxt
    return out, False
