"""C10 - bound callables get every argument converted per its own parameter (DESIGN §6 C10).

bind(f)(*a, **k) and wrap(f)(*a, **k) must invoke f with each argument replaced by
unmarshal(annotation of the parameter that argument binds to, argument); calls Python rejects raise TypeError;
wrap preserves the metadata; a second (cache-warm) call agrees with the first. Oracle: refmodel.bindmodel."""
from __future__ import annotations

import decimal
import fractions
import inspect

import typelib
import typelib.binding  # noqa: F401  (must be imported before cold.find_caches() runs: _get_binding is a cache)

from ..kernel import cold
from ..kernel.guard import call as gcall
from ..kernel.runner import h64
from ..refmodel import bindmodel as B
from ..refmodel.same import same
from ..universe.prelude import dropmod, mkmod

ID = "C10"
CHUNKS_PER_WORKER = 6

NMAX = {"quick": 5, "thorough": 6}
MAX_MISTAKES = {"quick": 1, "thorough": 1}
RAW = B.RAW
_MISSING = object()
META_ATTRS = ("__name__", "__qualname__", "__doc__", "__module__")
OTHER_FLAVOURS = tuple(f for f in B.FLAVOURS if f != "function")


def flavour_masks(n: int, tier: str) -> tuple:
    """Annotation masks explored for the flavours other than 'function'."""
    full = (1 << n) - 1
    ms = [full]
    if tier == "thorough":
        ms += [0, full & 0b010101, full & 0b101010]
    out = []
    for m in ms:
        if m not in out:
            out.append(m)
    return tuple(out)


def units(tier):
    shapes = B.kind_shapes(NMAX[tier])
    out = []
    for si, sh in enumerate(shapes):
        kinds = B.kinds_of(sh)
        for di in range(len(B.default_masks(kinds))):
            out.append((si, di))
    out += [("special", name) for name in SPECIALS]
    return out


def meta(tier):
    n = NMAX[tier]
    return {
        "rule": "program = (kind shape, default pattern, annotation mask, callable flavour); case = (program, call) with "
        "call = (number of positional arguments, tuple of keyword names), every argument being b'7'; each case is "
        "executed three times on the real code and judged: bind(f)(call) cold, bind(f)(call) again with the binding "
        "cache warm, wrap(f)(call); plus one wrap-metadata judgement per program. non-trivial = f was invoked; "
        "distinct by (program, api, call, outcome)",
        "bounds": {
            "max_parameters": n,
            "kind_shapes": len(B.kind_shapes(n)),
            "kind_order": "PO* PK* VA? KO* VK? - every legal order, all 32 rows of _BINDING_CLS_MATRIX",
            "annotation_masks": "all 2^n for flavour 'function'; " + (
                "all-annotated only" if tier == "quick" else "all / none / even / odd") + " for the other flavours",
            "annotations": "i-th parameter: i-th of " + ", ".join(B.TYPES_SRC) + " (6th is complex instead of DESIGN's bytes: "
            "unmarshal(bytes, b'7') == b'7' cannot be told from 'untouched')",
            "default_patterns": "none / last positional + last kw-only / all / every PK + first kw-only (deduplicated)",
            "flavours": "function on every program; method, classmethod, staticmethod (accessed through the class), "
            "callable instance, class (bind(K1); wrap(K2) patches K2.__init__, K1/K2 created afresh per program) on "
            "every kind shape x every default pattern x the reduced mask set above",
            "calls": "npos in 0..#(PO+PK)+2, keyword names = every subset of {all parameter names, x0, x1}: ALL calls "
            "Python accepts (each PK by position or keyword, defaults omitted or not in every combination, 0-2 extra "
            "*args members, 0-2 extra **kw members, **kw members named like a PO/variadic parameter), and every "
            f"rejected call with <= {MAX_MISTAKES[tier]} individual mistake (missing required, surplus positional, "
            "unknown keyword without **kw, duplicate binding, PO/variadic name as keyword without **kw); rejected calls are "
            + ("judged on the annotation masks none and all only" if tier == "quick" else "judged on every annotation mask"),
        },
        "assumptions": [
            "cold state per program (all typelib caches cleared, fresh module, fresh classes); the conversion table "
            "unmarshal(T_i, b'7') is computed once per process through the public typelib.unmarshal (history independence "
            "of unmarshal is C12's obligation)",
            "acceptance/landing = real call of an annotation-free twin function AND inspect.Signature.bind; the calls on "
            "which these two disagree (a CPython Signature.bind defect for `def f(p=d, /, **kw)` called f(p=..)) are not "
            "judged (counted in coverage 'calls:undecided(not judged)')",
            "metadata attributes are compared only when the original callable has them (a callable instance has no __name__)",
            "keyword order inside **kw is not judged (names and values are)",
        ],
        "exhaustive": True,
    }


# ------------------------------------------------------------------------------------------------ program
class Prog:
    def __init__(self, kinds, mask, dmask, flavour):
        self.kinds, self.mask, self.dmask, self.flavour = kinds, mask, dmask, flavour
        self.key = (",".join(kinds), mask, dmask, flavour)
        self.name = "tlg_c10_%s_%d_%d" % ("".join(k[0] + k[1] for k in kinds).lower() or "none", mask, dmask)
        self.src = B.module_src(kinds, mask, dmask, flavours=flavour != "function")
        # mkmod() compiles inside a `from __future__ import annotations` module and compile() inherits that flag, which
        # would turn every annotation into a string; C10 wants real classes (string references are C11's subject):
        # register an empty module through mkmod, then exec the program with dont_inherit=True.
        self.mod = mkmod(self.name, "")
        exec(compile(self.src, self.mod.__file__, "exec", dont_inherit=True), self.mod.__dict__)  # noqa: S102
        m = self.mod
        fl = flavour
        if fl == "function":
            self.bind_target = self.wrap_target = m.f
        elif fl == "method":
            self.bind_target = self.wrap_target = m.C().m
        elif fl == "classmethod":
            self.bind_target = self.wrap_target = m.C.cm
        elif fl == "staticmethod":
            self.bind_target = self.wrap_target = m.C.sm
        elif fl == "instance":
            self.bind_target = self.wrap_target = m.C()
        elif fl == "class":
            self.bind_target, self.wrap_target = m.K1, m.K2
        else:
            raise ValueError(fl)
        # what Python says about the callable (before the library touches it)
        self.sig = inspect.signature(self.bind_target)
        self.wsig = inspect.signature(self.wrap_target)
        assert B.kinds_of_signature(self.sig) == kinds == B.kinds_of_signature(self.wsig), (self.sig, kinds)
        for i, p in enumerate(self.sig.parameters.values()):
            assert (p.default is not inspect.Parameter.empty) == bool(dmask >> i & 1)
            assert (p.annotation is not inspect.Parameter.empty) == bool(mask >> i & 1)
        # the object whose signature the binder that runs under wrap() sees
        self.wrap_view = m.K2.__init__ if fl == "class" else self.wrap_target
        # metadata before the library touches anything
        self.meta_before = {("obj", a): getattr(self.wrap_target, a) for a in META_ATTRS if hasattr(self.wrap_target, a)}
        if fl == "class":
            self.orig_init = m.K2.__init__
            self.meta_before.update({("init", a): getattr(self.orig_init, a) for a in META_ATTRS})
        # metadata a decorator may have attached to the callable itself (functools.wraps carries __dict__ over)
        try:
            self.wrap_target.tlmc_tag = "tagged"
            self.meta_before[("obj", "tlmc_tag")] = "tagged"
        except (AttributeError, TypeError):
            pass

    def describe(self):
        s = B.sig_src(self.kinds, self.mask, self.dmask)
        return s if self.flavour == "function" else f"{s} as {self.flavour}"

    def close(self):
        dropmod(self.name)


def _extract(prog, api, val):
    """(capture tuple or None, return-clause mode or None)"""
    log = prog.mod.LOG
    if len(log) != 1:
        return None, f"callable-invoked-{min(len(log), 2)}-times"
    if val is not log[0]:
        return None, "result-is-not-the-callables-result"
    if prog.flavour == "class":
        cls = prog.bind_target if api == "bind" else prog.wrap_target
        if type(val) is not cls:
            return None, "result-is-not-an-instance"
        return val.got, None
    return val, None


_SCALARS = frozenset({bytes, int, str, bool, complex, type(None), float, decimal.Decimal, fractions.Fraction})


def fsame(a, b):
    """refmodel.same.same restricted to the value domain of this check, without the generic dispatch
    (same relation: equal classes at every level, equal values); anything else is delegated to same()."""
    ta = type(a)
    if ta is not type(b):
        return False
    if ta in _SCALARS:
        return a == b or (a != a and b != b)
    if ta is tuple:
        if len(a) != len(b):
            return False
        for x, y in zip(a, b):
            if not fsame(x, y):
                return False
        return True
    if ta is dict and all(type(k) is str for k in a) and all(type(k) is str for k in b):
        if len(a) != len(b):
            return False
        for k, v in a.items():
            if k not in b or not fsame(v, b[k]):
                return False
        return True
    return same(a, b)


def _which_routine(r, exp, kinds):
    for j, x in enumerate(exp):
        if fsame(r, x):
            return kinds[j] if j < len(kinds) else "no-param"
    return None


def _value_class(r, e, kwname, exp, kinds):
    if kwname is not None and type(r) is str and r == kwname:
        return "replaced-by-name"
    if fsame(r, RAW):
        return "unconverted"
    k = _which_routine(r, exp, kinds)
    if k is not None:
        return ("unannotated-but-converted-as:" if fsame(e, RAW) else "converted-as:") + k
    return "corrupted"


def diagnose(prog, c, got, expd, exp):
    """Abstract modes (slot, what happened, call-shape class) of the differences between what f received and what
    it should have received."""
    kinds = prog.kinds
    modes = set()
    if not (isinstance(got, tuple) and len(got) == len(expd) and got[0] == "R"):
        return [("capture", "shape-changed", "")]
    for i, kd in enumerate(kinds):
        r, e = got[i + 1], expd[i + 1]
        if fsame(r, e):
            continue
        land = c.land[i]
        if kd == "VA":
            if not isinstance(r, tuple) or len(r) != len(e):
                modes.add(("varargs", "count-changed", "extra-args"))
                continue
            for x, y in zip(r, e):
                if not fsame(x, y):
                    modes.add(("varargs-member", _value_class(x, y, None, exp, kinds), "extra-args"))
        elif kd == "VK":
            if not isinstance(r, dict) or set(r) != set(e):
                modes.add(("kwargs", "names-changed", "extra-kwargs"))
                continue
            for k in e:
                if not fsame(r[k], e[k]):
                    shp = "extra-kwargs-shadowing-name" if k.startswith("p") else "extra-kwargs"
                    modes.add(("kwargs-member", _value_class(r[k], e[k], k, exp, kinds), shp))
        elif land is None:
            modes.add(("param" + kd, "default-not-preserved", ""))
        else:
            vc = _value_class(r, e, f"p{i}" if land == "K" else None, exp, kinds)
            shp = ("pk-by-position" if land == "P" else "pk-by-keyword") if kd == "PK" else ""
            modes.add(("param" + kd, vc, shp))
    return sorted(modes) or [("capture", "differs", "")]


def render_mode(m):
    slot, vc, shp = m
    if vc == "replaced-by-name":
        txt = "kw-value-replaced-by-name:" + {"kwargs-member": "VK-member"}.get(slot, slot[5:])
    else:
        txt = f"{slot}-{vc}"
    return txt + ("/" + shp if shp else "")


def normalise(modes, ref_modes):
    """Name the fault after what the *fully annotated* twin program shows in the same slot of the same call (there the
    routine that ran is visible: in a partially annotated program a wrongly chosen routine may be a no-op, which looks like
    'unconverted'; or the twin may raise because `self` was converted). Modes without a counterpart in the twin keep their
    own name. Nothing is dropped: every violating case is still reported, under the twin's name for the fault."""
    if not ref_modes:
        return modes
    out = []
    raises = [r for r in ref_modes if r[0] == "call"]
    for m in modes:
        cands = [r for r in ref_modes if r[0] == m[0] and r[2] == m[2]] or raises
        for x in cands or [m]:
            if x not in out:
                out.append(x)
    return out


def _short(x, n=160):
    s = x if isinstance(x, str) else repr(x)
    return s if len(s) <= n else s[: n - 3] + "..."


def judge(prog, api, c, out, expd, exp):
    """-> (clause or None, list of modes (tuples for 'convert', str otherwise), outcome text, capture, f invoked?)"""
    if c.accepted:
        if not out.ok:
            return "convert", [("call", f"raises:{out.excname} on accepted call", "")], "raises:" + out.excname, None, False
        got, rmode = _extract(prog, api, out.val)
        if rmode:
            return "return", [rmode], "ret:" + rmode, None, True
        if fsame(got, expd):
            return None, [], repr(got), got, True
        return "convert", diagnose(prog, c, got, expd, exp), repr(got), got, True
    rs = "+".join(c.reasons)
    if out.ok:
        return "reject", [f"accepted a call Python rejects ({rs})"], "returned", None, bool(prog.mod.LOG)
    if not isinstance(out.exc, TypeError):
        return "reject", [f"raises:{out.excname} instead of TypeError ({rs})"], "raises:" + out.excname, None, False
    return None, [], "TypeError", None, False


def _row(obj):
    """Truth row as the binder sees the callable."""
    return B.row_bits(B.kinds_of_signature(inspect.signature(obj)))


def _report(res, sig, mk_what, mk_case):
    """res.violation, but the witness text / case are only built while they are still kept (<= 3 per signature per unit)."""
    cnt = res.__dict__.setdefault("_c10_counts", {})
    n = cnt.get(sig, 0)
    cnt[sig] = n + 1
    if n < 3:
        res.violation(sig, mk_what(), mk_case())
    else:
        res.hit("viol:" + sig)


def rejected_judged(tier, n, mask) -> bool:
    """Rejected calls are judged on every annotation mask (thorough) / on the masks none and all (quick)."""
    return tier != "quick" or mask in (0, (1 << n) - 1)


def run_program(kinds, mask, dmask, flavour, tier, res, only=None, ref=None):
    """Explore one program. only: None (every call) | "meta" (no calls) | (npos, kws) exactly one call.
    ref: convert-modes of the fully annotated twin program {(api, npos, kws): modes}. Returns this program's own."""
    exp = B.conversions()
    calls, undecided = B.calls_for(kinds, dmask, MAX_MISTAKES[tier])
    if not rejected_judged(tier, len(kinds), mask):
        calls = [c for c in calls if c.accepted]
    cold.clear_all()
    prog = Prog(kinds, mask, dmask, flavour)
    own: dict = {}
    try:
        res.programs += 1
        res.hit("flavour:" + flavour)
        res.hit("calls:undecided(not judged)", undecided)
        desc = prog.describe()

        def mk_case(call="meta", c=None):
            d = {"kinds": list(kinds), "mask": mask, "dmask": dmask, "flavour": flavour, "sig": desc, "call": call,
                 "module": prog.src}
            if c is not None:
                d["call_src"] = "f" + c.render()
            return d

        LOG = prog.mod.LOG
        pkey = "|".join((",".join(kinds), str(mask), str(dmask), flavour))
        # ---- build (cold)
        row_b = _row(prog.bind_target)
        row_w = _row(prog.wrap_view)
        ob = gcall(typelib.binding.bind, prog.bind_target)
        if not ob.ok:
            res.evals += 1
            _report(res, f"C10/convert/row{row_b}:-/bind-raises:{ob.excname}", lambda: f"bind({desc}) raises {ob.exc!r}", mk_case)
            return own
        b1 = ob.val
        binder_b = type(b1.binding).__name__
        if flavour == "class":
            ov = gcall(typelib.binding.bind, prog.wrap_view)
            binder_w = type(ov.val.binding).__name__ if ov.ok else "-"
        else:
            binder_w = binder_b
        ow = gcall(typelib.binding.wrap, prog.wrap_target)
        for row, binder in {(row_b, binder_b), (row_w, binder_w)}:
            res.hit("row:" + row)
            res.hit("binder:" + binder)
            res.hit(f"rowbinder:{row}:{binder}")
        cell = {"bind": f"row{row_b}:{binder_b}", "wrap": f"row{row_w}:{binder_w}"}
        apis = ("bind", "wrap") if cell["bind"] != cell["wrap"] else ("bind",)
        # ---- wrap-meta
        res.evals += 1
        if not ow.ok:
            _report(res, f"C10/wrap-meta/{cell['wrap']}/wrap-raises:{ow.excname}", lambda: f"wrap({desc}) raises {ow.exc!r}", mk_case)
            w = None
        else:
            w = ow.val
            bad = []
            t = prog.wrap_target
            if flavour == "class" and w is not t:
                bad.append("class-not-returned")
            else:
                for (what, a), before in prog.meta_before.items():
                    o = w if what == "obj" else w.__init__
                    if getattr(o, a, _MISSING) != before:
                        bad.append(("init-" if what == "init" else "") + f"attr:{a}")
                if flavour == "class":
                    if getattr(w.__init__, "__wrapped__", None) is not prog.orig_init:
                        bad.append("init-wrapped")
                elif getattr(w, "__wrapped__", None) is not t:
                    bad.append("wrapped")
            os_ = gcall(inspect.signature, w)
            if not os_.ok or os_.val != prog.wsig:
                bad.append("signature")
            for m in bad:
                _report(res, f"C10/wrap-meta/{cell['wrap']}/{m}", lambda m=m: f"wrap({desc}) does not preserve {m}", mk_case)
            res.outcomes.add(h64(pkey, "wrap-meta", ",".join(bad)))
        if only == "meta":
            return own
        nsample = 0
        bind = typelib.binding.bind
        bt = prog.bind_target
        for c in calls:
            if only is not None and (c.npos, c.kws) != only:
                continue
            a = (RAW,) * c.npos
            k = dict.fromkeys(c.kws, RAW)
            if c.accepted:
                res.hit("calls:accepted")
                for cl in c.classes:
                    res.hit("shape:" + cl)
                expd = B.expected_capture(prog.sig, c, exp)
            else:
                res.hit("calls:rejected")
                res.hit("reject:" + "+".join(c.reasons))
                expd = None
            found = {}
            # -- bind, first call
            del LOG[:]
            o1 = gcall(b1, *a, **k)
            cl1, m1, txt1, cap1, inv1 = judge(prog, "bind", c, o1, expd, exp)
            found["bind"] = (cl1, m1, txt1)
            # -- bind again (binding cache warm), same call: must agree with the first
            del LOG[:]
            o2 = gcall(bind(bt), *a, **k)
            if o2.ok != o1.ok:
                agree = False
            elif not o1.ok:
                agree = type(o1.exc) is type(o2.exc)
            else:
                cap2, r2 = _extract(prog, "bind", o2.val)
                agree = (r2 is None and cap1 is not None and fsame(cap1, cap2)) if cl1 != "return" else r2 is not None
            if not agree:
                _report(res, f"C10/warm/{cell['bind']}/second-call-differs",
                        lambda: f"{desc}: bind(f){c.render()} gives {_short(txt1)} first and {o2!r} with the binding cache warm",
                        lambda: mk_case([c.npos, list(c.kws)], c))
            # -- wrap
            txt3 = "-"
            inv3 = False
            if w is not None:
                del LOG[:]
                o3 = gcall(w, *a, **k)
                cl3, m3, txt3, _, inv3 = judge(prog, "wrap", c, o3, expd, exp)
                found["wrap"] = (cl3, m3, txt3)
                res.evals += 3
            else:
                res.evals += 2
            h = h64(pkey, c.npos, ",".join(c.kws), txt1, txt3)
            res.outcomes.add(h)
            if inv1 or inv3:
                res.nontrivial.add(h)
            # -- report
            seen = set()
            for api in ("bind", "wrap"):
                if api not in found:
                    continue
                clause, modes, txt = found[api]
                if clause is None:
                    continue
                if clause == "convert":
                    own[(api, c.npos, c.kws)] = modes
                    if ref is not None:
                        modes = normalise(modes, ref.get((api, c.npos, c.kws)))
                    modes = [render_mode(m) for m in modes]
                for mode in modes:
                    sig = f"C10/{clause}/{cell[api]}/{mode}"
                    if sig in seen:
                        continue  # bind and wrap go through the same binder and show the same fault: one report
                    seen.add(sig)
                    _report(res, sig,
                            lambda: f"{desc}: {api}(f){c.render()} -> {_short(txt)};"
                            + (f" expected {_short(expd)}" if c.accepted else " Python raises TypeError") + f" [{mode}]",
                            lambda: mk_case([c.npos, list(c.kws)], c))
            if nsample < 1 and len(res.samples) < 3 and c.accepted and c.npos + len(c.kws) >= 2:
                nsample += 1
                res.samples.append({"sig": desc, "call": "f" + c.render(), "bind": _short(txt1, 120), "wrap": _short(txt3, 120),
                                    "binder": binder_b})
        return own
    finally:
        prog.close()


# ------------------------------------------------------------------------------------------------ special programs
# (1) textually identical signatures in two modules, annotations kept as strings (`from __future__ import annotations`): the
#     text `Thing` names a different class in each module, every parameter is converted by the rules of ITS module's class;
#     both binding orders, from a cold state, direct / method / callable-instance flavours.
# (2) callables whose FIRST parameter is an annotated *args (a bound method then keeps the whole signature:
#     inspect.signature(obj.m) == (*args: int, **kw: float)).

_TWIN_SRC = """from __future__ import annotations
import dataclasses

@dataclasses.dataclass
class Thing:
    x: {T}

def build(p: Thing, n: int = 0, *rest: Thing, **named: Thing):
    return ("build", p, n, rest, named)

def kwo(*, p: Thing, q: "Thing" = None):
    return ("kwo", p, q)

class Host:
    def meth(self, p: Thing, /, n: int = 0, *rest: Thing, **named: Thing):
        return ("meth", p, n, rest, named)
    def __call__(self, p: Thing, *rest: Thing):
        return ("call", p, rest)

# bound where the names are bound (decorator-style use): a string annotation means what it means in THIS module
from typelib import binding as _binding
HOST = Host()
BOUND = dict()
for _api in ("bind", "wrap"):
    for _fname, _target in (("build", build), ("kwo", kwo), ("meth", HOST.meth), ("call", HOST)):
        try:
            BOUND[(_api, _fname)] = (True, getattr(_binding, _api)(_target))
        except Exception as _e:
            BOUND[(_api, _fname)] = (False, _e)
"""
_TWIN_CALLS = [
    ("build", (({"x": "1"}, "3"), {})),
    ("build", (({"x": "1"}, "3", {"x": "2"}), {"k": {"x": "4"}})),
    ("build", ((), {"p": {"x": "1"}, "z": {"x": "5"}})),
    ("kwo", ((), {"p": {"x": "1"}, "q": {"x": "2"}})),
    ("meth", (({"x": "1"}, "3", {"x": "2"}), {"k": {"x": "4"}})),
    ("call", (({"x": "1"}, {"x": "2"}), {})),
]


def _twin_expected(mod, T, fname, a, k):
    conv = int if T == "int" else str
    th = lambda w: mod.Thing(x=conv(w["x"]))  # noqa: E731
    if fname in ("build", "meth"):
        b = inspect.signature(mod.build).bind(*a, **k)
        p = th(b.arguments["p"])
        n = int(b.arguments.get("n", 0))
        rest = tuple(th(w) for w in b.arguments.get("rest", ()))
        named = {kk: th(w) for kk, w in b.arguments.get("named", {}).items()}
        return (fname, p, n, rest, named)
    if fname == "kwo":
        return ("kwo", th(k["p"]), th(k["q"]) if "q" in k else None)
    return ("call", th(a[0]), tuple(th(w) for w in a[1:]))


def _reraise(e):
    raise e


def special_twin_modules(res):
    names = ("tlg_c10_twin_a", "tlg_c10_twin_b")
    Ts = ("int", "str")
    for order in ((0, 1), (1, 0)):
        for api in ("bind", "wrap"):
            cold.clear_all()
            try:
                res.programs += 1
                # the modules bind their own callables while they are loaded, in this order: the second is the one at risk
                mods = [None, None]
                for i in order:
                    mods[i] = mkmod(names[i], _TWIN_SRC.format(T=Ts[i]))
                for i in order:
                    for fname, (a, k) in _TWIN_CALLS:
                        res.evals += 1
                        res.hit(f"special:twin-modules:{api}:{fname}")
                        okb, b = mods[i].BOUND[(api, fname)]
                        exp = _twin_expected(mods[i], Ts[i], fname, a, k)
                        out = gcall(b, *a, **k) if okb else gcall(_reraise, b)
                        key = h64("twin", api, order, i, fname, repr(a), repr(k), out.ok, repr(out.val) if out.ok else out.excname)
                        res.outcomes.add(key)
                        if out.ok:
                            res.nontrivial.add(key)
                        if not (out.ok and same(out.val, exp)):
                            pos = "first" if order[0] == i else "second"
                            got = repr(out.val) if out.ok else f"raises {out.excname}: {str(out.exc)[:80]}"
                            res.violation(
                                f"C10/special/twin-modules-string-annotations/{fname}/{pos}-bound/" + ("wrong-conversion" if out.ok else "raises:" + out.excname),
                                f"two modules define `Thing` (x: int / x: str) and textually identical callables under `from __future__ import annotations`; "
                                f"{api}({mods[i].__name__}.{fname}) bound {pos}, called with {a!r} {k!r}: got {got}, expected {exp!r}",
                                {"special": "twin-modules"},
                            )
            finally:
                for n_ in names:
                    dropmod(n_)


_LEAD_SRC = """
class Rec:
    def meth(*args: int, **kw: float):
        return ("meth", args[1:], kw)
    @classmethod
    def cmeth(*args: int, **kw: float):
        return ("cmeth", args[1:], kw)
    @staticmethod
    def smeth(*args: int, **kw: float):
        return ("smeth", args, kw)
    def __call__(*args: int, **kw: float):
        return ("call", args[1:], kw)
    def only(*args: int):
        return ("only", args[1:])

def func(*args: int, **kw: float):
    return ("func", args, kw)
"""


def special_leading_varargs(res):
    cold.clear_all()
    m = mkmod("tlg_c10_lead", _LEAD_SRC)
    try:
        r = m.Rec()
        targets = [("meth", r.meth), ("cmeth", m.Rec.cmeth), ("cmeth-via-instance", r.cmeth), ("smeth", m.Rec.smeth), ("call", r), ("only", r.only), ("func", m.func)]
        calls = [(("1",), {}), (("1", "2"), {"z": "3"}), ((), {"z": "3"}), ((), {})]
        for api in ("bind", "wrap"):
            for name, target in targets:
                res.programs += 1
                cold.clear_all()
                b = gcall(getattr(typelib.binding, api), target)
                for a, k in calls:
                    if name == "only" and k:
                        continue
                    res.evals += 1
                    res.hit(f"special:leading-varargs:{api}:{name}")
                    tag = name.split("-")[0]
                    ea = tuple(int(x) for x in a)
                    exp = (tag, ea) if name == "only" else (tag, ea, {kk: float(v) for kk, v in k.items()})
                    out = gcall(b.val, *a, **k) if b.ok else b
                    key = h64("lead", api, name, repr(a), repr(k), out.ok, repr(out.val) if out.ok else out.excname)
                    res.outcomes.add(key)
                    if out.ok:
                        res.nontrivial.add(key)
                    ok = out.ok and same(out.val, exp) and all(type(x) is int for x in out.val[1])
                    if not ok:
                        got = repr(out.val) if out.ok else f"raises {out.excname}: {str(out.exc)[:80]}"
                        res.violation(
                            f"C10/special/leading-annotated-varargs/{name}/" + ("unconverted" if out.ok else "raises:" + out.excname),
                            f"{api}() of the {name} flavour of `def f(*args: int, **kw: float)` (inspect.signature keeps *args for it), called with {a!r} {k!r}: got {got}, expected {exp!r}",
                            {"special": "leading-varargs"},
                        )
    finally:
        dropmod("tlg_c10_lead")


_DECO_SRC = """
import functools

def passthrough(f):
    @functools.wraps(f)
    def inner(*args, **kwargs):
        return f(*args, **kwargs)
    return inner

def twice(f):
    return passthrough(passthrough(f))

@passthrough
def deco(a: int, b: float = 1.5, *rest: int, **kw: float):
    return ("deco", a, b, rest, kw)

@twice
def deco2(a: int, /, *, k: float = 0.5):
    return ("deco2", a, k)

class Host:
    @passthrough
    def meth(self, a: int, b: float = 1.5):
        return ("meth", a, b)

class Audited:
    # the constructor itself sits behind a functools.wraps pass-through decorator
    @passthrough
    def __init__(self, a: int, b: float = 1.5):
        self.args = ("audited", a, b)

def vt(a: int, *rest: tuple[int, ...], **kw: list[int]):
    # every surplus positional argument binds to `rest`, whose annotation is a variadic tuple: each one is converted to a tuple of ints
    return ("vt", a, rest, kw)
"""


def special_decorated(res):
    """callables behind functools.wraps pass-through decorators: inspect.signature follows __wrapped__, so the parameters
    (and their annotations) are those of the decorated function"""
    cold.clear_all()
    m = mkmod("tlg_c10_deco", _DECO_SRC)
    try:
        h = m.Host()
        table = [
            ("deco", m.deco, (("1",), {}), ("deco", 1, 1.5, (), {})),
            ("deco", m.deco, (("1", "2", "3"), {"z": "4"}), ("deco", 1, 2.0, (3,), {"z": 4.0})),
            ("deco", m.deco, ((), {"a": "1", "b": "2"}), ("deco", 1, 2.0, (), {})),
            ("deco2", m.deco2, (("1",), {"k": "2"}), ("deco2", 1, 2.0)),
            ("deco2", m.deco2, (("1",), {}), ("deco2", 1, 0.5)),
            ("meth", h.meth, (("1", "2"), {}), ("meth", 1, 2.0)),
            ("meth", h.meth, (("1",), {"b": "2"}), ("meth", 1, 2.0)),
            ("Audited", m.Audited, (("1", "2"), {}), ("audited", 1, 2.0)),
            ("Audited", m.Audited, (("1",), {"b": "2"}), ("audited", 1, 2.0)),
            ("vt", m.vt, (("1", ["2", "3"], "[4, 5]"), {"k": "[6]"}), ("vt", 1, ((2, 3), (4, 5)), {"k": [6]})),
            ("vt", m.vt, (("1", ("7",)), {}), ("vt", 1, ((7,),), {})),
            ("vt", m.vt, (("1",), {}), ("vt", 1, (), {})),
        ]
        for api in ("bind", "wrap"):
            for name, target, (a, k), exp in table:
                cold.clear_all()
                res.programs += 1
                res.evals += 1
                res.hit(f"special:decorated:{api}:{name}")
                b = gcall(getattr(typelib.binding, api), target)
                out = gcall(b.val, *a, **k) if b.ok else b
                if out.ok and name == "Audited":
                    out = gcall(lambda: out.val.args)
                key = h64("deco", api, name, repr(a), repr(k), out.ok, repr(out.val) if out.ok else out.excname)
                res.outcomes.add(key)
                if out.ok:
                    res.nontrivial.add(key)
                if not (out.ok and fsame(out.val, exp)):
                    got = repr(out.val) if out.ok else f"raises {out.excname}: {str(out.exc)[:80]}"
                    res.violation(
                        f"C10/special/decorated-with-functools-wraps/{name}/" + ("unconverted" if out.ok else "raises:" + out.excname),
                        f"{api}() of `{name}` (behind a functools.wraps pass-through decorator; inspect.signature reports the decorated function's parameters), called with {a!r} {k!r}: got {got}, expected {exp!r}",
                        {"special": "decorated"},
                    )
    finally:
        dropmod("tlg_c10_deco")


_CLASSES_SRC = """
import decimal, typing

class Account:
    # the class body annotates `balance` / `owner` (what the ATTRIBUTES hold); the constructor takes other types under the same names
    balance: decimal.Decimal
    owner: int
    def __init__(self, balance: str, owner: str = "nobody", *tags: int):
        self.args = (balance, owner, tags)

class ChildOfAccount(Account):
    # inherits the annotated __init__ (defines none of its own)
    note = "child"

class Caller:
    limit: decimal.Decimal
    def __call__(self, limit: str, n: int = 0):
        return ("called", limit, n)

class Price(typing.NamedTuple):
    amount: float
    currency: int = 978
    cents: int = 0

class Registered:
    # a catch-all __new__ (instance registry pattern) next to an annotated __init__: inspect.signature(Registered) is (*args, **kwargs)
    def __new__(cls, *args, **kwargs):
        return super().__new__(cls)
    def __init__(self, port: int, *tags: bytes, ratio: decimal.Decimal = decimal.Decimal(1)):
        self.args = (port, tags, ratio)

class InheritedPrice(Price):
    # inherits its fields, adds only a method (no annotations of its own)
    def total(self):
        return self.amount
"""


def special_classes(res):
    """classes as callables: the parameters (and annotations) are those of the constructor signature; a class body annotating the
    same names differently, and a class that inherits its NamedTuple fields, do not change that"""
    cold.clear_all()
    m = mkmod("tlg_c10_classes", _CLASSES_SRC)
    try:
        table = [
            ("Account", m.Account, ((15, 7, "3"), {}), lambda r: r.args, ("15", "7", (3,))),
            ("Account", m.Account, ((15,), {"owner": 7}), lambda r: r.args, ("15", "7", ())),
            ("Caller", m.Caller(), ((15, "2"), {}), lambda r: r, ("called", "15", 2)),
            ("Price", m.Price, (("1.5", "840"), {"cents": "25"}), tuple, (1.5, 840, 25)),
            ("InheritedPrice", m.InheritedPrice, (("1.5", "840"), {"cents": "25"}), tuple, (1.5, 840, 25)),
            ("InheritedPrice", m.InheritedPrice, (("2",), {}), tuple, (2.0, 978, 0)),
        ]
        import decimal as _dec

        # wrap(cls) converts the arguments of the constructor per the annotations of __init__ (it is __init__ that is wrapped)
        res.programs += 1
        res.evals += 1
        res.hit("special:classes:wrap:Registered")
        w = gcall(typelib.binding.wrap, m.Registered)
        out = gcall(lambda: w.val("80", "a", "b", ratio="1.5").args) if w.ok else w
        exp = (80, (b"a", b"b"), _dec.Decimal("1.5"))
        res.outcomes.add(h64("classes", "wrap", "Registered", out.ok, repr(out.val) if out.ok else out.excname))
        if not (out.ok and fsame(out.val, exp)):
            got = repr(out.val) if out.ok else f"raises {out.excname}: {str(out.exc)[:80]}"
            res.violation("C10/special/class-as-callable/Registered(__new__-catch-all)/" + ("wrong-conversion" if out.ok else "raises:" + out.excname),
                          f"wrap(Registered)('80', 'a', 'b', ratio='1.5'): __init__(port: int, *tags: bytes, ratio: Decimal) received {got}, expected {exp!r}", {"special": "classes"})
        res.programs += 1
        res.evals += 1
        res.hit("special:classes:wrap:ChildOfAccount")
        w = gcall(typelib.binding.wrap, m.ChildOfAccount)
        out = gcall(lambda: w.val(15, 7, "3").args) if w.ok else w
        exp = ("15", "7", (3,))
        res.outcomes.add(h64("classes", "wrap", "ChildOfAccount", out.ok, repr(out.val) if out.ok else out.excname))
        if not (out.ok and fsame(out.val, exp)):
            got = repr(out.val) if out.ok else f"raises {out.excname}: {str(out.exc)[:80]}"
            res.violation("C10/special/class-as-callable/ChildOfAccount(inherited-__init__)/" + ("wrong-conversion" if out.ok else "raises:" + out.excname),
                          f"wrap(ChildOfAccount)(15, 7, '3'): the inherited __init__(balance: str, owner: str, *tags: int) received {got}, expected {exp!r}", {"special": "classes"})
        for api in ("bind", "wrap"):
            for name, target, (a, k), view, exp in table:
                if api == "wrap" and name in ("Account", "Price", "InheritedPrice"):
                    continue  # wrap() of a class patches the class in place: judged by the enumeration's class flavour
                cold.clear_all()
                res.programs += 1
                res.evals += 1
                res.hit(f"special:classes:{api}:{name}")
                b = gcall(getattr(typelib.binding, api), target)
                out = gcall(lambda: view(b.val(*a, **k))) if b.ok else b
                key = h64("classes", api, name, repr(a), repr(k), out.ok, repr(out.val) if out.ok else out.excname)
                res.outcomes.add(key)
                if out.ok:
                    res.nontrivial.add(key)
                if not (out.ok and fsame(out.val, exp)):
                    got = repr(out.val) if out.ok else f"raises {out.excname}: {str(out.exc)[:80]}"
                    res.violation(
                        f"C10/special/class-as-callable/{name}/" + ("wrong-conversion" if out.ok else "raises:" + out.excname),
                        f"{api}({name}) called with {a!r} {k!r}: the constructor received {got}, expected {exp!r} (inspect.signature({name}) = {inspect.signature(target)})",
                        {"special": "classes"},
                    )
    finally:
        dropmod("tlg_c10_classes")


_REJECT_SRC = """
import uuid
def f1(a: int, *, key: uuid.UUID, n: int = 0):
    return ("f1", a, key, n)
def f2(a: int, /, b: str = "b", *, n: int = 0):
    return ("f2", a, b, n)
def f3(*, k: int):
    return ("f3", k)
def f4(a: int, b: int = 0):
    return ("f4", a, b)
def f5(a: int, **kw: int):
    return ("f5", a, kw)
class Inst:
    def __call__(self, a: int, /, b: str = "b", *, n: int = 0):
        return ("inst", a, b, n)
"""


def special_rejected_unconvertible(res):
    """calls Python rejects (one positional too many, no *args) whose surplus value NO parameter could convert: still TypeError,
    never the conversion error of a parameter the value does not bind to"""
    import uuid

    cold.clear_all()
    m = mkmod("tlg_c10_reject", _REJECT_SRC)
    K = str(uuid.UUID(int=5))
    try:
        table = [
            ("f1", m.f1, ("1", "zz"), {"key": K}), ("f1", m.f1, ("1", "zz", "zz"), {"key": K}), ("f2", m.f2, ("1", "b", "zz"), {}),
            ("f3", m.f3, ("zz",), {"k": "1"}), ("f4", m.f4, ("1", "2", "zz"), {}), ("f5", m.f5, ("1", "zz"), {"x": "2"}), ("Inst", m.Inst(), ("1", "b", "zz"), {}),
        ]
        for api in ("bind", "wrap"):
            for name, target, a, k in table:
                cold.clear_all()
                res.programs += 1
                res.evals += 1
                res.hit(f"special:rejected-unconvertible:{api}:{name}")
                assert not gcall(inspect.signature(target).bind, *a, **k).ok  # Python rejects this call
                b = gcall(getattr(typelib.binding, api), target)
                out = gcall(b.val, *a, **k) if b.ok else b
                key = h64("reject", api, name, repr(a), out.ok, out.excname)
                res.outcomes.add(key)
                if out.ok or out.excname != "TypeError":
                    got = repr(out.val) if out.ok else f"raises {out.excname}: {str(out.exc)[:80]}"
                    res.violation(f"C10/special/rejected-call-with-unconvertible-surplus/{name}/" + ("accepted" if out.ok else "raises:" + out.excname + "-instead-of-TypeError"),
                                  f"{api}({name}) called with {a!r} {k!r} (one positional too many): {got}; Python raises TypeError", {"special": "rejected-unconvertible"})
    finally:
        dropmod("tlg_c10_reject")


def special_equal_args_across_calls(res):
    """one bound callable called several times with arguments that are == but of different classes (1, 1.0, True; '1', b'1'):
    every call converts ITS argument"""
    cold.clear_all()
    m = mkmod("tlg_c10_eq", "def f(a: str, b: float = 0.0, *rest: str, **kw: str):\n    return (a, b, rest, kw)\n")
    try:
        for api in ("bind", "wrap"):
            cold.clear_all()
            b = gcall(getattr(typelib.binding, api), m.f)
            res.programs += 1
            for seq in ((1.0, True, 1), (True, 1, 1.0), (1, 1.0, True)):
                for x in seq:
                    res.evals += 1
                    res.hit(f"special:equal-args:{api}")
                    exp = (str(x), float(x), (str(x),), {"k": str(x)})
                    out = gcall(b.val, x, x, x, k=x) if b.ok else b
                    res.outcomes.add(h64("eqargs", api, repr(seq), repr(x), out.ok, repr(out.val) if out.ok else out.excname))
                    if not (out.ok and fsame(out.val, exp)):
                        got = repr(out.val) if out.ok else f"raises {out.excname}: {str(out.exc)[:80]}"
                        res.violation("C10/special/equal-but-different-arguments-across-calls/" + ("wrong-conversion" if out.ok else "raises:" + out.excname),
                                      f"{api}(f)({x!r}, {x!r}, {x!r}, k={x!r}) after the earlier calls of {seq!r}: got {got}, expected {exp!r}", {"special": "equal-args"})
    finally:
        dropmod("tlg_c10_eq")


SPECIALS = {"equal-args": special_equal_args_across_calls, "rejected-unconvertible": special_rejected_unconvertible, "classes": special_classes, "twin-modules": special_twin_modules, "leading-varargs": special_leading_varargs, "decorated": special_decorated}


def _masks_full_first(n, masks):
    full = (1 << n) - 1
    return [full] + [m for m in masks if m != full]


def run_unit(unit, tier, res):
    if unit[0] == "special":
        SPECIALS[unit[1]](res)
        return
    si, di = unit
    kinds = B.kinds_of(B.kind_shapes(NMAX[tier])[si])
    dmask = B.default_masks(kinds)[di]
    n = len(kinds)
    for fl in B.FLAVOURS:
        masks = range(1 << n) if fl == "function" else flavour_masks(n, tier)
        ref = None
        for mask in _masks_full_first(n, masks):
            own = run_program(kinds, mask, dmask, fl, tier, res, ref=ref)
            if ref is None:
                ref = own


def replay(case, tier, res):
    if case.get("special"):
        SPECIALS[case["special"]](res)
        return
    only = case["call"]
    if only != "meta":
        only = (only[0], tuple(only[1]))
    kinds = tuple(case["kinds"])
    full = (1 << len(kinds)) - 1
    ref = None
    if case["mask"] != full and only != "meta":
        from ..kernel.runner import Result

        ref = run_program(kinds, full, case["dmask"], case["flavour"], tier, Result(), only=only)
    run_program(kinds, case["mask"], case["dmask"], case["flavour"], tier, res, only=only, ref=ref)
