"""C05 - nested members are converted by their own type's rules (compositional oracle, adversarial naming)."""
from __future__ import annotations

import dataclasses
import json

import typelib

from ..kernel import cold
from ..kernel.canon import short
from ..kernel.guard import Out, call
from ..kernel.runner import h64
from ..refmodel.same import same
from ..universe import inputs, prelude
from ..universe import terms as T
from . import _eval as E

ID = "C05"
SETS = {"quick": ["U1L", "P:P1q", "P:P3q", "P:P4q", "P:P6q", "P:P7q"], "thorough": ["U1L_all", "U2K", "P:P0", "P:P1", "P:P3", "P:P4", "P:P6", "P:P7"]}
STEP = 30
NMEM = 4  # member inputs taken from the first NMEM values of each member
REJECT_POOL = [lambda: object(), lambda: {"zz_no_such": object()}, lambda: "\x00not-a-value\x00", lambda: [[["deep"]]], lambda: 3.25j]


def units(tier):
    return E.ranges(SETS[tier], STEP) + [("special", 0, 1)]


def meta(tier):
    return {
        "rule": "every composite term (collection, mapping, fixed tuple, Optional, structured class) of the named sets and the adversarial-naming programs "
        "(P1 shared field names, P2 same-named classes in two modules, P3 diamonds, P4 chains, P5 nested definitions): for member inputs drawn from the wire forms of the "
        f"first {NMEM} member values plus two inputs the member routine rejects, the composite result must be same-as the composite rebuilt by the reference constructor "
        "from unmarshaller(member)(x_i) / marshaller(member)(v_i) obtained independently through the public API; a member rejection must make the composite raise; "
        "structured sources in every documented shape (mapping, list of pairs, one-shot iterator of pairs, JSON text, repr text, foreign instance) must convert alike; "
        "an instance of a subclass that adds a field marshals, under the base's routine, to the base's members only; non-trivial = all member routines accepted; distinct by (T, input, outcome)",
        "bounds": {"term_sets": SETS[tier], "member_inputs": NMEM},
        "assumptions": ["cold state per program", "union members are judged by C08"],
        "exhaustive": True,
    }


def member_inputs(m, ns, mu):
    """[(label, factory, accepted?)]: wire forms of the first values + two rejected inputs."""
    out = []
    for vi, v in enumerate(m.values(ns)[:NMEM]):
        w = call(m.wire, ns, v)
        if w.ok:
            out.append((f"w{vi}", (lambda x: lambda: x)(w.val)))
    rej = 0
    for ri, f in enumerate(REJECT_POOL):
        if rej >= 2:
            break
        if not call(mu, f()).ok:
            out.append((f"rej{ri}", f))
            rej += 1
    return out


class Foreign:
    """an instance of another structured class with overlapping field names"""

    def __init__(self, **kw):
        self.__dict__.update(kw)
        self.zz_other = 1


def struct_fields(term):
    return [(f[0], f[1]) for f in term.fields]


def make_struct(term, ns, kwargs):
    isdict = term.isdict() if term.kind == "cls" else term._cls is dict
    if isdict:
        req = term.required() if term.kind == "cls" else ns[term.name].__required_keys__
        missing = [r for r in req if r not in kwargs]
        if missing:
            raise TypeError(f"missing {missing}")
        return dict(kwargs)
    return ns[term.name](**kwargs)


def _literal_faithful(x):
    import ast

    try:
        y = ast.literal_eval(repr(x))
    except Exception:  # noqa: BLE001
        return False
    return same(y, x)


def composite_cases(term, ns, mus):
    """yield (label, input factory, reference thunk) for the unmarshal direction; mus = member unmarshallers by position"""
    k = term.kind
    if k in ("list", "set", "frozenset", "deque", "vtuple"):
        mi = member_inputs(term.args[0], ns, mus[0])
        yield "empty", (lambda: []), (lambda: term.origin([]))
        for lab, f in mi:
            yield f"[{lab}]", (lambda f=f: [f()]), (lambda f=f: term.origin([mus[0](f())]))
        for (l1, f1), (l2, f2) in zip(mi, mi[1:] + mi[:1]):
            yield f"[{l1},{l2}]", (lambda f1=f1, f2=f2: [f1(), f2()]), (lambda f1=f1, f2=f2: term.origin([mus[0](f1()), mus[0](f2())]))
    elif k == "dict":
        ki = member_inputs(term.args[0], ns, mus[0])
        vi = member_inputs(term.args[1], ns, mus[1])
        # keys of a foreign primitive class that the key routine converts (1 -> "1" under a str key type): visible in every source shape
        for kl, kv in (("int-key", 1), ("float-key", 2.5), ("bool-key", True)):
            if call(mus[0], kv).ok and not any(type(f()) is type(kv) for _, f in ki):
                ki = ki + [(kl, (lambda kv=kv: kv))]
        yield "empty", (lambda: {}), (lambda: {})
        for kl, kf in ki:
            for vl, vf in vi[:3] + vi[-2:]:
                def mk(kf=kf, vf=vf):
                    try:
                        return {kf(): vf()}
                    except TypeError:
                        return [(kf(), vf())]
                yield f"{{{kl}:{vl}}}", mk, (lambda kf=kf, vf=vf: {mus[0](kf()): mus[1](vf())})
                # the same mapping as Python-literal TEXT (and as JSON pairs): decoded keys need not be text, they are members like any other
                d0 = mk()
                if type(d0) is dict and _literal_faithful(d0):
                    yield f"text{{{kl}:{vl}}}", (lambda d0=d0: repr(d0)), (lambda kf=kf, vf=vf: {mus[0](kf()): mus[1](vf())})
                    yield f"bytes{{{kl}:{vl}}}", (lambda d0=d0: repr(d0).encode()), (lambda kf=kf, vf=vf: {mus[0](kf()): mus[1](vf())})
    elif k == "ftuple":
        per = [member_inputs(a, ns, mus[i]) for i, a in enumerate(term.args)]
        first = [p[0] if p else None for p in per]
        if any(x is None for x in first):
            return
        for i, p in enumerate(per):
            for lab, f in p:
                fs = [x[1] for x in first]
                fs[i] = f
                yield f"pos{i}={lab}", (lambda fs=fs: [g() for g in fs]), (lambda fs=fs: tuple(mus[j](g()) for j, g in enumerate(fs)))
                if lab.startswith("w") and i == 0:
                    yield f"iter:pos{i}={lab}", (lambda fs=fs: iter([g() for g in fs])), (lambda fs=fs: tuple(mus[j](g()) for j, g in enumerate(fs)))
                    yield f"gen:pos{i}={lab}", (lambda fs=fs: (g() for g in fs)), (lambda fs=fs: tuple(mus[j](g()) for j, g in enumerate(fs)))
        fs = [x[1] for x in first]
        yield "extra-item", (lambda fs=fs: [g() for g in fs] + ["zz"]), (lambda fs=fs: tuple(mus[j](g()) for j, g in enumerate(fs)))
        yield "short", (lambda fs=fs: [g() for g in fs][:-1]), (lambda: (_ for _ in ()).throw(ValueError("too few")))
    elif k == "optional":
        mi = member_inputs(term.args[0], ns, mus[0])
        yield "none", (lambda: None), (lambda: None)
        for lab, f in mi:
            if f() is None:
                continue
            yield lab, f, (lambda f=f: mus[0](f()))
    elif k in ("cls", "struct"):
        fields = struct_fields(term)
        per = [member_inputs(t, ns, mus[i]) for i, (n, t) in enumerate(fields)]
        if any(not p for p in per):
            return
        names = [n for n, _ in fields]
        base = [p[0][1] for p in per]
        for i, p in enumerate(per):
            for lab, f in p:
                fs = list(base)
                fs[i] = f

                def ref(fs=fs):
                    return make_struct(term, ns, {n: mus[j](g()) for j, (n, g) in enumerate(zip(names, fs))})

                def asmap(fs=fs):
                    return {n: g() for n, g in zip(names, fs)}

                yield f"map:{names[i]}={lab}", asmap, ref
                if lab.startswith("w") and i == 0 or lab.startswith("rej"):
                    yield f"pairs:{names[i]}={lab}", (lambda fs=fs: [(n, g()) for n, g in zip(names, fs)]), ref
                    yield f"iter:{names[i]}={lab}", (lambda fs=fs: iter([(n, g()) for n, g in zip(names, fs)])), ref
                    if call(lambda fs=fs: frozenset((n, g()) for n, g in zip(names, fs))).ok:  # hashable member values only
                        yield f"setpairs:{names[i]}={lab}", (lambda fs=fs: frozenset((n, g()) for n, g in zip(names, fs))), ref
                        yield f"setpairs-mutable:{names[i]}={lab}", (lambda fs=fs: {(n, g()) for n, g in zip(names, fs)}), ref
                    if not any(n.startswith("_") for n in names):
                        # (the fields of an OBJECT source are its public attributes: a name with a leading underscore is a key only in a mapping)
                        yield f"foreign:{names[i]}={lab}", (lambda fs=fs: Foreign(**{n: g() for n, g in zip(names, fs)})), ref
                    isdict_ = term.isdict() if term.kind == "cls" else term._cls is dict
                    if not isdict_ and call(lambda fs=fs: ns[term.name](**{n: g() for n, g in zip(names, fs)})).ok:
                        # an instance of the annotated class itself whose members are still raw
                        yield f"same-class-raw:{names[i]}={lab}", (lambda fs=fs: ns[term.name](**{n: g() for n, g in zip(names, fs)})), ref
                    yield f"extra-key:{names[i]}={lab}", (lambda fs=fs: {**{n: g() for n, g in zip(names, fs)}, "zz_unknown": 1}), ref
                    m = asmap()
                    if inputs.jsonable(m) and same(json.loads(json.dumps(m)), m):  # JSON cannot carry every wire value (int keys)
                        yield f"json:{names[i]}={lab}", (lambda m=m: json.dumps(m)), ref
                        yield f"json-bytes:{names[i]}={lab}", (lambda m=m: json.dumps(m).encode()), ref
                    try:
                        import ast

                        if ast.literal_eval(repr(m)) == m:
                            yield f"repr:{names[i]}={lab}", (lambda m=m: repr(m)), ref
                    except Exception:  # noqa: BLE001
                        pass


def marshal_reference(term, ns, mms, v):
    k = term.kind
    if k in ("list", "set", "frozenset", "deque", "vtuple"):
        return [mms[0](e) for e in v]
    if k == "dict":
        return {mms[0](kk): mms[1](e) for kk, e in v.items()}
    if k == "ftuple":
        return [mms[i](e) for i, e in enumerate(v)]
    if k == "optional":
        return None if v is None else mms[0](v)
    if k in ("cls", "struct"):
        out = {}
        for i, (n, t) in enumerate(struct_fields(term)):
            if isinstance(v, dict):
                if n in v:
                    out[n] = mms[i](v[n])
            else:
                out[n] = mms[i](getattr(v, n))
        return out
    raise KeyError(k)


def judge_term(term, ns, ann, res, case, only=None):
    if term.kind in ("leaf", "literal", "union") or (not term.args and term.kind != "struct"):
        return False
    if term.kind == "struct":
        margs = [t for _, t in struct_fields(term)]
    else:
        margs = list(term.args)
    bu = E.timed(E.BUILD_LIMIT, typelib.unmarshaller, ann)
    bm = E.timed(E.BUILD_LIMIT, typelib.marshaller, ann)
    res.evals += 2
    if not (bu.ok and bm.ok):
        bad = bu if not bu.ok else bm
        res.violation(f"C05/build/{E.shallow_kind(term)}/{bad.excname}", f"cannot build routines for {term.src}: {bad!r}", case)
        return True
    mus, mms = [], []
    for a in margs:
        _, mm, mu = E.routines_for(a, ns)
        if not (mm.ok and mu.ok):
            return True
        mus.append(mu.val)
        mms.append(mm.val)
    # ---- unmarshal direction
    for lab, fx, ref in composite_cases(term, ns, mus):
        if only is not None and only != ["u", lab]:
            continue
        exp = call(ref)
        if exp.ok and term.kind == "dict" and getattr(term, "origin", dict) is not dict and type(exp.val) is dict:
            exp = Out(True, term.origin(exp.val))  # a concrete mapping class as target (collections.OrderedDict[K, V]): the composite is rebuilt as that class
        got = call(bu.val, fx())
        res.evals += 1
        res.outcomes.add(h64(term.src, "u", lab, "ok" if got.ok else got.excname, exp.ok))
        if exp.ok:
            res.nontrivial.add(h64(term.src, "u", lab))
        shape = lab.split(":", 1)[0] if ":" in lab else ("rej" if "rej" in lab else "plain")
        if exp.ok != got.ok:
            mode = "composite-raises-but-members-accept:" + got.excname if exp.ok else "member-rejection-swallowed"
            res.violation(f"C05/unmarshal/{E.shallow_kind(term)}/{mode}/{shape}",
                          f"unmarshal({term.src}, {short(fx(), 100)}) -> {short(got.val if got.ok else got.exc, 100)}; member-wise reference -> {short(exp.val if exp.ok else exp.exc, 100)}",
                          dict(case, only=["u", lab]))
        elif exp.ok and not same(got.val, exp.val):
            res.violation(f"C05/unmarshal/{E.shallow_kind(term)}/differs-from-member-wise-conversion/{shape}",
                          f"unmarshal({term.src}, {short(fx(), 100)}) -> {short(got.val, 100)}; rebuilt from independently converted members -> {short(exp.val, 100)}",
                          dict(case, only=["u", lab]))
    # ---- marshal direction
    for vi, v in enumerate(term.values(ns)[:40]):
        if only is not None and only != ["m", vi]:
            continue
        exp = call(marshal_reference, term, ns, mms, v)
        got = call(bm.val, v)
        res.evals += 1
        res.outcomes.add(h64(term.src, "m", vi, "ok" if got.ok else got.excname, exp.ok))
        if exp.ok != got.ok or (exp.ok and not same(got.val, exp.val)):
            res.violation(f"C05/marshal/{E.shallow_kind(term)}/{'differs-from-member-wise-conversion' if exp.ok == got.ok else 'exception-parity'}",
                          f"marshal({short(v, 100)}, t={term.src}) -> {short(got.val if got.ok else got.exc, 100)}; rebuilt from independently converted members -> {short(exp.val if exp.ok else exp.exc, 100)}",
                          dict(case, only=["m", vi]))
    # ---- marshal direction, an instance of a SUBCLASS that adds a field: the routine of T emits T's members only
    if term.kind in ("cls", "struct") and (only is None or only == ["m", "subclass"]):
        cls = ns.get(getattr(term, "name", None))
        vals = term.values(ns)[:3]
        if isinstance(cls, type) and dataclasses.is_dataclass(cls) and vals and not isinstance(vals[0], dict):
            pr = cls.__dataclass_params__
            mk = call(lambda: dataclasses.make_dataclass(cls.__name__ + "Wider", [("zz_added", int, dataclasses.field(default=5, kw_only=True))], bases=(cls,), frozen=pr.frozen, eq=pr.eq))
            if mk.ok:
                for v in vals:
                    wv = call(lambda v=v: mk.val(**{f.name: getattr(v, f.name) for f in dataclasses.fields(cls)}))
                    if not wv.ok:
                        continue
                    exp = call(marshal_reference, term, ns, mms, wv.val)
                    got = call(bm.val, wv.val)
                    res.evals += 1
                    res.outcomes.add(h64(term.src, "m-sub", repr(v), "ok" if got.ok else got.excname, exp.ok))
                    if exp.ok != got.ok or (exp.ok and not same(got.val, exp.val)):
                        res.violation(f"C05/marshal/{E.shallow_kind(term)}/subclass-instance/{'differs-from-member-wise-conversion' if exp.ok == got.ok else 'exception-parity'}",
                                      f"marshal({short(wv.val, 100)}, t={term.src}) (an instance of a subclass adding the field zz_added) -> {short(got.val if got.ok else got.exc, 100)}; "
                                      f"rebuilt from the independently converted members of {term.src} -> {short(exp.val if exp.ok else exp.exc, 100)}",
                                      dict(case, only=["m", "subclass"]))
    return True


def walk_composites(term):
    """the composite sub-terms of a program root (class members of class members ...), root first"""
    seen, out = set(), []
    for t in term.walk():
        if t.args and t.kind not in ("leaf", "literal", "union") and t.src not in seen:
            seen.add(t.src)
            out.append(t)
    return out


def run_term(setname, i, term, tier, res, only=None):
    prog = E.Prog(term)
    try:
        res.programs += 1
        ns = prog.ns
        subs = walk_composites(term) if term.has_cls and term.kind == "cls" else [term]
        for si, t in enumerate(subs):
            if only is not None and only[0] != si:
                continue
            case = {"kind": "term", "set": setname, "i": i, "sub": si, "T": t.src, "root": term.src, "module": prog.p.src}
            judge_term(t, ns, t.ann(ns), res, case, only=only[1] if only else None)
        if len(res.samples) < 2:
            res.samples.append({"T": term.src, "composites": [t.src for t in subs][:6]})
    finally:
        prog.close()


P2_A = "import dataclasses\n@dataclasses.dataclass\nclass Item:\n    x: int\n    y: str = 'a'\n"
P2_B = "import dataclasses, decimal\n@dataclasses.dataclass\nclass Item:\n    x: decimal.Decimal\n    y: int = 0\n"
P2_H = ("import dataclasses, typing, tlg_c05_ma, tlg_c05_mb\n@dataclasses.dataclass\nclass Holder:\n    a: tlg_c05_ma.Item\n    b: tlg_c05_mb.Item\n"
        "    la: list[tlg_c05_ma.Item] = dataclasses.field(default_factory=list)\n    db: dict[str, tlg_c05_mb.Item] = dataclasses.field(default_factory=dict)\n"
        "    oa: typing.Optional[tlg_c05_ma.Item] = None\n")
P5 = ("import dataclasses, typing\nclass Outer:\n    @dataclasses.dataclass\n    class Inner:\n        v: int = 0\n        nxt: typing.Optional['Outer.Inner'] = None\n"
      "    @dataclasses.dataclass\n    class Plain:\n        v: int = 0\n        w: str = ''\n@dataclasses.dataclass\nclass Uses:\n    a: Outer.Inner\n    b: Outer.Plain\n    c: list[Outer.Plain]\n"
      "class Other:\n    @dataclasses.dataclass\n    class Plain:\n        v: str = ''\n        w: int = 0\n@dataclasses.dataclass\nclass Both:\n    p: Outer.Plain\n    q: Other.Plain\n")


def run_special(res):
    import decimal

    cold.clear_all()
    prelude.mkmod("tlg_c05_ma", P2_A)
    prelude.mkmod("tlg_c05_mb", P2_B)
    h = prelude.mkmod("tlg_c05_mh", P2_H).__dict__
    ma, mb = h["tlg_c05_ma"], h["tlg_c05_mb"]
    res.programs += 2
    case = {"kind": "special"}
    x = {"a": {"x": "1", "y": 2}, "b": {"x": "1", "y": "2"}, "la": [{"x": "3", "y": 4}], "db": {"k": {"x": "5", "y": "6"}}, "oa": {"x": "7", "y": 8}}
    exp = h["Holder"](a=ma.Item(1, "2"), b=mb.Item(decimal.Decimal("1"), 2), la=[ma.Item(3, "4")], db={"k": mb.Item(decimal.Decimal("5"), 6)}, oa=ma.Item(7, "8"))
    got = call(typelib.unmarshal, h["Holder"], x)
    res.evals += 1
    res.outcomes.add(h64("P2", "ok" if got.ok else got.excname))
    res.nontrivial.add(h64("P2"))
    if not got.ok or not same(got.val, exp):
        res.violation("C05/unmarshal/P2-same-named-classes/" + ("raises:" + got.excname if not got.ok else "routed-to-the-other-module's-class"),
                      f"unmarshal(Holder, ...) -> {short(got.val if got.ok else got.exc, 200)}; expected {short(exp, 200)}", case)
    m = call(typelib.marshal, exp)
    res.evals += 1
    wantm = {"a": {"x": 1, "y": "2"}, "b": {"x": "1", "y": 2}, "la": [{"x": 3, "y": "4"}], "db": {"k": {"x": "5", "y": 6}}, "oa": {"x": 7, "y": "8"}}
    if not m.ok or not same(m.val, wantm):
        res.violation("C05/marshal/P2-same-named-classes/" + ("raises:" + m.excname if not m.ok else "routed-to-the-other-module's-class"),
                      f"marshal(Holder(...)) -> {short(m.val if m.ok else m.exc, 200)}; expected {short(wantm, 200)}", case)
    cold.clear_all()
    p5 = prelude.mkmod("tlg_c05_p5", P5).__dict__
    O, Oth = p5["Outer"], p5["Other"]
    x = {"a": {"v": "1", "nxt": {"v": "2"}}, "b": {"v": "3", "w": 4}, "c": [{"v": "5", "w": 6}]}
    exp = p5["Uses"](a=O.Inner(1, O.Inner(2)), b=O.Plain(3, "4"), c=[O.Plain(5, "6")])
    got = call(typelib.unmarshal, p5["Uses"], x)
    res.evals += 1
    res.outcomes.add(h64("P5", "ok" if got.ok else got.excname))
    if not got.ok or not same(got.val, exp):
        res.violation("C05/unmarshal/P5-nested-definition/" + ("raises:" + got.excname if not got.ok else "differs"),
                      f"unmarshal(Uses, ...) -> {short(got.val if got.ok else got.exc, 200)}; expected {short(exp, 200)}", case)
    x = {"p": {"v": "1", "w": 2}, "q": {"v": 3, "w": "4"}}
    exp = p5["Both"](p=O.Plain(1, "2"), q=Oth.Plain("3", 4))
    got = call(typelib.unmarshal, p5["Both"], x)
    res.evals += 1
    if not got.ok or not same(got.val, exp):
        res.violation("C05/unmarshal/P5-same-named-nested-classes/" + ("raises:" + got.excname if not got.ok else "differs"),
                      f"unmarshal(Both, ...) -> {short(got.val if got.ok else got.exc, 200)}; expected {short(exp, 200)}", case)
    # P2b: a NewType declared in module B around A's class, B defining its own class of the same name; the alias is
    # reached twice (container field declared first), so the second consumer is built before the real node
    cold.clear_all()
    prelude.mkmod("tlg_c05_na", "import dataclasses\n@dataclasses.dataclass\nclass Node:\n    weight: int\n")
    nb = prelude.mkmod("tlg_c05_nb", "import dataclasses, typing, tlg_c05_na\n@dataclasses.dataclass\nclass Node:\n    weight: str\n"
                       "ANode = typing.NewType('ANode', tlg_c05_na.Node)\nAlias = typing.TypeAliasType('Alias', tlg_c05_na.Node)\n"
                       "@dataclasses.dataclass\nclass Hop:\n    target: ANode\n    via: Alias\n"
                       "@dataclasses.dataclass\nclass Route:\n    hops: list[Hop]\n    first: ANode\n    own: Node\n    last: Alias\n"
                       "@dataclasses.dataclass\nclass Hop1:\n    target: ANode\n@dataclasses.dataclass\nclass Edge1:\n    hop: Hop1\n    head: ANode\n"
                       "@dataclasses.dataclass\nclass Hop2:\n    target: Alias\n@dataclasses.dataclass\nclass Edge2:\n    hop: Hop2\n    head: Alias\n"
                       "@dataclasses.dataclass\nclass Edge3:\n    head: ANode\n    hop: Hop1\n").__dict__
    na = nb["tlg_c05_na"]
    x = {"hops": [{"target": {"weight": "2"}, "via": {"weight": "3"}}], "first": {"weight": "1"}, "own": {"weight": 4}, "last": {"weight": "5"}}
    exp = nb["Route"](hops=[nb["Hop"](target=na.Node(2), via=na.Node(3))], first=na.Node(1), own=nb["Node"]("4"), last=na.Node(5))
    got = call(typelib.unmarshal, nb["Route"], x)
    res.evals += 1
    res.outcomes.add(h64("P2b", "ok" if got.ok else got.excname))
    if not got.ok or not same(got.val, exp):
        res.violation("C05/unmarshal/P2b-newtype-of-a-same-named-class-in-another-module/" + ("raises:" + got.excname if not got.ok else "differs"),
                      f"unmarshal(Route, ...) -> {short(got.val if got.ok else got.exc, 240)}; expected {short(exp, 240)}", case)
    m = call(typelib.marshal, exp)
    res.evals += 1
    wantm = {"hops": [{"target": {"weight": 2}, "via": {"weight": 3}}], "first": {"weight": 1}, "own": {"weight": "4"}, "last": {"weight": 5}}
    if not m.ok or not same(m.val, wantm):
        res.violation("C05/marshal/P2b-newtype-of-a-same-named-class-in-another-module/" + ("raises:" + m.excname if not m.ok else "differs"),
                      f"marshal(Route(...)) -> {short(m.val if m.ok else m.exc, 240)}; expected {short(wantm, 240)}", case)
    for ename, hname in (("Edge1", "Hop1"), ("Edge2", "Hop2"), ("Edge3", "Hop1")):
        cold.clear_all()
        x = {"head": {"weight": "1"}, "hop": {"target": {"weight": "2"}}}
        exp = nb[ename](hop=nb[hname](target=na.Node(2)), head=na.Node(1))
        got = call(typelib.unmarshal, nb[ename], x)
        res.evals += 1
        res.outcomes.add(h64("P2b", ename, "ok" if got.ok else got.excname))
        if not got.ok or not same(got.val, exp):
            res.violation("C05/unmarshal/P2b-newtype-of-a-same-named-class-in-another-module/" + ("raises:" + got.excname if not got.ok else "differs"),
                          f"unmarshal({ename}, ...) -> {short(got.val if got.ok else got.exc, 240)}; expected {short(exp, 240)}", case)
    # P8: members typed by a BOUND type variable (a generic user class): the bound is the member's type - a structured class, a
    # parameterised container - and its members are converted by their own rules, in both directions
    cold.clear_all()
    import decimal as _dec

    g = prelude.mkmod("tlg_c05_bound", "import dataclasses, decimal, typing\n@dataclasses.dataclass\nclass Unit:\n    amount: decimal.Decimal\n    n: int = 0\n"
                               "TU = typing.TypeVar('TU', bound=Unit)\nTL = typing.TypeVar('TL', bound=typing.List[Unit])\nTT = typing.TypeVar('TT', bound=tuple[int, decimal.Decimal])\n"
                               "@dataclasses.dataclass\nclass Box(typing.Generic[TU, TL, TT]):\n    one: TU = None\n    many: TL = None\n    pair: TT = None\n").__dict__
    Unit, Box = g["Unit"], g["Box"]
    wire = {"one": {"amount": "1.5", "n": "2"}, "many": [{"amount": "2.5", "n": "3"}], "pair": ["7", "0.5"]}
    exp = Box(one=Unit(_dec.Decimal("1.5"), 2), many=[Unit(_dec.Decimal("2.5"), 3)], pair=(7, _dec.Decimal("0.5")))
    got = call(typelib.unmarshal, Box, wire)
    res.evals += 1
    res.outcomes.add(h64("P8", "u", "ok" if got.ok else got.excname))
    if not (got.ok and same(got.val, exp)):
        res.violation("C05/unmarshal/P8-member-typed-by-a-bound-type-variable/" + ("raises:" + got.excname if not got.ok else "differs"),
                      f"unmarshal(Box, {wire}) -> {short(got.val if got.ok else got.exc, 140)}; member-wise (each bound converted by its own routine): {short(exp, 140)}", {"kind": "special"})
    m = call(typelib.marshal, exp, t=Box)
    res.evals += 1
    wexp = {"one": {"amount": "1.5", "n": 2}, "many": [{"amount": "2.5", "n": 3}], "pair": [7, "0.5"]}
    res.outcomes.add(h64("P8", "m", "ok" if m.ok else m.excname))
    if not (m.ok and same(m.val, wexp)):
        res.violation("C05/marshal/P8-member-typed-by-a-bound-type-variable/" + ("raises:" + m.excname if not m.ok else "differs"),
                      f"marshal({short(exp, 100)}, t=Box) -> {short(m.val if m.ok else m.exc, 140)}; member-wise: {wexp}", {"kind": "special"})
    res.samples.append({"special": "P2 same-named classes in two modules, P2b NewType/alias of the other module's class, P5 nested definitions"})


def run_unit(unit, tier, res):
    if unit[0] == "special":
        run_special(res)
        return
    s, a, b = unit
    for off, term in enumerate(E.unit_terms(unit)):
        run_term(s, a + off, term, tier, res)


def replay(case, tier, res):
    if case["kind"] == "special":
        run_special(res)
        return
    term = E.term_set(case["set"])[case["i"]]
    run_term(case["set"], case["i"], term, tier, res, only=[case["sub"], case.get("only")])
