"""C04 - scalar values survive their text and numeric wire forms exactly (clauses a-f of DESIGN §6 C04)."""
from __future__ import annotations

import datetime
import decimal
import fractions
import os
import pathlib
import time as _time
import uuid

import typelib

from ..kernel import cold
from ..kernel.canon import short
from ..kernel.guard import call
from ..kernel.runner import h64
from ..refmodel import iso8601
from ..refmodel.same import same
from ..universe import inputs, prelude
from ..universe import terms as T
from . import _eval as E

ID = "C04"
D = decimal.Decimal
F = fractions.Fraction
UTC = datetime.timezone.utc
EPOCH = datetime.datetime(1970, 1, 1, tzinfo=UTC)
TZS = ["UTC", "Asia/Kolkata", "America/St_Johns", "Pacific/Kiritimati"]
MAXTASKS = 4


def tz(m):
    return datetime.timezone(datetime.timedelta(minutes=m)) if m else UTC


# ------------------------------------------------------------------ alphabets A+


def ints(tier):
    out = [0, 1, -1, 7, 10, 42, 255, 2**31 - 1, 2**31, -(2**31), 2**63 - 1, 2**63, -(2**63), 2**64, 10**30, -(10**30), 123456789012345678901234567890]
    ks = range(0, 131) if tier == "thorough" else (8, 16, 31, 32, 53, 63, 64, 100, 128)
    for k in ks:
        for d in (-1, 0, 1):
            out += [2**k + d, -(2**k + d)]
    return sorted(set(out), key=lambda v: (abs(v), v))


def floats(tier):
    out = list(T.FLOATS) + [1.0, -1.0, 1e-7, 123456.789, 2.0**53, 2.0**53 + 2, 1e15, 1e17, 1e21, 1e23, 4.9e-324, 2.2250738585072014e-308, 0.30000000000000004, 1 / 3, -1e-300, 3.141592653589793]
    return out


def decimals(tier):
    out = list(T.DECIMALS) + [D("-Infinity"), D("1.000"), D("0E-10"), D("123456789.123456789"), D("-1E+5"), D("1E+100"), D("9.99E-100")]
    es = range(-30, 31) if tier == "thorough" else (-30, -7, -1, 0, 1, 7, 30)
    for e in es:
        for d in (1, 7, 25):
            out += [D(d).scaleb(e), -D(d).scaleb(e)]
    return out


def fracs(tier):
    return list(T.FRACTIONS) + [F(-1), F(1, 3), F(-22, 7), F(1, 10**30), F(2**64, 3)]


def uuids(tier):
    out = list(T.UUIDS)
    ks = range(0, 128) if tier == "thorough" else (1, 7, 31, 32, 63, 64, 96, 127)
    for k in ks:
        out += [uuid.UUID(int=2**k), uuid.UUID(int=2**k - 1)]
    return out


def dates(tier):
    out = list(T.DATES) + [datetime.date(1900, 1, 1), datetime.date(2000, 2, 29), datetime.date(2038, 1, 19), datetime.date(1, 12, 31), datetime.date(999, 1, 1)]
    return out


OFFS_Q = [0, 1, -1, 30, 330, -210, 345, 720, 840, -720, 1439, -1439, 60, -60]


def datetimes(tier):
    base = [(1, 1, 2, 0, 0, 0, 0), (1970, 1, 1, 0, 0, 0, 0), (1969, 12, 31, 23, 59, 59, 999999), (2020, 2, 29, 23, 59, 59, 999999), (9999, 12, 30, 23, 59, 59, 999999),
            (2001, 9, 9, 1, 46, 40, 0), (2038, 1, 19, 3, 14, 8, 1), (2021, 11, 7, 1, 30, 0, 500000)]
    out = []
    for b in base:
        for o in OFFS_Q:
            for fold in (0, 1):
                try:
                    d = datetime.datetime(*b, tzinfo=tz(o), fold=fold)
                    d.astimezone(UTC)
                except (OverflowError, ValueError):
                    continue
                out.append(d)
    out += [datetime.datetime(1, 1, 1, tzinfo=UTC), datetime.datetime(9999, 12, 31, 23, 59, 59, 999999, tzinfo=UTC)]
    # valid aware datetimes whose UTC equivalent lies outside 0001..9999 (Python compares / subtracts them without converting)
    out += [datetime.datetime(1, 1, 1, 0, 0, tzinfo=tz(300)), datetime.datetime(1, 1, 1, 0, 30, tzinfo=tz(60)),
            datetime.datetime(9999, 12, 31, 23, 59, 59, tzinfo=tz(-1)), datetime.datetime(9999, 12, 31, 12, 0, 0, 1, tzinfo=tz(-720))]
    return out


def times(tier):
    base = [(0, 0, 0, 0), (12, 30, 0, 0), (23, 59, 59, 999999), (0, 0, 0, 1), (1, 2, 3, 0), (6, 0, 0, 500000)]
    return [datetime.time(*b, tzinfo=tz(o), fold=f) for b in base for o in OFFS_Q for f in (0, 1)]


def timedeltas(tier):
    out = list(T.TIMEDELTAS)
    days = list(range(-400, 801)) + [999999999, -999999999] if tier == "thorough" else [-400, -15, -14, -8, -7, -6, -1, 0, 1, 6, 7, 8, 13, 14, 15, 21, 28, 30, 31, 365, 366, 400, 800, 104249, 200000, 999999999, -999999999]
    for d in days:
        for s in (0, 1, 59, 60, 3599, 3600, 86399):
            for us in (0, 1, 999999):
                try:
                    out.append(datetime.timedelta(days=d, seconds=s, microseconds=us))
                except OverflowError:
                    pass
    return out


def paths(cls):
    return [cls(p) for p in T.PATHS + ["a.b", "..", "../x", "a/b/c.txt", "logs/../etc/passwd", "a/../../b", "My Documents /notes.txt ", " lead", "trail ", "tab\t", "nl\n", "true", "None", "0", "-1", "1e5", '{"a": 1}', "é", "12:00"]]


SCALARS = {
    "int": (int, ints, str),
    "float": (float, floats, repr),
    "Decimal": (D, decimals, str),
    "Fraction": (F, fracs, str),
    "UUID": (uuid.UUID, uuids, str),
    "PurePosixPath": (pathlib.PurePosixPath, lambda tier: paths(pathlib.PurePosixPath), str),
    "Path": (pathlib.Path, lambda tier: paths(pathlib.Path), str),
    "date": (datetime.date, dates, lambda v: v.isoformat()),
    "datetime": (datetime.datetime, datetimes, lambda v: v.isoformat()),
    "time": (datetime.time, times, lambda v: v.isoformat()),
}
ENUMS = ["EInt", "EStr", "EMix", "EIntEnum", "EStrMix"]
NUMS = [0, 1, -1, 1.5, -1.5, 86399, 86400, 1e9, -1e9, 2**31, 253402300799, 0.000001, 0.5, 59.999999, 1234567890.123456, True]


def units(tier):
    out = []
    for name in SCALARS:
        out.append(("a", name, 0))
    for e in ENUMS:
        out.append(("a-enum", e, 0))
    out += [("a-td", "timedelta", k) for k in range(8)]
    out += [("b", n, 0) for n in ("date", "datetime", "time")] + [("b", "timedelta", k) for k in range(8)]
    for z in TZS:
        out += [("c", z, 0), ("d", z, 0)]
    out += [("e", "all", 0), ("f", "all", 0)]
    if tier == "thorough":
        out += [("sweep-dates", "date", k) for k in range(64)]
        out += [("sweep-offsets", "datetime+time", k) for k in range(8)]
        out += [("sweep-seconds", "time", k) for k in range(16)]
    else:
        # quick: complete sweep of the offsets, 1/8 of the dates and 1/4 of the seconds of day
        out += [("sweep-dates", "date", k) for k in range(0, 64, 8)]
        out += [("sweep-offsets", "datetime+time", k) for k in range(8)]
        out += [("sweep-seconds", "time", k) for k in range(0, 16, 4)]
    return out


def meta(tier):
    return {
        "rule": "clauses (a) canonical text parse-back in five carriers for every scalar leaf over the extended alphabets A+, (b) emitted ISO-8601 text read by an independent reader, "
        "(c) numbers -> temporals as epoch seconds in UTC, (d) temporals -> numbers by the inverse reading (admissible: exact rational seconds or the nearest double), "
        "(e) temporals -> str/bytes, (f) cache-warming twins (equal but differently represented values first); (c),(d) under four process time zones; "
        + ("complete sweeps: all 3 652 059 dates, all 2 879 whole-minute offsets, all 86 400 seconds of day x {0, 1, 999999} us; " if tier == "thorough" else "sweeps: all 2 879 whole-minute offsets, every 8th date of 0001..9999, every 4th second of day x {0, 1, 999999} us; ")
        + "non-trivial = the call returned; distinct by (clause, type, value, carrier, outcome)",
        "bounds": {"time_zones": TZS, "tier": tier},
        "assumptions": ["cold state per unit", "verdicts never depend on today's date (time-only inputs are judged on time of day and offset)"],
        "exhaustive": True,
    }


def _um(t, x):
    return call(typelib.unmarshal, t, x)


def feat(v):
    return E.feature(v)


def clause_a(name, tier, res, only=None):
    cls, alpha, printer = SCALARS[name]
    for vi, v in enumerate(alpha(tier)):
        text = printer(v)
        for c in inputs.CARRIERS:
            if only is not None and only != [vi, c]:
                continue
            o = _um(cls, inputs.carry(text, c))
            res.evals += 1
            res.outcomes.add(h64("a", name, text, c, "ok" if o.ok else o.excname))
            if o.ok:
                res.nontrivial.add(h64("a", name, text))
            if not o.ok or not same(o.val, v):
                mode = "raises:" + o.excname if not o.ok else ("class" if type(o.val) is not type(v) else "value")
                res.violation(f"C04/a-text/{name}/{mode}/{feat(v)}/{c}", f"unmarshal({name}, {text!r} as {c}) -> {short(o.val if o.ok else o.exc, 100)}, expected {v!r}",
                              {"clause": "a", "name": name, "only": [vi, c]})


def clause_a_enum(ename, tier, res):
    ns = prelude.prelude().__dict__
    E_ = ns[ename]
    for m in E_:
        text = str(m.value)
        for c in inputs.CARRIERS:
            o = _um(E_, inputs.carry(text, c))
            res.evals += 1
            res.outcomes.add(h64("a-enum", ename, text, c, "ok" if o.ok else o.excname))
            if o.ok:
                res.nontrivial.add(h64("a-enum", ename, text))
            # two members may print alike (1 and "1"): any member whose value prints as `text` is admissible
            admissible = [x for x in E_ if str(x.value) == text]
            if not o.ok or not any(o.val is x for x in admissible):
                res.violation(f"C04/a-text/{ename}/{'raises:' + o.excname if not o.ok else 'value'}/{feat(m)}/{c}",
                              f"unmarshal({ename}, {text!r} as {c}) -> {short(o.val if o.ok else o.exc, 80)}, expected {m!r}", {"clause": "a-enum", "name": ename})


def clause_a_td(part, tier, res):
    tds = timedeltas(tier)
    for vi in range(part, len(tds), 8):
        v = tds[vi]
        m = call(typelib.marshal, v)
        res.evals += 1
        if not m.ok or not isinstance(m.val, str):
            res.violation(f"C04/b-iso/timedelta/marshal:{'raises:' + m.excname if not m.ok else 'not-text'}/{feat(v)}", f"marshal({v!r}) -> {m!r}", {"clause": "a-td", "part": part})
            continue
        for c in inputs.CARRIERS:
            o = _um(datetime.timedelta, inputs.carry(m.val, c))
            res.evals += 1
            res.outcomes.add(h64("a-td", repr(v), c, "ok" if o.ok else o.excname))
            if o.ok:
                res.nontrivial.add(h64("a-td", repr(v)))
            if not o.ok or not same(o.val, v):
                res.violation(f"C04/a-text/timedelta/{'raises:' + o.excname if not o.ok else 'value'}/{feat(v)}/{c}",
                              f"unmarshal(timedelta, {m.val!r} as {c}) -> {short(o.val if o.ok else o.exc, 80)}, expected {v!r}", {"clause": "a-td", "part": part})


def read_back(name, text):
    if name == "date":
        return datetime.date.fromisoformat(text)
    if name == "datetime":
        return datetime.datetime.fromisoformat(text)
    if name == "time":
        return datetime.time.fromisoformat(text)
    return iso8601.read_duration(text)


def clause_b(name, part, tier, res):
    vals = {"date": dates, "datetime": datetimes, "time": times, "timedelta": timedeltas}[name](tier)
    step = 8 if name == "timedelta" else 1
    for vi in range(part, len(vals), step):
        v = vals[vi]
        m = call(typelib.marshal, v)
        res.evals += 1
        res.outcomes.add(h64("b", name, repr(v), "ok" if m.ok else m.excname))
        if not m.ok or type(m.val) is not str:
            res.violation(f"C04/b-iso/{name}/marshal:{'raises:' + m.excname if not m.ok else 'not-text'}/{feat(v)}", f"marshal({v!r}) -> {m!r}", {"clause": "b", "name": name, "part": part})
            continue
        res.nontrivial.add(h64("b", name, repr(v)))
        r = call(read_back, name, m.val)
        if not r.ok:
            res.violation(f"C04/b-iso/{name}/malformed/{feat(v)}", f"marshal({v!r}) = {m.val!r} is not well-formed ISO 8601 for an independent reader: {r.exc}", {"clause": "b", "name": name, "part": part})
        elif not same(r.val, v):
            res.violation(f"C04/b-iso/{name}/means-something-else/{feat(v)}", f"marshal({v!r}) = {m.val!r} reads back as {r.val!r}", {"clause": "b", "name": name, "part": part})


def set_tz(z):
    os.environ["TZ"] = z
    _time.tzset()


def clause_c(z, tier, res):
    set_tz(z)
    try:
        cold.clear_all()
        for n in NUMS:
            exp_dt = EPOCH + datetime.timedelta(seconds=n) if not isinstance(n, float) else EPOCH + datetime.timedelta(microseconds=round(n * 1_000_000))
            want = {
                "datetime": (datetime.datetime, exp_dt),
                "date": (datetime.date, exp_dt.date()),
                "time": (datetime.time, exp_dt.timetz()),
                "timedelta": (datetime.timedelta, datetime.timedelta(seconds=n)),
            }
            for name, (cls, exp) in want.items():
                o = _um(cls, n)
                res.evals += 1
                res.outcomes.add(h64("c", z, name, repr(n), "ok" if o.ok else o.excname))
                if o.ok:
                    res.nontrivial.add(h64("c", name, repr(n)))
                ok = o.ok and type(o.val) is cls and o.val == exp and (name not in ("datetime", "time") or o.val.utcoffset() == datetime.timedelta(0))
                if not ok:
                    res.violation(f"C04/c-number-to-temporal/{name}/{'raises:' + o.excname if not o.ok else 'value'}/{type(n).__name__}:{'frac' if n != int(n) else 'whole'}/TZ={'UTC' if z == 'UTC' else 'non-UTC'}",
                                  f"unmarshal({name}, {n!r}) [TZ={z}] -> {short(o.val if o.ok else o.exc, 80)}, expected {exp!r}", {"clause": "c", "tz": z})
    finally:
        set_tz("UTC")


class _DateSub(datetime.date):
    pass


class _DTSub(datetime.datetime):
    pass


def clause_d(z, tier, res):
    set_tz(z)
    try:
        cold.clear_all()
        srcs = [("datetime", v) for v in datetimes(tier)[:: (1 if tier == "thorough" else 3)]] + [("date", v) for v in dates(tier)] + [("timedelta", v) for v in timedeltas(tier)[:60]] + [("time", v) for v in times(tier)[::5]]
        # instances of user subclasses of date / datetime are dates / datetimes like any other
        srcs += [("date", _DateSub(2020, 1, 2)), ("date", _DateSub(1969, 12, 31)), ("datetime", _DTSub(2020, 1, 2, 3, 4, 5, 6, tzinfo=UTC)), ("datetime", _DTSub(1969, 12, 31, 23, 59, 59, tzinfo=tz(330)))]
        for kind, v in srcs:
            if kind == "datetime":
                q = F((v - EPOCH) // datetime.timedelta(microseconds=1), 1_000_000)
            elif kind == "date":
                q = F((datetime.datetime(v.year, v.month, v.day, tzinfo=UTC) - EPOCH) // datetime.timedelta(microseconds=1), 1_000_000)
            elif kind == "timedelta":
                q = F(v // datetime.timedelta(microseconds=1), 1_000_000)
            else:
                off = v.utcoffset() or datetime.timedelta(0)
                q = F(((v.hour * 3600 + v.minute * 60 + v.second) * 1_000_000 + v.microsecond - off // datetime.timedelta(microseconds=1)), 1_000_000)
            for tname, tcls in (("int", int), ("float", float), ("Decimal", D), ("Fraction", F)):
                o = _um(tcls, v)
                res.evals += 1
                res.outcomes.add(h64("d", z, kind, repr(v), tname, "ok" if o.ok else o.excname))
                if o.ok:
                    res.nontrivial.add(h64("d", kind, repr(v), tname))
                good = False
                if o.ok and type(o.val) is tcls:
                    cands = []
                    fq = float(q)
                    if tcls is int:
                        import math

                        cands = [int(q), int(fq)] + ([math.floor(q), math.ceil(q)] if kind == "time" else [])
                    elif tcls is float:
                        cands = [fq]
                    elif tcls is D:
                        cands = [D(q.numerator) / D(q.denominator), D(fq), D(repr(fq))]
                    else:
                        cands = [q, F(fq)]
                    if kind == "time":
                        good = any((F(o.val) - F(cnd)) % 86400 == 0 for cnd in cands) or abs((float(o.val) - fq) % 86400) < 1e-3 or abs((float(o.val) - fq) % 86400 - 86400) < 1e-3
                    else:
                        good = any(o.val == cnd for cnd in cands)
                if not good:
                    res.violation(f"C04/d-temporal-to-number/{kind}->{tname}/{'raises:' + o.excname if not o.ok else 'value'}/{feat(v)}/TZ={'UTC' if z == 'UTC' else 'non-UTC'}",
                                  f"unmarshal({tname}, {v!r}) [TZ={z}] -> {short(o.val if o.ok else o.exc, 80)}, expected {float(q)!r} seconds (exact {q})", {"clause": "d", "tz": z})
    finally:
        set_tz("UTC")


def clause_e(tier, res):
    cold.clear_all()
    vals = [("date", v) for v in dates(tier)] + [("datetime", v) for v in datetimes(tier)[::2]] + [("time", v) for v in times(tier)[::3]] + [("timedelta", v) for v in timedeltas(tier)[:80]]
    for kind, v in vals:
        m = call(typelib.marshal, v)
        if not m.ok:
            continue
        for tname, tcls in (("str", str), ("bytes", bytes), ("bytearray", bytearray)):
            o = _um(tcls, v)
            res.evals += 1
            res.outcomes.add(h64("e", kind, repr(v), tname, "ok" if o.ok else o.excname))
            if o.ok:
                res.nontrivial.add(h64("e", kind, repr(v), tname))
            exp = m.val if tcls is str else tcls(m.val.encode("utf-8"))
            r = call(read_back, kind, o.val if (o.ok and tcls is str) else (bytes(o.val).decode() if o.ok else ""))
            ok = o.ok and type(o.val) is tcls and o.val == exp and (kind == "timedelta" and v == datetime.timedelta(0) or (r.ok and same(r.val, v)))
            if not ok:
                res.violation(f"C04/e-temporal-to-text/{kind}->{tname}/{'raises:' + o.excname if not o.ok else 'value'}/{feat(v)}",
                              f"unmarshal({tname}, {v!r}) -> {short(o.val if o.ok else o.exc, 80)}, expected the ISO text {exp!r}", {"clause": "e"})


def clause_f(tier, res):
    """warm the caches with an equal-but-differently-represented twin, then ask for the value itself."""
    twins = []
    for v in datetimes(tier)[::4]:
        for o2 in (0, 120, -330):
            try:
                twins.append(("datetime", v.astimezone(tz(o2)), v))
            except (OverflowError, ValueError):
                pass
    for v in times(tier)[::6]:
        # equal times: same UTC instant of day, other offset
        dt = datetime.datetime.combine(datetime.date(2020, 1, 15), v)
        w = dt.astimezone(tz(60)).timetz()
        if w == v:
            twins.append(("time", w, v))
    twins += [("timedelta-sub", None, None)]
    nums = [(D("1.0"), D("1")), (D("1.00"), D("1.0")), (1, 1.0), (1.0, 1), (True, 1), (1, True), (F(1, 2), 0.5), (0.5, F(1, 2)), (D("0.5"), 0.5), (0, False), (0.0, 0), (-0.0, 0.0)]
    for kind, twin, v in twins:
        if twin is None:
            continue
        for opname, op in (("marshal", lambda x: typelib.marshal(x)), ("to-str", lambda x: typelib.unmarshal(str, x)), ("to-bytes", lambda x: typelib.unmarshal(bytes, x))):
            cold.clear_all()
            cold_out = call(op, v)
            cold.clear_all()
            call(op, twin)
            warm = call(op, v)
            res.evals += 3
            res.outcomes.add(h64("f", kind, repr(v), repr(twin), opname))
            res.nontrivial.add(h64("f", kind, repr(v), opname))
            if cold_out.ok != warm.ok or (warm.ok and not same(warm.val, cold_out.val)):
                res.violation(f"C04/f-warm-cache/{kind}/{opname}/answers-with-the-twin's-representation",
                              f"{opname}({v!r}) = {short(cold_out.val, 60)} cold, but {short(warm.val if warm.ok else warm.exc, 60)} after {opname}({twin!r})", {"clause": "f"})
    for twin, v in nums:
        for tname, tcls in (("int", int), ("float", float), ("Decimal", D), ("str", str), ("Fraction", F), ("bool", bool)):
            for opname, op in (("unmarshal", lambda x, t=tcls: typelib.unmarshal(t, x)), ("marshal", lambda x, t=tcls: typelib.marshal(x, t=t))):
                cold.clear_all()
                cold_out = call(op, v)
                cold.clear_all()
                call(op, twin)
                warm = call(op, v)
                res.evals += 3
                res.outcomes.add(h64("f-num", repr(v), repr(twin), tname, opname))
                if cold_out.ok != warm.ok or (warm.ok and not same(warm.val, cold_out.val)):
                    res.violation(f"C04/f-warm-cache/number->{tname}/{opname}/answers-with-the-twin's-representation",
                                  f"{opname} {v!r} as {tname} = {short(cold_out.val if cold_out.ok else cold_out.exc, 60)} cold, but {short(warm.val if warm.ok else warm.exc, 60)} after the twin {twin!r}", {"clause": "f"})
    # equal text as str / bytes
    for text, tcls in (("2020-01-01", datetime.date), ("2020-01-01T00:00:00+05:30", datetime.datetime), ("12:00:00+01:00", datetime.time), ("P1DT1S", datetime.timedelta), ("1", int), ("1.5", float), ("[1, 2]", list)):
        for first, second in (("str", "bytes"), ("bytes", "str")):
            cold.clear_all()
            cold_out = _um(tcls, inputs.carry(text, second))
            cold.clear_all()
            _um(tcls, inputs.carry(text, first))
            warm = _um(tcls, inputs.carry(text, second))
            res.evals += 3
            if cold_out.ok != warm.ok or (warm.ok and not same(warm.val, cold_out.val)):
                res.violation(f"C04/f-warm-cache/text-{first}-then-{second}/{tcls.__name__}", f"unmarshal({tcls.__name__}, {text!r} as {second}) differs after the {first} twin", {"clause": "f"})


def sweep_dates(part, res):
    d0 = datetime.date(1, 1, 1).toordinal()
    d1 = datetime.date(9999, 12, 31).toordinal()
    m = typelib.marshaller(datetime.date)
    u = typelib.unmarshaller(datetime.date)
    n = 0
    for o in range(d0 + part, d1 + 1, 64):
        v = datetime.date.fromordinal(o)
        try:
            text = m(v)
            back = u(text)
            ok = type(text) is str and datetime.date.fromisoformat(text) == v and type(back) is datetime.date and back == v
        except Exception as e:  # noqa: BLE001
            ok, text, back = False, repr(e), None
        n += 1
        if not ok:
            res.violation("C04/sweep/date", f"date {v!r}: marshal={text!r} unmarshal={back!r}", {"clause": "sweep-dates", "part": part})
        if n % 5000 == 0:
            cold.clear_all()
    res.evals += 2 * n
    res.states.add(h64("sweep-dates", part, n))
    res.hit("sweep:dates", n)


def sweep_offsets(part, res):
    n = 0
    base_dt = [datetime.datetime(1970, 1, 2, 0, 0), datetime.datetime(2020, 2, 29, 23, 59, 59, 999999), datetime.datetime(5000, 6, 15, 12, 0, 0, 1)]
    base_t = [datetime.time(0, 0), datetime.time(23, 59, 59, 999999)]
    for off in range(-1439 + part, 1440, 8):
        z = tz(off)
        for b in base_dt:
            v = b.replace(tzinfo=z)
            text = call(typelib.marshal, v)
            back = _um(datetime.datetime, text.val) if text.ok else text
            n += 2
            if not (back.ok and same(back.val, v) and datetime.datetime.fromisoformat(text.val) == v and datetime.datetime.fromisoformat(text.val).utcoffset() == v.utcoffset()):
                res.violation(f"C04/sweep/offset/datetime/{'utc' if off == 0 else 'non-utc'}", f"datetime {v!r}: text={short(text.val if text.ok else text.exc, 60)} back={short(back.val if back.ok else back.exc, 80)}", {"clause": "sweep-offsets", "part": part})
        for b in base_t:
            v = b.replace(tzinfo=z)
            text = call(typelib.marshal, v)
            back = _um(datetime.time, text.val) if text.ok else text
            n += 2
            if not (back.ok and same(back.val, v)):
                res.violation(f"C04/sweep/offset/time/{'utc' if off == 0 else 'non-utc'}", f"time {v!r}: text={short(text.val if text.ok else text.exc, 60)} back={short(back.val if back.ok else back.exc, 80)}", {"clause": "sweep-offsets", "part": part})
    res.evals += n
    res.hit("sweep:offsets", n)


def sweep_seconds(part, res):
    n = 0
    for s in range(part, 86400, 16):
        for us in (0, 1, 999999):
            v = datetime.time(s // 3600, (s // 60) % 60, s % 60, us, tzinfo=UTC)
            text = call(typelib.marshal, v)
            back = _um(datetime.time, text.val) if text.ok else text
            n += 2
            if not (back.ok and same(back.val, v)):
                res.violation("C04/sweep/second-of-day/time", f"time {v!r}: text={short(text.val if text.ok else text.exc, 60)} back={short(back.val if back.ok else back.exc, 80)}", {"clause": "sweep-seconds", "part": part})
            d = datetime.timedelta(seconds=s, microseconds=us)
            text = call(typelib.marshal, d)
            back = _um(datetime.timedelta, text.val) if text.ok else text
            n += 2
            if not (back.ok and same(back.val, d)):
                res.violation("C04/sweep/second-of-day/timedelta", f"timedelta {d!r}: text={short(text.val if text.ok else text.exc, 60)} back={short(back.val if back.ok else back.exc, 80)}", {"clause": "sweep-seconds", "part": part})
        if s % 4000 < 16:
            cold.clear_all()
    res.evals += n
    res.hit("sweep:seconds", n)


def run_unit(unit, tier, res, only=None):
    clause, name, part = unit
    cold.clear_all()
    prelude.prelude()
    res.programs += 1
    if clause == "a":
        clause_a(name, tier, res, only)
    elif clause == "a-enum":
        clause_a_enum(name, tier, res)
    elif clause == "a-td":
        clause_a_td(part, tier, res)
    elif clause == "b":
        clause_b(name, part, tier, res)
    elif clause == "c":
        clause_c(name, tier, res)
    elif clause == "d":
        clause_d(name, tier, res)
    elif clause == "e":
        clause_e(tier, res)
    elif clause == "f":
        clause_f(tier, res)
    elif clause == "sweep-dates":
        sweep_dates(part, res)
    elif clause == "sweep-offsets":
        sweep_offsets(part, res)
    elif clause == "sweep-seconds":
        sweep_seconds(part, res)
    if len(res.samples) < 4:
        res.samples.append({"clause": clause, "subject": name, "part": part})


def replay(case, tier, res):
    c = case["clause"]
    if c == "a":
        run_unit(("a", case["name"], 0), tier, res, only=case.get("only"))
    elif c == "a-enum":
        run_unit(("a-enum", case["name"], 0), tier, res)
    elif c in ("a-td",):
        run_unit(("a-td", "timedelta", case["part"]), tier, res)
    elif c == "b":
        run_unit(("b", case["name"], case["part"]), tier, res)
    elif c in ("c", "d"):
        run_unit((c, case["tz"], 0), tier, res)
    elif c in ("e", "f"):
        run_unit((c, "all", 0), tier, res)
    else:
        run_unit((c, "", case["part"]), tier, res)
