"""C16 - TypeContext lookups see through aliases and references.

Explicit-state BFS on the REAL typelib.ctx.TypeContext against refmodel.ctxmodel (a write-once dict + fallbacks).
A state is represented by a shortest history (tuple of (op, key index)) and rebuilt by replaying that history
on a fresh TypeContext, so a probe never perturbs the explored state. State identity = (keys stored by the
user, canonical dict contents incl. memoised alias keys); the memo is explored, never observed.

Base types (letters in the unit descriptors): p = plain top-level class, n = class nested in another class
(key Outer1.B1, named by ForwardRef('Outer1.B1', module)), g = bare user-defined typing.Generic subclass.

Units
  ("closure", "pn"), ("closure", "pg")   complete reachable state space (fixpoint, histories of ANY length), 2 bases x 6 forms
  ("order", "p"|"n"|"g")   fixpoint, 1 base x (6 forms + forward references naming the NewType / the aliases): the
                           only keys for which "unwrapped form before forward reference naming it" is observable
  ("dictlike", "p")        fixpoint, 1 base; in every state a key whose hash raises must behave as on a plain dict
  ("depth", "png", "root") 3 bases: the empty state
  ("depth", "png", i)      3 bases: BFS from [insert key i] to the tier's depth (all histories up to that length)
"""
from __future__ import annotations

import operator
import re
import typing

import typelib  # noqa: F401  (imports every module owning a memo cache before cold.find_caches runs)
from typelib import ctx as tlctx
from typelib.py import refs

from ..kernel import cold
from ..kernel.guard import call
from ..kernel.runner import h64
from ..refmodel import ctxmodel
from ..refmodel.ctxmodel import KEYERROR
from ..universe.prelude import mkmod

ID = "C16"
STATEFUL = True

FORMS = ("base", "newtype", "alias", "stralias", "final", "fwdref")
EXTRA = ("fwdref_newtype", "fwdref_alias", "fwdref_stralias")  # "order" unit only
# "chains" unit only: wrappers of wrappers (the unwrapped form is reached through two steps, in both nesting orders)
CHAIN_FORMS = ("base", "nt_final", "nt_alias", "nt_stralias", "nt_nt", "final_nt", "alias_nt", "alias_final", "classvar", "fwdref")
# "falsy" unit only: the stored values are falsy objects, pairwise unequal (a dict stores any value; None is not "absent")
FALSY = (None, 0, "", (), frozenset(), b"")
DEPTH3 = {"quick": 4, "thorough": 6}
CLOSURE_CAP = 400_000  # states; the closure runs must end by exhaustion, not by this cap
VIOL_CAP = 300  # violations analysed per unit (each is minimised); beyond it the unit stops
LOOKUPS = ("getitem", "get")


class _Default:
    def __repr__(self):
        return "<default>"


DEFAULT = _Default()
DEFAULT_OUT = ("default",)


# ----------------------------------------------------------------------------------------------- key family
KINDS = {"p": "plain", "n": "nested", "g": "generic", "s": "subscripted"}  # s = list[<previous base>] (a key that is not a class)


def _base_src(kind, i):
    """-> (source lines defining base i, expression denoting it, the text a forward reference naming it must carry)."""
    if kind == "plain":
        return [f"class B{i}: pass"], f"B{i}", f"B{i}"
    if kind == "nested":
        return [f"class Outer{i}:", f"    class B{i}: pass"], f"Outer{i}.B{i}", f"Outer{i}.B{i}"
    if kind == "generic":
        return [f'T{i} = typing.TypeVar("T{i}")', f"class B{i}(typing.Generic[T{i}]): pass"], f"B{i}", f"B{i}"
    if kind == "subscripted":
        assert i >= 1, "a subscripted base is list[<previous base>]"
        return [], f"list[B{i - 1}]", f"list[B{i - 1}]"
    raise ValueError(kind)


class Family:
    def __init__(self, kinds: str, extended: bool = False):
        self.kinds = kinds
        self.kind_of = [KINDS[c] for c in kinds]
        self.nb = nb = len(kinds)
        self.extended = extended
        self.tag = "b" + kinds + ({False: "", True: "x"}.get(extended) if isinstance(extended, bool) else "-" + extended)
        self.modname = "tlg_c16_" + self.tag.replace("-", "_")
        self.forms = CHAIN_FORMS if extended == "chains" else FORMS + (EXTRA if extended is True else ())
        src, exprs, names = ["import typing"], [], []
        for i, kind in enumerate(self.kind_of):
            lines, expr, name = _base_src(kind, i)
            exprs.append(expr)
            names.append(name)
            src += lines + [
                f'NB{i} = typing.NewType("NB{i}", {expr})',
                f'AB{i} = typing.TypeAliasType("AB{i}", {expr})',
                f'SB{i} = typing.TypeAliasType("SB{i}", "{name}")',
                f"FB{i} = typing.Final[{expr}]",
                f'NFB{i} = typing.NewType("NFB{i}", FB{i})',
                f'NAB{i} = typing.NewType("NAB{i}", AB{i})',
                f'NSB{i} = typing.NewType("NSB{i}", SB{i})',
                f'NNB{i} = typing.NewType("NNB{i}", NB{i})',
                f"FNB{i} = typing.Final[NB{i}]",
                f'ANB{i} = typing.TypeAliasType("ANB{i}", NB{i})',
                f'AFB{i} = typing.TypeAliasType("AFB{i}", FB{i})',
                f"CB{i} = typing.ClassVar[{expr}]",
            ]
        self.src = "\n".join(src) + "\n"
        self.mod = m = mkmod(self.modname, self.src)
        self.keys, self.labels, self.form_of, self.base_of = [], [], [], []
        for i in range(nb):
            base = eval(exprs[i], m.__dict__)  # noqa: S307 - our own synthesised source
            assert self.kind_of[i] == "subscripted" or (isinstance(base, type) and base.__qualname__ == names[i] and base.__module__ == self.modname)
            per = {
                "base": base,
                "newtype": getattr(m, f"NB{i}"),
                "alias": getattr(m, f"AB{i}"),
                "stralias": getattr(m, f"SB{i}"),
                "final": getattr(m, f"FB{i}"),
                # built with typing.ForwardRef itself (the harness does not ask the library under test for its keys); never evaluated
                # (checked by fresh_refs_ok)
                "fwdref": typing.ForwardRef(names[i], module=self.modname, is_class=True),
                "fwdref_newtype": typing.ForwardRef(f"NB{i}", module=self.modname, is_class=True),
                "fwdref_alias": typing.ForwardRef(f"AB{i}", module=self.modname, is_class=True),
                "fwdref_stralias": typing.ForwardRef(f"SB{i}", module=self.modname, is_class=True),
                "nt_final": getattr(m, f"NFB{i}"),
                "nt_alias": getattr(m, f"NAB{i}"),
                "nt_stralias": getattr(m, f"NSB{i}"),
                "nt_nt": getattr(m, f"NNB{i}"),
                "final_nt": getattr(m, f"FNB{i}"),
                "alias_nt": getattr(m, f"ANB{i}"),
                "alias_final": getattr(m, f"AFB{i}"),
                "classvar": getattr(m, f"CB{i}"),
            }
            # the family's "ForwardRef to it" is the reference whose text evaluates to the base in its module
            assert per["fwdref"].__forward_arg__ == names[i] and eval(per["fwdref"].__forward_arg__, m.__dict__) == base  # noqa: S307
            for f in self.forms:
                self.keys.append(per[f])
                self.labels.append(f"{f}{i}")
                self.form_of.append(f)
                self.base_of.append(i)
        self.nf = len(self.forms)
        self.nk = len(self.keys)
        self.label2ki = {lb: i for i, lb in enumerate(self.labels)}
        self.keylabel = {k: lb for k, lb in zip(self.keys, self.labels)}
        self.idlabel = {id(k): lb for k, lb in zip(self.keys, self.labels)}  # fast path for the family's own objects
        self.tokens = ["v:" + lb for lb in self.labels]
        if extended == "falsy":
            assert self.nk <= len(FALSY)
            self.tokens = list(FALSY[: self.nk])
        # harness self-checks: the family is what the property says it is
        assert len(self.keylabel) == self.nk, "family keys collide"
        for k, f in zip(self.keys, self.form_of):
            if f in ("newtype", "alias", "stralias"):
                assert k.__module__ == self.modname, (k, k.__module__)
            if f.startswith("fwdref"):
                assert k == typing.ForwardRef(k.__forward_arg__, module=self.modname) and k.__forward_module__ == self.modname

    def fresh_refs_ok(self) -> bool:
        return all(not k.__forward_evaluated__ for k in self.keys if isinstance(k, typing.ForwardRef))

    def label(self, k) -> str:
        lb = self.idlabel.get(id(k)) or self.keylabel.get(k)
        return lb if lb is not None else "?" + re.sub(r" at 0x[0-9a-fA-F]+", "", repr(k))


_FAMILIES: dict[tuple, Family] = {}


def family(kinds, extended=False) -> Family:
    key = (kinds, extended)
    if key not in _FAMILIES:
        _FAMILIES[key] = Family(kinds, extended)
    return _FAMILIES[key]


# ------------------------------------------------------------------------------- operations on the real code
def apply(c, fam, op, ki):
    k = fam.keys[ki]
    if op == "getitem":
        return call(operator.getitem, c, k)
    if op == "get":
        return call(c.get, k, DEFAULT)
    if op == "in":
        return call(operator.contains, c, k)
    if op == "ins":
        return call(operator.setitem, c, k, fam.tokens[ki])
    raise ValueError(op)


def probe(c, fam, op, ki):
    """One lookup operation on the real code, outcome in canonical form (same classification as got_of(apply(...)))."""
    k = fam.keys[ki]
    try:
        if op == "getitem":
            return ("hit", c[k])
        if op == "get":
            v = c.get(k, DEFAULT)
            return DEFAULT_OUT if v is DEFAULT else ("hit", v)
        if op == "in":
            return ("bool", k in c)
    except KeyError as e:
        return KEYERROR if op != "get" else ("raises", type(e).__name__)
    except Exception as e:  # noqa: BLE001
        return ("raises", type(e).__name__)
    raise ValueError(op)


def rebuild(fam, hist):
    """Fresh TypeContext, history replayed (outcomes of replayed operations were judged in the parent states)."""
    c = tlctx.TypeContext()
    keys, tokens = fam.keys, fam.tokens
    for op, ki in hist:
        try:
            if op == "ins":
                c[keys[ki]] = tokens[ki]
            elif op == "getitem":
                c[keys[ki]]
            elif op == "get":
                c.get(keys[ki], DEFAULT)
            else:
                keys[ki] in c
        except Exception:  # noqa: BLE001
            pass
    return c


def _vrepr(v):
    return v if isinstance(v, str) else "!" + re.sub(r" at 0x[0-9a-fA-F]+", "", repr(v))


def _canon_attr(fam, v, _d=0):
    if _d > 4:
        return "..."
    if isinstance(v, (set, frozenset)):
        return "{" + ",".join(sorted(_canon_attr(fam, x, _d + 1) for x in v)) + "}"
    if isinstance(v, (list, tuple)):
        return "[" + ",".join(_canon_attr(fam, x, _d + 1) for x in v) + "]"
    if isinstance(v, dict):
        return "{" + ",".join(sorted(_canon_attr(fam, k, _d + 1) + ":" + _canon_attr(fam, x, _d + 1) for k, x in v.items())) + "}"
    try:
        return fam.label(v)
    except Exception:  # noqa: BLE001
        return _vrepr(v)


def snap(fam, c):
    """Canonical state of the context: stored keys and memoised alias keys as sorted (label, value) pairs, plus - should the
    implementation keep any - the instance attributes (state outside the mapping must not be merged away by the abstraction)."""
    base = tuple(sorted((fam.label(k), _vrepr(v)) for k, v in dict.items(c)))
    extra = getattr(c, "__dict__", None)
    if extra:
        base += tuple(sorted(("@" + str(n), _canon_attr(fam, v)) for n, v in extra.items()))
    return base


def stored_of(hist):
    return frozenset(ki for op, ki in hist if op == "ins")


def sid(fam, stored, sn):
    """State identity inside one exploration (hashed to 64 bits only when reported in res.states)."""
    return (tuple(sorted(stored)), sn)


def state_hash(fam, key):
    return h64(fam.tag, ",".join(map(str, key[0])), ";".join(lb + "=" + v for lb, v in key[1]))


def got_of(op, out):
    if not out.ok:
        if op != "get" and isinstance(out.exc, KeyError):
            return KEYERROR
        return ("raises", out.excname)
    if op == "get" and out.val is DEFAULT:
        return DEFAULT_OUT
    if op == "in":
        return ("bool", out.val)
    return ("hit", out.val)


def valid(fam, hist, probe=None):
    st = set()
    ops = list(hist)
    if probe is not None:
        ops += [(probe[1], probe[2])] if probe[0] == "later" else [(probe[0], probe[1])]
    for op, ki in ops:
        if op == "ins":
            if ki in st:
                return False
            st.add(ki)
        elif op == "in" and ki not in st:
            return False
    return True


# --------------------------------------------------------------------------------------------------- oracle
def make_model(fam, stored):
    return ctxmodel.CtxModel((fam.keys[j], fam.tokens[j]) for j in sorted(stored))


def rel(fam, ki, o):
    """An outcome described relative to the looked-up key (abstracts the concrete base)."""
    if o == KEYERROR:
        return "KeyError"
    if o == DEFAULT_OUT:
        return "default"
    if o[0] == "raises":
        return "raises-" + o[1]
    if o[0] == "bool":
        return str(o[1])
    v = o[1]
    kj = None
    if isinstance(v, str) and v[:2] == "v:" and v[2:] in fam.label2ki:
        kj = fam.label2ki[v[2:]]
    elif fam.extended == "falsy":
        kj = next((j for j, t in enumerate(fam.tokens) if type(t) is type(v) and t == v), None)
    if kj is not None:
        if kj == ki:
            return "own-value"
        return ("value-of-" if fam.base_of[kj] == fam.base_of[ki] else "value-of-other-base-") + fam.form_of[kj]
    return "foreign-value"


def judge_lookup(fam, model, op, ki, got):
    """-> (mode | None, model path, agreed with the primary reading)."""
    k = fam.keys[ki]
    exp, path = model.lookup(k)
    adm = model.admissible(k)
    if op == "get":
        exp = DEFAULT_OUT if exp == KEYERROR else exp
        adm = {DEFAULT_OUT if o == KEYERROR else o for o in adm}
    if got in adm:
        return None, path, got == exp
    if got[0] == "raises":
        mode = f"{rel(fam, ki, got)}:expected-{path}"
    elif exp[0] == "hit" and got[0] == "hit":
        mode = f"wrong-value:expected-{path}-got-{rel(fam, ki, got)}"
    elif exp[0] == "hit":
        mode = f"lost:expected-{path}-got-{rel(fam, ki, got)}"
    else:
        mode = f"phantom:expected-{rel(fam, ki, exp)}-got-{rel(fam, ki, got)}"
    return mode, path, False


def run_probe(fam, hist, probe):
    """Re-judge one probe in the state reached by `hist` (cold library state). -> (mode | None, detail)."""
    cold.clear_all()
    stored = stored_of(hist)
    model = make_model(fam, stored)
    kind = probe[0]
    if kind in LOOKUPS:
        ki = probe[1]
        got = got_of(kind, apply(rebuild(fam, hist), fam, kind, ki))
        mode, path, _ = judge_lookup(fam, model, kind, ki, got)
        return mode, f"model: {model.lookup(fam.keys[ki])[0]} via {path}; got {got}"
    if kind == "in":
        got = got_of("in", apply(rebuild(fam, hist), fam, "in", probe[1]))
        return (None if got == ("bool", True) else "stored-key-not-contained:" + rel(fam, probe[1], got)), f"got {got}"
    if kind == "ins":
        ki = probe[1]
        c = rebuild(fam, hist)
        out = apply(c, fam, "ins", ki)
        if not out.ok:
            return "insert-raises-" + out.excname, repr(out)
        got = got_of("getitem", apply(c, fam, "getitem", ki))
        if got != ("hit", fam.tokens[ki]):
            return "not-found-under-itself:got-" + rel(fam, ki, got), f"got {got}"
        return None, ""
    if kind == "later":
        _, op, ki, kj = probe
        before = got_of("getitem", apply(rebuild(fam, hist), fam, "getitem", kj))
        after = got_of("getitem", apply(rebuild(fam, hist + ((op, ki),)), fam, "getitem", kj))
        if before != after:
            same = "same-key" if ki == kj else ("same-base-" if fam.base_of[ki] == fam.base_of[kj] else "other-base-") + fam.form_of[kj]
            return f"changed:{same}:{rel(fam, kj, before)}->{rel(fam, kj, after)}", f"before {before}, after {after}"
        return None, ""
    if kind == "hostile":
        return _hostile_probe(fam, hist, probe[1])
    raise ValueError(probe)


def minimise(fam, hist, probe, mode):
    """Greedy 1-minimal witness: drop operations while the same probe fails in the same mode."""
    hist = tuple(hist)
    changed = True
    while changed:
        changed = False
        for i in range(len(hist)):
            h2 = hist[:i] + hist[i + 1:]
            if valid(fam, h2, probe) and run_probe(fam, h2, probe)[0] == mode:
                hist, changed = h2, True
                break
    return hist


def _fmt_probe(fam, probe):
    if probe[0] == "later":
        return ["later", probe[1], fam.labels[probe[2]], fam.labels[probe[3]]]
    if probe[0] == "hostile":
        return ["hostile", probe[1]]
    return [probe[0], fam.labels[probe[1]]]


def _parse_probe(fam, p):
    if p[0] == "later":
        return ("later", p[1], fam.label2ki[p[2]], fam.label2ki[p[3]])
    if p[0] == "hostile":
        return ("hostile", p[1])
    return (p[0], fam.label2ki[p[1]])


def _kind_tag(fam, hmin, probe, mode, base):
    """'@nested' / '@generic' when the fault is specific to that kind of base: the same witness on a family of the same
    shape whose bases are all plain classes does not fail in the same mode. Faults that do not depend on the kind of
    base therefore land in the same cell whatever base exhibited them."""
    if base is None or fam.kind_of[base] == "plain":
        return ""
    ref = family("p" * fam.nb, fam.extended)  # same labels / indices
    if run_probe(ref, hmin, probe)[0] == mode:
        return ""
    return "@" + fam.kind_of[base]


def report(fam, hist, probe, mode, res, X):
    """Minimise, build the signature from the minimal witness, record."""
    X["viol"] = X.get("viol", 0) + 1
    if X["viol"] > VIOL_CAP:
        # a gross fault (e.g. every miss recursing to the interpreter limit): stop exploring this unit
        res.hit("violations-beyond-per-unit-analysis-cap")
        if not X.get("abort"):
            X["abort"] = True
            res.caps.append(f"more than {VIOL_CAP} violations in one unit: exploration of that unit stopped early")
        return
    hmin = minimise(fam, hist, probe, mode)
    _, detail = run_probe(fam, hmin, probe)
    if probe[0] == "hostile":
        op, form, base = probe[1], "hostile-hash-key", None
    elif probe[0] == "later":
        op, form, base = "later-lookup-after-" + probe[1], fam.form_of[probe[2]], fam.base_of[probe[2]]
    else:
        op, form, base = probe[0], fam.form_of[probe[1]], fam.base_of[probe[1]]
    form += _kind_tag(fam, hmin, probe, mode, base)
    st = stored_of(hmin)
    own = sorted({fam.form_of[j] for j in st if fam.base_of[j] == base})
    other = sorted({fam.form_of[j] for j in st if fam.base_of[j] != base})
    looked = sorted({fam.form_of[j] for o, j in hmin if o != "ins"})
    feat = "stored={" + ",".join(own) + "}"
    if other:
        feat += "+other={" + ",".join(other) + "}"
    if looked:
        feat += "+after-lookup={" + ",".join(looked) + "}"
    sig = f"C16/{op}/{form}/{mode}/{feat}"
    hj = [[o, fam.labels[j]] for o, j in hmin]
    bases = ", ".join(f"{i}={k}" for i, k in enumerate(fam.kind_of))
    what = f"bases {bases}; history {hj or '[] (empty context)'}, then {_fmt_probe(fam, probe)}: {mode}; {detail}"
    res.violation(sig, what, {"kinds": fam.kinds, "extended": fam.extended, "history": hj, "probe": _fmt_probe(fam, probe)})


# ---------------------------------------------------------------------------------------------- exploration
def _unperturbed(c, items0):
    """The probe left the context exactly as it was (same keys, values, order, no instance attributes)."""
    return list(dict.items(c)) == items0 and not vars(c)


def process_state(fam, hist, res, X, skip_inserts=False):
    """Judge every operation of the alphabet in the state reached by `hist`; -> successors [(op, ki), stored', snap'].
    Every probe runs on a context that is the replayed history and nothing else: a copy is reused for the next
    probe only if the previous probe verifiably left it untouched, otherwise it is rebuilt."""
    cold.clear_all()
    cov = X["cov"]
    stored = stored_of(hist)
    model = make_model(fam, stored)
    c = rebuild(fam, hist)
    items0 = list(dict.items(c))
    s0 = snap(fam, c)
    memo_labels = {lb for lb, _ in s0}
    outs = X["outs"]
    own = [tuple(sorted(fam.form_of[j] for j in stored if fam.base_of[j] == b)) for b in range(fam.nb)]
    succs, vec, moved = [], [], {}
    for ki in range(fam.nk):
        exp, path = model.lookup(fam.keys[ki])
        for op in LOOKUPS:
            got = probe(c, fam, op, ki)
            res.evals += 1
            # abstract (case, outcome): operation, key form, model path, forms stored for the same base, memoised or not
            outs.add((op, fam.form_of[ki], path, own[fam.base_of[ki]], fam.labels[ki] in memo_labels))
            if got != (DEFAULT_OUT if op == "get" and exp == KEYERROR else exp):
                # not the primary reading: the full admissible-set judgement
                mode, _, _ = judge_lookup(fam, model, op, ki, got)
                if mode is not None:
                    report(fam, hist, (op, ki), mode, res, X)
                else:
                    cov["agrees-with-alternative-reading-only"] = cov.get("agrees-with-alternative-reading-only", 0) + 1
            key = op + ":" + path
            cov[key] = cov.get(key, 0) + 1
            if op == "getitem":
                vec.append(got)
            if not _unperturbed(c, items0):
                s1 = snap(fam, c)
                if s1 != s0:
                    key = op + ":memoised:" + path
                    cov[key] = cov.get(key, 0) + 1
                    moved.setdefault(s1, (op, ki))
                    succs.append(((op, ki), stored, s1))
                c = rebuild(fam, hist)
        if ki in stored:
            got = probe(c, fam, "in", ki)
            res.evals += 1
            cov["in:stored"] = cov.get("in:stored", 0) + 1
            if got != ("bool", True):
                report(fam, hist, ("in", ki), "stored-key-not-contained:" + rel(fam, ki, got), res, X)
            if not _unperturbed(c, items0):
                s1 = snap(fam, c)
                if s1 != s0:
                    moved.setdefault(s1, ("in", ki))
                    succs.append((("in", ki), stored, s1))
                c = rebuild(fam, hist)
        elif not skip_inserts:
            out = apply(c, fam, "ins", ki)
            res.evals += 1
            key = "insert:over-memo" if fam.labels[ki] in memo_labels else "insert:fresh"
            cov[key] = cov.get(key, 0) + 1
            bad = None
            if not out.ok:
                bad = "insert-raises-" + out.excname
            else:
                got = probe(c, fam, "getitem", ki)
                if got != ("hit", fam.tokens[ki]):
                    bad = "not-found-under-itself:got-" + rel(fam, ki, got)
            if bad:
                report(fam, hist, ("ins", ki), bad, res, X)
            succs.append((("ins", ki), stored | {ki}, snap(fam, c)))
            c = rebuild(fam, hist)
    # "a lookup never changes the result of any later lookup": for every lookup that moved the state (memoised),
    # the lookup vector of the state it leads to must equal this state's; compared when that state has been probed
    vec = tuple(vec)
    X["vec"][sid(fam, stored, s0)] = vec
    for s1, (op, ki) in moved.items():
        X["pending"].append((hist, op, ki, sid(fam, stored, s1), vec))
    return succs


def lookup_vector(fam, hist):
    """getitem on every key in the state reached by `hist` (each on an unperturbed copy)."""
    cold.clear_all()
    c = rebuild(fam, hist)
    items = list(dict.items(c))
    vec = []
    for kj in range(fam.nk):
        vec.append(probe(c, fam, "getitem", kj))
        if not _unperturbed(c, items):
            c = rebuild(fam, hist)
    return tuple(vec)


def settle_later(fam, res, X, final=False, maxdepth=None):
    """Compare lookup vectors across every recorded state-changing lookup whose target state has been probed
    (final: probe the remaining targets now, except those that lie beyond the depth bound)."""
    keep = []
    for item in X["pending"]:
        hist, op, ki, sid1, vec0 = item
        vec1 = X["vec"].get(sid1)
        if vec1 is None:
            if X.get("abort"):
                continue
            if not final:
                keep.append(item)
                continue
            if maxdepth is not None and len(hist) >= maxdepth:
                key = "later-lookup-beyond-depth-bound-not-compared"
                X["cov"][key] = X["cov"].get(key, 0) + 1
                continue
            vec1 = X["vec"][sid1] = lookup_vector(fam, hist + ((op, ki),))
            res.evals += fam.nk
        X["cov"]["later-lookup-compared"] = X["cov"].get("later-lookup-compared", 0) + fam.nk
        if vec1 != vec0:
            for kj in range(fam.nk):
                if vec1[kj] != vec0[kj]:
                    mode, _ = run_probe(fam, hist, ("later", op, ki, kj))  # re-judged on this very history
                    if mode:
                        report(fam, hist, ("later", op, ki, kj), mode, res, X)
    X["pending"] = keep


def explore(fam, roots, maxdepth, res, X, cap=None, skip_root_inserts=False, per_state=None):
    """Level-by-level BFS over state hashes. maxdepth=None: run to the fixpoint. -> (fixpoint reached, levels, states)."""
    X.setdefault("vec", {})
    X.setdefault("pending", [])
    seen = set()
    level = []
    for h in roots:
        i = sid(fam, stored_of(h), snap(fam, rebuild(fam, h)))
        if i not in seen:
            seen.add(i)
            level.append(tuple(h))
    depth = 0
    fix = True
    while level:
        nxt = []
        for h in level:
            if X.get("abort"):
                fix, nxt = False, []
                break
            succs = process_state(fam, h, res, X, skip_inserts=skip_root_inserts and not h)
            res.programs += 1
            if per_state is not None:
                per_state(fam, h, res, X)
            if maxdepth is not None and len(h) >= maxdepth:
                continue
            for opk, st1, s1 in succs:
                i = sid(fam, st1, s1)
                if i not in seen:
                    if cap is not None and len(seen) >= cap:
                        fix = False
                        if not X.get("capped"):
                            X["capped"] = True
                            res.caps.append(f"{fam.tag}: state cap {cap} reached before the fixpoint")
                        continue
                    seen.add(i)
                    nxt.append(h + (opk,))
        settle_later(fam, res, X)
        level = nxt
        depth += 1
    settle_later(fam, res, X, final=True, maxdepth=maxdepth)
    res.states.update(state_hash(fam, k) for k in seen)
    if not fam.fresh_refs_ok():
        raise RuntimeError("C16 harness: a family ForwardRef got evaluated; ForwardRef equality is no longer by name/module")
    return fix, depth, len(seen)


# ----------------------------------------------------------------------------- plain-dict likeness (hostile key)
class _HostileMeta(type):
    armed = False

    def __hash__(cls):
        if _HostileMeta.armed:
            raise RuntimeError("hostile hash")
        return type.__hash__(cls)


class Hostile(metaclass=_HostileMeta):
    """A type whose hash raises: a plain dict propagates that from [], get and in."""


def _hostile_ops(c, op):
    if op == "getitem":
        return call(operator.getitem, c, Hostile)
    if op == "get":
        return call(c.get, Hostile, DEFAULT)
    return call(operator.contains, c, Hostile)


def _hostile_probe(fam, hist, op):
    cold.clear_all()
    c = rebuild(fam, hist)
    plain = dict(dict.items(c))
    _HostileMeta.armed = True
    try:
        want, got = _hostile_ops(plain, op), _hostile_ops(c, op)
    finally:
        _HostileMeta.armed = False
    w = ("raises", want.excname) if not want.ok else ("returns",)
    g = ("raises", got.excname) if not got.ok else ("returns",)
    if w != g:
        return f"differs-from-plain-dict:expected-{'-'.join(w)}-got-{'-'.join(g)}", f"plain dict: {want!r}; TypeContext: {got!r}"
    return None, ""


def _hostile_state(fam, hist, res, X):
    for op in ("getitem", "get", "in"):
        mode, _ = _hostile_probe(fam, hist, op)
        res.evals += 1
        X["cov"]["hostile-key:" + op] = X["cov"].get("hostile-key:" + op, 0) + 1
        if mode:
            report(fam, hist, ("hostile", op), mode, res, X)


# ------------------------------------------------------------------------------------------- check contract
def units(tier):
    nk3 = 3 * len(FORMS)
    return (
        [("local-classes", "-"), ("dictlike", "p"), ("closure", "ps"), ("falsy", "p"), ("chains", "p"), ("chains", "n"), ("order", "p"), ("order", "n"), ("order", "g"), ("closure", "pn"), ("closure", "pg"), ("depth", "png", "root")]
        + [("depth", "png", i) for i in range(nk3)]
    )


def meta(tier):
    return {
        "rule": "a state = (keys stored by the user, canonical contents of the real TypeContext incl. memoised alias keys); "
        "explored = every state reachable from the empty context by {insert fresh key, [k], get(k, default), k in ctx (stored k)}; "
        "in every explored state every operation of the alphabet on every key is run on a rebuilt copy and judged against the "
        "reference model, and after every state-changing lookup every key is looked up again and compared with before; "
        "evals = judged operations; programs = states processed (overlaps between units counted again); outcomes = distinct "
        "abstract (operation, key form, model path, forms stored for the same base, key memoised?) cells, non-trivial = "
        "answered through a fallback",
        "bounds": {
            "bases": "p = plain top-level class, n = class nested in a class (qualname 'Outer1.B1'), g = bare typing.Generic subclass",
            "closure": "2 bases x 6 forms, pairings (p,n), (p,g) and (p,s) - s = list[B0], a key that is not a class, next to its own element class: fixpoint each (all histories of any length)",
            "order": "1 base x 9 forms (6 + forward references naming the NewType/alias/string alias), for each of p, n, g: fixpoint",
            "dictlike": "1 base (p) x 6 forms: fixpoint; key with raising hash probed in every state",
            "local-classes": "classes defined one and two function levels deep and a class nested in one, each as itself / NewType / Final (9 keys): every insertion order of every subset of <= 3 keys, every key looked up twice in the final state of each",
            "falsy": "1 base (p) x 6 forms, the stored values are None, 0, '', (), frozenset(), b'' (one per key): fixpoint",
            "chains": "1 base (p, n) x 10 forms: the base, its forward reference, ClassVar[B] and wrappers of wrappers (NewType of Final / alias / string alias / NewType; Final of NewType; alias of NewType / Final): fixpoint",
            "depth": f"3 bases (p,n,g) x 6 forms: every history up to length {DEPTH3[tier]} (last operation probed, not expanded)",
        },
        "assumptions": [
            "behaviour of a TypeContext is a function of its dict contents and the (pure) library memo caches; caches are cleared "
            "before each state is processed, a state is rebuilt by replaying a shortest history on a fresh TypeContext",
            "dict insertion order is not part of the state (contents are hashed sorted)",
            "family ForwardRefs are never evaluated (asserted after each exploration), so equality is by (name, module)",
            "for non-class keys both readings of 'unwrapped form' (string alias -> reference / class) and of 'a forward reference "
            "naming it' (naming the wrapper / naming the wrapped class) are admissible per lookup; consistency across lookups is "
            "enforced separately by the later-lookup comparison",
        ],
        "exhaustive": True,
        "explanation": "memoised alias keys are part of the explored state, never of the observation (no len/keys/iteration, "
        "`in` judged for stored keys only)",
    }


_LOCAL_SRC = """
import typing
def _mk1():
    class L1: pass
    return L1
def _mk2():
    def _inner():
        class L2:
            class In: pass
        return L2
    return _inner()
L1 = _mk1()
L2 = _mk2()
L2In = L2.In
KEYS = {}
for _n, _c in (("L1", L1), ("L2", L2), ("L2In", L2In)):
    KEYS[_n] = _c
    KEYS["NewType(" + _n + ")"] = typing.NewType("N" + _n, _c)
    KEYS["Final[" + _n + "]"] = typing.Final[_c]
UNWRAPPED = {k: (k.split("(")[-1].split("[")[-1].rstrip(")]")) for k in KEYS}
"""


def run_local_classes(res):
    """classes defined inside functions (one and two levels deep, and a class nested in such a class): no reference can name them, so a
    TypeContext is a write-once dict with the unwrapped-form fallback only. Every insertion order of every subset of <= 3 of the 9 keys,
    every lookup of every key after every insertion."""
    import itertools

    m = mkmod("tlg_c16_locals", _LOCAL_SRC)
    keys, unwrapped = m.KEYS, m.UNWRAPPED
    names = list(keys)
    for n in range(0, 4):
        for order in itertools.permutations(names, n):
            # (inserting a wrapper whose unwrapped form is stored is still a fresh key)
            cold.clear_all()
            c = tlctx.TypeContext()
            model = {}
            res.programs += 1
            ok_hist = True
            for step in range(n + 1):
                if step:
                    k = order[step - 1]
                    o = call(operator.setitem, c, keys[k], f"v:{k}")
                    model[k] = f"v:{k}"
                    if not o.ok:
                        res.violation(f"C16/local-class/insert/raises:{o.excname}", f"ctx[{k}] = ... raises {o.exc!r} after inserting {list(order[:step - 1])}", {"kind": "local-classes"})
                        ok_hist = False
                        break
                if step < n:
                    continue  # judge the final state of every history (its prefixes are histories of their own)
                for _round in (0, 1):  # twice: a lookup never changes a later lookup
                    for k in names:
                        want = model.get(k, model.get(unwrapped[k], KEYERROR))
                        g = call(operator.getitem, c, keys[k])
                        d = call(c.get, keys[k], DEFAULT)
                        res.evals += 2
                        got_g = g.val if g.ok else (KEYERROR if isinstance(g.exc, KeyError) else f"raises:{g.excname}")
                        got_d = d.val if d.ok else f"raises:{d.excname}"
                        path = "stored" if k in model else "unwrapped" if unwrapped[k] in model else "absent"
                        res.outcomes.add(h64("local", k, path, str(got_g), _round))
                        if path == "unwrapped":
                            res.nontrivial.add(h64("local", k, tuple(sorted(model))))
                        want_d = DEFAULT if want is KEYERROR else want
                        if got_g != want or got_d is not want_d and got_d != want_d:
                            what = "getitem" if got_g != want else "get"
                            res.violation(f"C16/local-class/{what}/{path}/{'second-round' if _round else 'first-round'}/{got_g if what == 'getitem' and isinstance(got_g, str) and got_g.startswith('raises') else 'differs'}",
                                          f"after inserting {list(order)}: ctx[{k}] -> {got_g!r}, ctx.get({k}, <default>) -> {got_d!r}; reference model: {want!r}", {"kind": "local-classes"})
                            ok_hist = False
                            break
                    if not ok_hist:
                        break
            if not ok_hist:
                return


def run_unit(unit, tier, res):
    if unit[0] == "local-classes":
        run_local_classes(res)
        return
    kind, kinds = unit[0], unit[1]
    X = {"cov": {}, "outs": set()}
    tagu = kind + ":" + kinds
    if kind == "closure":
        fam = family(kinds)
        fix, depth, n = explore(fam, [()], None, res, X, cap=CLOSURE_CAP)
    elif kind == "order":
        fam = family(kinds, extended=True)
        fix, depth, n = explore(fam, [()], None, res, X, cap=CLOSURE_CAP)
    elif kind in ("falsy", "chains"):
        fam = family(kinds, extended=kind)
        fix, depth, n = explore(fam, [()], None, res, X, cap=CLOSURE_CAP)
    elif kind == "dictlike":
        fam = family(kinds)
        fix, depth, n = explore(fam, [()], None, res, X, cap=CLOSURE_CAP, per_state=_hostile_state)
    elif kind == "depth":
        fam = family(kinds)
        first = unit[2]
        if first == "root":
            fix, depth, n = explore(fam, [()], DEPTH3[tier], res, X, skip_root_inserts=True)
        else:
            fix, depth, n = explore(fam, [(("ins", first),)], DEPTH3[tier], res, X)
    else:
        raise ValueError(unit)
    for k, v in X["cov"].items():
        res.hit(f"{tagu}:{k}", v)
    for o in X["outs"]:
        h = h64(fam.tag, *map(str, o))
        res.outcomes.add(h)
        if o[2] in ("unwrapped", "fwdref"):  # non-trivial: answered through a fallback
            res.nontrivial.add(h)
    if kind != "depth":
        res.hit(f"{tagu}:fixpoint-reached" if fix else f"{tagu}:fixpoint-NOT-reached")
        res.hit(f"{tagu}:bfs-levels", depth)
        res.hit(f"{tagu}:states", n)
        if not fix and not X.get("capped"):
            res.caps.append(f"{tagu}: fixpoint not reached")
        res.samples.append({"unit": list(unit), "states": n, "bfs_levels": depth, "fixpoint_reached": fix, "keys": fam.labels})


def replay(case, tier, res):
    if case.get("kind") == "local-classes":
        run_local_classes(res)
        return
    fam = family(case["kinds"], case.get("extended") or False)
    hist = tuple((o, fam.label2ki[lb]) for o, lb in case["history"])
    probe = _parse_probe(fam, case["probe"])
    res.evals += 1
    mode, _ = run_probe(fam, hist, probe)
    if mode:
        report(fam, hist, probe, mode, res, {"cov": {}, "outs": set()})
