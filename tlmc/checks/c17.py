"""C17 - type predicates agree with Python's own type semantics (DESIGN §7 C17, Appendix A).

Unit = one public predicate/accessor of typelib.py.inspection; it is applied to every catalogue entry of
its declared domain and judged on (a) no exception, (b) admissible answer (predoracle), (c) stability
(second call, call after clearing every memo cache), (d) spelling independence on twin entries and, for
`origin`, (e) the origin of a collection annotation is a concrete instantiable class of that kind.
"""
from __future__ import annotations

import datetime
import decimal
import enum
import fractions
import collections.abc as cabc
import numbers
import pathlib
import re
import typing
import uuid

from typelib.py import inspection

from ..kernel import cold
from ..kernel.guard import call
from ..kernel.runner import h64
from ..refmodel import predoracle as O
from ..universe import catalogue as C

ID = "C17"
CHUNKS_PER_WORKER = 1


class Spec:
    __slots__ = ("name", "domain", "expect", "spelling", "kind")

    def __init__(self, name, domain, expect, spelling=False, kind="all"):
        self.name = name
        self.domain = domain
        self.expect = expect
        self.spelling = spelling
        self.kind = kind

    @property
    def fn(self):
        return getattr(inspection, self.name)


def _cv(name, base, extra=None):
    return Spec(name, O.dom_class, O.class_valued(base, extra), spelling=True, kind="class")


TEXT = (str, bytes, bytearray, memoryview)

SPECS = [
    # ---- class-valued, built on origin()
    _cv("isdatetype", datetime.date), _cv("isdatetimetype", datetime.datetime), _cv("istimetype", datetime.time),
    _cv("istimedeltatype", datetime.timedelta), _cv("isdecimaltype", decimal.Decimal),
    _cv("isfractiontype", fractions.Fraction), _cv("isuuidtype", uuid.UUID),
    _cv("isiterabletype", cabc.Iterable), _cv("isiteratortype", cabc.Iterator), _cv("iscollectiontype", cabc.Collection),
    _cv("issequencetype", cabc.Sequence, O._seq_extra), _cv("istupletype", tuple),
    Spec("ismappingtype", O.dom_class, O.exp_ismapping, spelling=True, kind="class"),
    Spec("issubscriptedcollectiontype", O.dom_class, O.exp_issubscriptedcollection, spelling=True, kind="class"),
    # ---- class-valued, built on issubclass of the raw annotation
    _cv("isenumtype", enum.Enum), _cv("istexttype", TEXT), _cv("isstringtype", str),
    _cv("isbytestype", (bytes, bytearray, memoryview)), _cv("isnumbertype", numbers.Number), _cv("isintegertype", int),
    _cv("isfloattype", float), _cv("ispatterntype", re.Pattern), _cv("ispathtype", pathlib.PurePath),
    Spec("isbuiltinsubtype", O.dom_class, O.exp_table_sub(O.BUILTIN_TYPES), spelling=False, kind="class"),
    Spec("isstdlibsubtype", O.dom_class, O.exp_table_sub(O.STDLIB_TYPES), spelling=False, kind="class"),
    # ---- table membership
    Spec("isbuiltintype", O.dom_all_nostr, O.exp_table_member(O.BUILTIN_TYPES), spelling="union"),
    Spec("isstdlibtype", O.dom_all_nostr, O.exp_table_member(O.STDLIB_TYPES), spelling="union"),
    # ---- special forms
    Spec("isoptionaltype", O.dom_all_nostr, O.exp_isoptional, spelling=True),
    Spec("isuniontype", O.dom_all_nostr, O.exp_isunion, spelling=True),
    Spec("isliteral", O.dom_all_nostr, O.exp_isliteral, spelling=True),
    Spec("isfinal", O.dom_all_nostr, O.exp_isfinal, spelling=True),
    Spec("isclassvartype", O.dom_all_nostr, O.exp_isclassvar, spelling=True),
    Spec("should_unwrap", O.dom_all_nostr, O.exp_should_unwrap, spelling=True),
    Spec("isunresolvable", O.dom_all, O.exp_isunresolvable),
    Spec("isnonetype", O.dom_all, O.exp_isnonetype, spelling=True),
    Spec("isforwardref", lambda e: O.dom_all(e) or O.dom_instance(e), O.exp_isforwardref),
    Spec("istypealiastype", O.dom_all, O.exp_istypealiastype),
    Spec("issubscriptedgeneric", O.dom_all_nostr, O.exp_issubscriptedgeneric),
    Spec("isgeneric", O.dom_all_nostr, O.exp_isgeneric),
    Spec("iscallable", O.dom_all_nostr, O.exp_iscallable),
    # ---- structured flavours
    Spec("istypeddict", O.dom_all_nostr, lambda e: O.raw_and_peeled(O._is_typeddict, e), spelling=True),
    Spec("istypedtuple", O.dom_all_nostr, O.exp_istypedtuple, spelling=True),
    Spec("isnamedtuple", O.dom_all_nostr, lambda e: O.raw_and_peeled(O._is_namedtuple, e), spelling=True),
    Spec("isfixedtupletype", O.dom_all_nostr, lambda e: O.raw_and_peeled(O._is_fixedtuple, e), spelling=True),
    Spec("isstructuredtype", O.dom_all_nostr, O.exp_isstructured, spelling=True),
    Spec("isfromdictclass", O.dom_all_nostr, O.exp_isfromdict),
    Spec("isfrozendataclass", O.dom_all_nostr, O.exp_isfrozendataclass),
    Spec("isabstract", lambda e: O.typ(e) and "class" in e.tags, O.exp_isabstract),
    # ---- accessors
    Spec("origin", O.dom_origin, O.exp_origin, spelling=True),
    Spec("args", O.dom_all_nostr, O.exp_args, spelling="args"),
    Spec("name", O.dom_name, O.exp_name),
    Spec("qualname", O.dom_name, O.exp_qualname),
    Spec("unwrap", O.dom_all, O.exp_unwrap),
    Spec("resolve_supertype", O.dom_all, O.exp_resolve_supertype),
    Spec("normalize_typevar", lambda e: O.typ(e) and type(e.obj) is typing.TypeVar, O.exp_normalize_typevar),
    # ---- instance predicates
    Spec("ishashable", O.dom_instance, O.exp_ishashable, kind="instance"),
    Spec("isproperty", O.dom_instance, O.exp_isproperty, kind="instance"),
    Spec("isdescriptor", O.dom_instance, O.exp_isdescriptor, kind="instance"),
    Spec("issimpleattribute", O.dom_instance, O.exp_issimpleattribute, kind="instance"),
    Spec("isbuiltininstance", O.dom_instance, O.exp_isbuiltininstance, kind="instance"),
    Spec("isstdlibinstance", O.dom_instance, O.exp_isstdlibinstance, kind="instance"),
    # ---- signature helpers
    Spec("signature", O.dom_signature, O.exp_signature, spelling=True, kind="sig"),
    Spec("cached_signature", O.dom_signature, O.exp_signature, spelling=True, kind="sig"),
    Spec("get_type_hints", O.dom_hints, O.exp_hints, kind="sig"),
    Spec("cached_type_hints", O.dom_hints, O.exp_hints, kind="sig"),
    Spec("safe_get_params", O.dom_params, O.exp_params, spelling=True, kind="sig"),
    Spec("tuple_signature", O.dom_tuple_signature, O.exp_tuple_signature, spelling=True, kind="sig"),
    Spec("typed_dict_signature", O.dom_td_signature, O.exp_td_signature, kind="sig"),
    Spec("simple_attributes", O.dom_simple_attributes, O.exp_simple_attributes, kind="sig"),
    Spec("cached_simple_attributes", O.dom_simple_attributes, O.exp_simple_attributes, kind="sig"),
]
BY_NAME = {s.name: s for s in SPECS}
assert len(BY_NAME) == len(SPECS)


def units(tier):
    return [s.name for s in SPECS]


def meta(tier):
    cat = C.catalogue(tier)
    return {
        "rule": "every public predicate/accessor of py/inspection.py (one unit each) x every catalogue entry of its declared "
        "domain (DESIGN Appendix A); a case is (predicate, entry label); judged: no exception, admissible answer, stability "
        "(2nd call, call after clearing all memo caches), spelling independence on twin entries, origin() instantiable for "
        "collection annotations; each pair starts from the cold state; reordered twins (distinct objects that are == but list "
        "their members in another order): the answer for Y right after X, without clearing, equals Y's own cold answer "
        "compared with member order, and vice versa",
        "bounds": {"predicates": len(SPECS), "catalogue_entries": len(cat),
                   "base_entries": sum(1 for e in cat if "wrapper" not in e.tags),
                   "wrapper_entries": sum(1 for e in cat if "wrapper" in e.tags),
                   "wrapper_chain_depth": 1 if tier == "quick" else 2,
                   "reordered_twin_pairs": len(C.reordered_pairs(tier))},
        "assumptions": [
            "class-valued predicates are applied only to entries whose resolve() is a class; special forms (unions, Literal, "
            "Final, ClassVar, TypeVar, Callable, Any, ForwardRef, Annotated) are outside their domain",
            "cached predicates are applied to hashable objects only",
            "where docstring / ABC / property wording disagree both answers are admissible (see predoracle)",
        ],
        "exhaustive": True,
        "explanation": "signature = C17/<predicate>/<answer|raises|spelling|stability|origin-instantiable>/<entry kind>[/<exception>]; "
        "entry kinds abstract subscripted generics to 'subscripted:<origin family>', bare typing aliases to 'typing-alias:<family>', "
        "wrapper chains to '<outermost wrapper>:<class|subscripted|typing-alias|special form>', classes with __call__ to "
        "'callable-class' (raises clause); replay case = {pred, entry label}",
    }


# ------------------------------------------------------------------------------------------------
def _eq(a, b) -> bool:
    try:
        if isinstance(a, bool) or isinstance(b, bool):
            return isinstance(a, bool) and isinstance(b, bool) and a == b
        return a is b or bool(a == b)
    except Exception:  # noqa: BLE001
        return False


def _ordered_eq(a, b, _d=0) -> bool:
    """Equality that keeps the member order of Union / Literal / generic arguments (their == ignores it)."""
    import inspect

    if a is b:
        return True
    if _d > 20 or isinstance(a, bool) or isinstance(b, bool):
        return _eq(a, b)
    if isinstance(a, (tuple, list)) and isinstance(b, (tuple, list)):
        return type(a) is type(b) and len(a) == len(b) and all(_ordered_eq(x, y, _d + 1) for x, y in zip(a, b))
    if isinstance(a, inspect.Signature) and isinstance(b, inspect.Signature):
        return _ordered_eq(list(a.parameters.values()), list(b.parameters.values()), _d + 1) and _ordered_eq(
            a.return_annotation, b.return_annotation, _d + 1)
    if isinstance(a, inspect.Parameter) and isinstance(b, inspect.Parameter):
        return (a.name, a.kind) == (b.name, b.kind) and _ordered_eq(a.default, b.default, _d + 1) and _ordered_eq(
            a.annotation, b.annotation, _d + 1)
    if hasattr(a, "keys") and hasattr(b, "keys") and hasattr(a, "values"):
        try:
            return list(a.keys()) == list(b.keys()) and _ordered_eq(list(a.values()), list(b.values()), _d + 1)
        except Exception:  # noqa: BLE001
            return _eq(a, b)
    try:
        aa, ba = typing.get_args(a), typing.get_args(b)
    except Exception:  # noqa: BLE001
        aa = ba = ()
    if aa or ba:
        return _ordered_eq(typing.get_origin(a), typing.get_origin(b), _d + 1) and _ordered_eq(aa, ba, _d + 1)
    return _eq(a, b)


def _short(v, n=90):
    s = repr(v)
    return s if len(s) <= n else s[: n - 3] + "..."


def _show(v, n=90):
    """repr plus the member order where the repr hides it (typing.Optional[int] for both Union[None, int] orders)."""
    a = ()
    try:
        a = typing.get_args(v)
    except Exception:  # noqa: BLE001
        pass
    s = _short(v, n)
    return f"{s} [members: {', '.join(_short(x, 30) for x in a)}]" if a and s.startswith("typing.Optional") else s


def _cold_call(spec, obj):
    cold.clear_all()
    return call(spec.fn, obj)


def _instantiable(cls, abc_) -> str | None:
    """None if cls() or cls([]) succeeds and gives an instance of abc_; else a reason."""
    import inspect

    if not inspect.isclass(cls):
        return f"origin is not a class: {cls!r}"
    last = None
    for a in ((), ([],)):
        o = call(cls, *a)
        if o.ok:
            if isinstance(o.val, abc_):
                return None
            last = f"{cls.__name__}{'([])' if a else '()'} is not an instance of {abc_.__name__}"
        else:
            last = f"{cls.__name__}{'([])' if a else '()'} raises {o.excname}"
    return last


def _spelling_applies(spec, e, t) -> bool:
    if not spec.spelling:
        return False
    if spec.spelling == "union":
        return "union" in e.tags
    if spec.name == "origin" and "union" in e.tags:
        return False  # typing.get_origin itself distinguishes typing.Union from types.UnionType
    if spec.spelling == "args":
        return _eq(typing.get_args(e.obj), typing.get_args(t.obj))
    return True


def judge(spec, e, res, cat_by_label, index_of, all_twins=False):
    """Judge one (predicate, entry) pair. Returns nothing; records into res."""
    name = spec.name
    case = {"pred": name, "entry": e.label}
    o1 = _cold_call(spec, e.obj)
    o2 = call(spec.fn, e.obj)
    cold.clear_all()
    o3 = call(spec.fn, e.obj)
    res.evals += 1
    key = h64(name, e.label, _short(o1.val, 200) if o1.ok else "raises:" + o1.excname)
    res.outcomes.add(key)
    if o1.ok:
        res.nontrivial.add(key)
    if not o1.ok:
        cat = _raise_kind(spec, e)
        res.violation(f"C17/{name}/raises/{cat}/{o1.excname}",
                      f"{name}({e.label}) raises {o1.excname}: {str(o1.exc)[:100]} (in-domain; expected {_describe(spec, e)})", case)
        return
    exp = spec.expect(e)
    answer_ok = True
    if exp is None:
        res.hit("answer-not-judged:" + name)
    elif not exp.admits(o1.val):
        answer_ok = False
        res.violation(f"C17/{name}/answer/{e.kind}",
                      f"{name}({e.label}) = {_short(o1.val)}; admissible: {exp.describe()}", case)
    else:
        res.hit("admissible-set>1:" + name if exp.check is None and len(exp.values) > 1 else "answer-single:" + name)
    # ---- stability
    for o, how in ((o2, "second-call"), (o3, "after-clear")):
        if not o.ok or not _eq(o.val, o1.val):
            res.violation(f"C17/{name}/stability/{e.kind}",
                          f"{name}({e.label}): first call {_short(o1.val)}, {how} {_short(o.val) if o.ok else 'raises ' + o.excname}", case)
            break
    # ---- origin of a collection annotation is concrete and instantiable
    if name == "origin" and answer_ok:
        abc_ = O.collection_annotation(e)
        if abc_ is not None:
            res.hit("origin-instantiable-judged")
            why = _instantiable(o1.val, abc_)
            if why:
                res.violation(f"C17/origin/origin-instantiable/{e.kind}", f"origin({e.label}) = {_short(o1.val)}: {why}", case)
    # ---- spelling independence
    if spec.spelling and e.twins:
        for tl in e.twins:
            t = cat_by_label.get(tl)
            if t is None or not spec.domain(t) or not _spelling_applies(spec, e, t):
                continue
            if not all_twins and index_of[tl] < index_of[e.label]:
                continue  # judged from the other side
            ot = _cold_call(spec, t.obj)
            res.evals += 1
            res.hit("spelling-pair:" + name)
            if not ot.ok:
                continue  # reported by the raises clause of the twin
            if not _eq(ot.val, o1.val):
                first, second = sorted([e, t], key=lambda x: index_of[x.label])
                res.violation(f"C17/{name}/spelling/{first.kind}~{second.kind}" if first.kind != second.kind else f"C17/{name}/spelling/{first.kind}",
                              f"{name}({e.label}) = {_short(o1.val)} but {name}({t.label}) = {_short(ot.val)} (same type, other spelling; cold state each)",
                              {"pred": name, "entry": first.label})


def _raise_kind(spec, e):
    """Coarse entry kind for the `raises` clause; localises "class with __call__" (incl. `type`, `type[int]`)."""
    import inspect

    r = O.resolve(e.obj)
    if inspect.isclass(r) and "special-form" not in e.tags and issubclass(r, cabc.Callable):
        if r is e.obj or not _cold_call(spec, r).ok:
            return "callable-class"
    return e.kind.split(":", 1)[0] if ":" in e.kind else e.kind


def judge_reordered(spec, x, y, kind, res):
    """Reordered twins X == Y (distinct objects, other member order): the answer for Y given right after X was asked,
    without clearing, must be Y's own cold answer - compared keeping member order - and vice versa."""
    name = spec.name
    cold_ans = {}
    for e in (x, y):
        cold_ans[e.label] = _cold_call(spec, e.obj)
    for first, second in ((x, y), (y, x)):
        cold.clear_all()
        call(spec.fn, first.obj)
        warm = call(spec.fn, second.obj)
        ref = cold_ans[second.label]
        res.evals += 1
        res.hit("reordered-pair:" + name)
        same = (warm.ok == ref.ok) and (_ordered_eq(warm.val, ref.val) if warm.ok else warm.excname == ref.excname)
        key = h64(name, "reordered", first.label, second.label, _short(warm.val, 200) if warm.ok else "raises:" + str(warm.excname))
        res.outcomes.add(key)
        if not same:
            res.violation(
                f"C17/{name}/reordered-twin/{kind}",
                f"{name}({second.label}) asked right after {name}({first.label}) = "
                f"{_show(warm.val) if warm.ok else 'raises ' + warm.excname}; from the cold state it is "
                f"{_show(ref.val) if ref.ok else 'raises ' + ref.excname} (the two objects are == but list their members in another order)",
                {"pred": name, "entry": x.label, "twin": y.label, "kind": kind, "clause": "reordered-twin"})


def _describe(spec, e):
    try:
        exp = spec.expect(e)
    except Exception:  # noqa: BLE001
        return "?"
    return exp.describe() if exp is not None else "an answer"


def _tables(tier):
    cat = C.catalogue(tier)
    by = {e.label: e for e in cat}
    idx = {e.label: i for i, e in enumerate(cat)}
    return cat, by, idx


def run_unit(unit, tier, res):
    spec = BY_NAME[unit]
    cat, by, idx = _tables(tier)
    res.programs += 1
    n = 0
    for e in cat:
        if not spec.domain(e):
            res.hit("domain-excluded:" + spec.name)
            continue
        res.hit("pred:" + spec.name)
        for t in e.tags:
            if t in ("wrapper", "special-form", "subscripted", "class", "instance", "union"):
                res.hit("entry-tag:" + t)
        judge(spec, e, res, by, idx)
        n += 1
        if n == 1 and len(res.samples) < 12:
            o = call(spec.fn, e.obj)
            res.samples.append({"pred": spec.name, "entry": e.label, "answer": _short(o.val if o.ok else o.exc, 60)})
    if spec.name in ("isgeneric", "qualname", "name", "origin", "isbuiltinsubtype"):
        # the answer for a NewType does not depend on the NAME of the module that declares it (here: a module whose name merely
        # starts with "typing")
        from ..universe.prelude import mkmod

        other = mkmod("typings_tlg", "import typing\nUserID = typing.NewType('UserID', int)\n")
        here = mkmod("tlg_c17_twin", "import typing\nUserID = typing.NewType('UserID', int)\n")
        cold.clear_all()
        oa, ob = call(spec.fn, here.UserID), call(spec.fn, other.UserID)
        res.evals += 2
        res.outcomes.add(h64("module-name", spec.name, "ok" if ob.ok else ob.excname))
        if oa.ok != ob.ok or (oa.ok and not _eq(oa.val, ob.val)):
            res.violation(f"C17/{spec.name}/spelling/newtype-in-a-module-named-like-typing", f"{spec.name}(NewType('UserID', int)) declared in module 'tlg_c17_twin' = {_short(oa.val if oa.ok else oa.exc, 60)} "
                          f"but declared in module 'typings_tlg' = {_short(ob.val if ob.ok else ob.exc, 60)}", {"pred": spec.name, "entry": "int"})
    if spec.name == "unwrap":
        # a type variable inside a qualifier: unwrap() peels the qualifier, what is left is the variable ITSELF (its bound or
        # constraints are a reading the graph applies afterwards, not something unwrap() decides)
        m = C.module()
        for src, tv in (("typing.ClassVar[T]", m.T), ("typing.Final[TBound]", m.TBound), ("typing.ClassVar[TCons]", m.TCons), ("typing.Final[T]", m.T)):
            q = eval(src, m.__dict__)  # noqa: S307 - fixed table
            cold.clear_all()
            o = call(spec.fn, q)
            res.evals += 1
            res.outcomes.add(h64("unwrap-typevar", src, "ok" if o.ok else o.excname))
            if not (o.ok and o.val is tv):
                res.violation("C17/unwrap/answer/qualifier[typevar]", f"unwrap({src}) = {_short(o.val if o.ok else o.exc, 60)}; admissible: the type variable {tv!r} itself",
                              {"pred": "unwrap", "entry": "typing.ClassVar[int]"})
    if n == 0:
        res.caps.append("empty-domain:" + spec.name)
    for lx, ly, kind in C.reordered_pairs(tier):
        x, y = by[lx], by[ly]
        if spec.domain(x) and spec.domain(y):
            judge_reordered(spec, x, y, kind, res)
    cold.clear_all()


def replay(case, tier, res):
    spec = BY_NAME[case["pred"]]
    cat, by, idx = _tables(tier)
    e = by.get(case["entry"])
    if e is None and tier != "thorough":
        cat, by, idx = _tables("thorough")
        e = by[case["entry"]]
    if not spec.domain(e):
        return
    if case.get("clause") == "reordered-twin":
        y = by[case["twin"]]
        if spec.domain(y):
            judge_reordered(spec, e, y, case["kind"], res)
        return
    judge(spec, e, res, by, idx, all_twins=True)
