"""C09 - graph.static_order is a complete, duplicate-free dependency order with every cycle cut."""
from __future__ import annotations

import functools
import enum
import typing

from typelib import graph
from typelib.py import inspection, refs

from ..kernel import cold
from ..kernel.canon import short
from ..kernel.guard import call, timed
from ..kernel.runner import h64
from ..refmodel.members import members
from ..universe import cycles, prelude
from ..universe import terms as T
from . import _eval as E

ID = "C09"
SETS = {"quick": ["U1L_all", "R2K", "P:P1q", "P:P3q", "P:P4q"], "thorough": ["U1L_all", "U2K", "P:P0", "P:P1", "P:P3", "P:P4"]}
NCYC = {"quick": 2, "thorough": 3}
NDAG = {"quick": 3, "thorough": 3}
STEP = 60
LIMIT = 20.0  # wall clock; generous so that an overloaded machine is not mistaken for non-termination
MAXTASKS = 8


@functools.lru_cache(maxsize=None)
def topos(kind, n):
    if kind == "cyc":
        return cycles.topologies(n)
    allt = cycles.topologies(n, cyclic_only=False)
    cyc = {t.key() for t in cycles.topologies(n)}
    return [t for t in allt if t.key() not in cyc]


def units(tier):
    out = E.ranges(SETS[tier], STEP)
    for n in range(1, NCYC[tier] + 1):
        N = len(topos("cyc", n))
        out += [("cyc", n, a, min(N, a + 20)) for a in range(0, N, 20)]
    for n in range(2, NDAG[tier] + 1):
        N = len(topos("dag", n))
        out += [("dag", n, a, min(N, a + 20)) for a in range(0, N, 20)]
    out.append(("special", 0, 0, 1))
    return out


def meta(tier):
    return {
        "rule": "every term of the named sets, every cyclic topology over <= %d classes and every acyclic (sharing) topology over <= %d classes "
        "(both module styles, every root form), nested classes, same-named classes in two modules, string-valued aliases; for each the invariants I1-I10 "
        "(termination, no duplicates, root last, every direct member of every non-deferred node denoted by an earlier node - members computed independently "
        "with typing.get_args / typing.get_type_hints -, string alias = single deferred node, forward-ref nodes flagged cyclic, flagged nodes are revisits, "
        "deferred nodes denote exactly the type incl. parameters, the five input forms agree, the memoised list survives mutation of a returned list); type variables behind qualifiers stand for their bound / constraints and `Any` generic arguments are members (special `typevars`); "
        "non-trivial = static_order returned; distinct by (program, root form)" % (NCYC[tier], NDAG[tier]),
        "bounds": {"term_sets": SETS[tier], "cyclic_classes": NCYC[tier], "dag_classes": NDAG[tier]},
        "assumptions": ["cold state per program", "edge order is free, extra nodes are allowed: only the listed invariants are judged"],
        "exhaustive": True,
    }


def denotes(node):
    t = node.type
    if type(t) is typing.ForwardRef:
        o = call(refs.evaluate, t)
        return o.val if o.ok else ("<unresolvable>", repr(t))
    return t


def _eq(a, b):
    try:
        return a == b
    except Exception:  # noqa: BLE001
        return a is b


def invariants(root, label, res, case, *, shape, expect_deferred_alias=None):
    """Judge I1-I8, I10 on static_order(root). Returns the node list (or None)."""
    o = timed(LIMIT, graph.static_order, root)
    res.evals += 1
    key = h64(label, "ok" if o.ok else ("timeout" if o.timeout else o.excname))
    res.outcomes.add(key)
    if not o.ok:
        res.violation(f"C09/I1-terminates/{shape}/{'no-termination' if o.timeout else 'raises:' + o.excname}", f"static_order({label}) -> {o!r}", case)
        return None
    res.nontrivial.add(key)
    nodes = list(o.val)
    if not nodes:
        res.violation(f"C09/I3-root-last/{shape}/empty", f"static_order({label}) is empty", case)
        return None
    # I2
    for i, a in enumerate(nodes):
        for b in nodes[i + 1 :]:
            if a == b:
                res.violation(f"C09/I2-duplicate/{shape}", f"static_order({label}) contains {a!r} twice", case)
                break
    # I3
    last = nodes[-1]
    uroot = inspection.unwrap(root) if not isinstance(root, (str, typing.ForwardRef)) else None
    if not isinstance(root, (str, typing.ForwardRef)) and not (_eq(last.type, root) and not last.cyclic):
        res.violation(f"C09/I3-root-last/{shape}", f"last node of static_order({label}) is {last!r}", case)
    # I11: a node stands for a type; the members of a Literal are VALUES (str / int / bytes / enum members), never nodes
    for n in nodes:
        if isinstance(n.type, (str, bytes, int, float, enum.Enum)) and not (isinstance(root, str) and n is last):
            res.violation(f"C09/I11-value-node/{shape}", f"static_order({label}) contains the node {n!r}: its label is a value, not a type", case)
            break
    # I4 / I6 / I7 / I8
    den = [denotes(n) for n in nodes]
    for i, n in enumerate(nodes):
        isref = type(n.type) is typing.ForwardRef
        if isref and not n.cyclic:
            res.violation(f"C09/I6-forwardref-flagged/{shape}", f"forward-reference node {n!r} is not flagged cyclic in static_order({label})", case)
        if n.cyclic:
            d = den[i]
            if isinstance(d, tuple) and d and d[0] == "<unresolvable>":
                res.violation(f"C09/I8-deferred-denotes/{shape}/unresolvable", f"deferred node {n!r} cannot be resolved ({label})", case)
                continue
            # I8b: the unwrapped side of a deferred node (what the lazy routine resolves) denotes the same type
            if type(n.unwrapped) is typing.ForwardRef:
                ue = call(refs.evaluate, n.unwrapped)
                ud = inspection.unwrap(d)
                if type(ud) is typing.ForwardRef:  # a string-valued alias: its body
                    r2 = call(refs.evaluate, ud)
                    ud = r2.val if r2.ok else ud
                if not ue.ok or not (_eq(ue.val, d) or _eq(ue.val, ud)):
                    res.violation(f"C09/I8-deferred-denotes/{shape}/unwrapped-side", f"deferred node {n!r}: its unwrapped reference resolves to {ue!r}, the node denotes {d!r} ({label})", case)
            # I7: a revisit - its denoted type is the (un-deferred) type of another node
            du = n.unwrapped if type(n.unwrapped) is not typing.ForwardRef else d  # a qualifier / alias label revisits what it wraps
            if not any(j != i and not m.cyclic and (_eq(m.type, d) or _eq(m.unwrapped, d) or _eq(m.type, du) or _eq(m.unwrapped, du)) for j, m in enumerate(nodes)):
                res.violation(f"C09/I7-flagged-is-revisit/{shape}", f"node {n!r} is flagged cyclic but denotes {d!r}, which is no other node of static_order({label})", case)
            continue
        if type(n.unwrapped) is typing.ForwardRef:
            # string-valued alias (possibly behind qualifiers / NewTypes / value aliases): a deferred node by I5, nothing to expand -
            # but the reference it carries must evaluate to the alias body as the ALIAS's module spells it
            body = _string_alias_body(n.type)
            if body is not None:
                ev = call(refs.evaluate, n.unwrapped)
                res.evals += 1
                if not ev.ok or not _eq(ev.val, body):
                    res.violation(f"C09/I5-string-alias/{shape}/wrong-body-behind-wrapper", f"node {n!r}: its reference resolves to {ev!r}, the string alias it stands for has the body {body!r} ({label})", case)
            continue
        want = members(n.unwrapped)
        for m in want:
            ok = False
            for j in range(len(nodes)):
                if j == i:
                    continue
                c = nodes[j]
                if _eq(den[j], m) or _eq(c.unwrapped, m) or _eq(c.type, m):
                    if j < i or c.cyclic:
                        ok = True
                        break
            if not ok:
                present = any(_eq(den[j], m) or _eq(nodes[j].unwrapped, m) for j in range(len(nodes)) if j != i)
                # I8: is there a deferred node that *stands for* m but denotes something else (e.g. parameters lost)?
                mode = "member-after-container" if present else "member-missing"
                res.violation(f"C09/I4-members-first/{shape}/{mode}", f"node {n!r} directly contains {m!r} but no earlier node denotes it in static_order({label}): {short([x.type for x in nodes], 200)}", case)
                break
    # I5 handled by callers (expect_deferred_alias)
    if expect_deferred_alias is not None:
        alias, body = expect_deferred_alias
        hits = [n for n in nodes if n.type is alias]
        if not hits:
            res.violation(f"C09/I5-string-alias/{shape}/count", f"string alias is no node of static_order({label})", case)
        for n in hits:
            if type(n.unwrapped) is not typing.ForwardRef:
                res.violation(f"C09/I5-string-alias/{shape}/not-a-reference", f"string alias node {n!r} does not carry a forward reference", case)
            else:
                ev = call(refs.evaluate, n.unwrapped)
                if not ev.ok or not _eq(ev.val, body):
                    res.violation(f"C09/I5-string-alias/{shape}/wrong-body", f"string alias node resolves to {ev!r}, expected {body!r}", case)
    # I10: mutate the returned list, ask again
    snapshot = list(o.val)
    try:
        o.val.clear() if isinstance(o.val, list) else None
    except Exception:  # noqa: BLE001
        pass
    again = timed(LIMIT, graph.static_order, root)
    res.evals += 1
    if not again.ok or list(again.val) != snapshot:
        res.violation(f"C09/I10-memo-mutation/{shape}", f"static_order({label}) after mutating the previously returned list gives {short(again.val if again.ok else again.exc, 120)}", case)
        cold.clear_all()
    return snapshot


def _string_alias_body(t):
    """Peel qualifiers / NewTypes / value aliases down to a string-valued alias and evaluate its text in the alias's own module
    (independent of the library); None when `t` is not such a chain or the text does not evaluate."""
    import sys

    for _ in range(16):
        if isinstance(t, typing.TypeAliasType):
            v = t.__value__
            if isinstance(v, str):
                mod = sys.modules.get(t.__module__)
                try:
                    ns = dict(vars(mod)) if mod is not None else None
                    if ns is not None:
                        ns.setdefault(t.__module__.split(".")[0], sys.modules[t.__module__.split(".")[0]])  # a body may spell its own module
                    return eval(v, ns) if ns is not None else None  # noqa: S307 - our own synthesised source
                except Exception:  # noqa: BLE001
                    return None
            t = v
        elif hasattr(t, "__supertype__"):
            t = t.__supertype__
        elif typing.get_origin(t) in (typing.Final, typing.ClassVar):
            t = typing.get_args(t)[0]
        else:
            return None
    return None


def forms(ns, modname, expr, root, res, case, shape, base_nodes):
    """I9: string, ForwardRef, NewType, value alias and memoised inputs give the same sequence up to the root label."""
    if base_nodes is None:
        return
    want = [(n.type, n.cyclic) for n in base_nodes[:-1]]
    variants = []
    if isinstance(root, type) and getattr(root, "__module__", None) == modname and "." not in root.__qualname__:
        # a plain string / ForwardRef names a class of the caller's module
        variants.append(("string-from-module", lambda: ns["call2"](graph.static_order, root.__name__)))
        variants.append(("forwardref-module", lambda: graph.static_order(refs.forwardref(root.__name__, module=modname))))
    variants.append(("newtype", lambda: graph.static_order(typing.NewType("RootNT", root))))
    variants.append(("value-alias", lambda: graph.static_order(typing.TypeAliasType("RootAlias", root))))
    variants.append(("newtype-of-alias", lambda: graph.static_order(typing.NewType("RootNA", typing.TypeAliasType("RootA2", root)))))
    variants.append(("alias-of-newtype", lambda: graph.static_order(typing.TypeAliasType("RootAN", typing.NewType("RootN2", root)))))
    variants.append(("memoised", lambda: graph.static_order(root)))
    for name, f in variants:
        o = timed(LIMIT, f)
        res.evals += 1
        if not o.ok:
            res.violation(f"C09/I9-input-forms/{shape}/{name}/raises:{o.excname if not o.timeout else 'timeout'}", f"static_order via {name} of {expr}: {o!r}", case)
            continue
        got = [(n.type, n.cyclic) for n in list(o.val)[:-1]]
        same_seq = len(got) == len(want) and all(_eq(a[0], b[0]) and a[1] == b[1] for a, b in zip(got, want))
        if not same_seq:
            # order of independent edges is free: compare as multisets of (type, cyclic)
            rest = list(want)
            okm = len(got) == len(want)
            for g in got:
                for k, w in enumerate(rest):
                    if _eq(g[0], w[0]) and g[1] == w[1]:
                        del rest[k]
                        break
                else:
                    okm = False
            if not okm:
                res.violation(f"C09/I9-input-forms/{shape}/{name}/differs", f"static_order via {name} of {expr} gives {short([g[0] for g in got], 160)} instead of {short([w[0] for w in want], 160)}", case)


def shape_of(term):
    ks = sorted({t.kind for t in term.walk() if t.kind not in ("leaf", "literal")})
    return "term:" + "+".join(ks) if ks else "term:leaf"


def run_term(setname, i, term, res):
    prog = E.Prog(term)
    try:
        res.programs += 1
        case = {"kind": "term", "set": setname, "i": i, "T": term.src}
        nodes = invariants(prog.ann, term.src, res, case, shape=shape_of(term))
        if term.depth >= 1 and i % 7 == 0:
            forms(prog.ns, prog.p.modname, term.src, prog.ann, res, case, shape_of(term), nodes)
        if len(res.samples) < 2 and nodes:
            res.samples.append({"T": term.src, "order": [short(n.type, 60) for n in nodes]})
    finally:
        prog.close()


_n = [0]


def run_topo(kind, n, idx, res, only=None):
    topo = topos(kind, n)[idx]
    for style in ("future", "eager"):
        src = topo.source(style == "future") + "\ndef call1(f, *a, **k):\n    return f(*a, **k)\ndef call2(f, *a, **k):\n    return call1(f, *a, **k)\n"
        for node in range(n):
            for form in cycles.ROOT_FORMS:
                if only is not None and [style, node, form] != only:
                    continue
                cold.clear_all()
                _n[0] += 1
                name = f"tlg_c09_{_n[0]}"
                ns = prelude.mkmod(name, src).__dict__
                res.programs += 1
                try:
                    root = cycles.root_ann(ns, form, node)
                    case = {"kind": kind, "n": n, "idx": idx, "only": [style, node, form], "topology": topo.key(), "module": src}
                    shape = f"{kind}:root={form}/edges={'+'.join(topo.kinds())}"
                    nodes = invariants(root, f"{form} of C{node} in {topo.key()} [{style}]", res, case, shape=shape)
                    if form in ("cls", "list"):
                        forms(ns, name, f"{form} of C{node}", root, res, case, shape, nodes)
                finally:
                    prelude.dropmod(name)


SPECIAL = '''
import dataclasses, typing
class Outer:
    @dataclasses.dataclass
    class Inner:
        v: int = 0
        nxt: typing.Optional["Outer.Inner"] = None
    @dataclasses.dataclass
    class Plain:
        v: int = 0
@dataclasses.dataclass
class UsesNested:
    a: Outer.Inner
    b: Outer.Plain
    c: list[Outer.Plain]
StrAlias = typing.TypeAliasType("StrAlias", "dict[str, int]")
RecAlias = typing.TypeAliasType("RecAlias", "dict[str, RecAlias | int]")
@dataclasses.dataclass
class HasAlias:
    x: StrAlias
    y: list[StrAlias]
NT1 = typing.NewType("NT1", int)
VAlias = typing.TypeAliasType("VAlias", list[int])
@dataclasses.dataclass
class Wrapped:
    a: NT1
    b: VAlias
    c: typing.Final[int] = 0
TV = typing.TypeVar("TV")
@dataclasses.dataclass
class Link(typing.Generic[TV]):
    v: int = 0
    nxt: typing.Optional["Link"] = None
@dataclasses.dataclass
class GNode(typing.Generic[TV]):
    item: TV = None
    kids: list["GNode"] = dataclasses.field(default_factory=list)
@dataclasses.dataclass
class SharesG:
    a: Link
    b: Link
    c: list[Link]
    d: GNode
@dataclasses.dataclass
class Plain2:
    v: int = 0
@dataclasses.dataclass
class SharedViaQualifier:
    a: Plain2
    b: typing.Final[Plain2] = None
    c: list[Plain2] = dataclasses.field(default_factory=list)
@dataclasses.dataclass
class CycViaFinal:
    v: int = 0
    nxt: typing.Final[typing.Optional["CycViaFinal"]] = None
Item9 = Plain2
Items9 = typing.TypeAliasType("Items9", list[Plain2])
Basket9 = typing.NewType("Basket9", Items9)
@dataclasses.dataclass
class HasBasket:
    b: Basket9
    n: int = 0
StrAliasP = typing.TypeAliasType("StrAliasP", "list[Plain2]")
StrAliasQ = typing.TypeAliasType("StrAliasQ", "list[tlg_c09_special.Plain2]")  # the body spells the alias's own module
NewOverStr = typing.NewType("NewOverStr", StrAliasP)
@dataclasses.dataclass
class StrAliasBehindWrappers:
    # a string-valued alias reached through another layer (qualifier / NewType): the reference it carries belongs to the ALIAS's module
    fin: typing.Final[StrAliasP] = None
    nt: NewOverStr = None
    direct: StrAliasP = None
    qualified: StrAliasQ = None
@dataclasses.dataclass
class BagD(dict):
    # a structured class that ALSO derives from a standard-library type: its fields are members like any other
    n: int = 0
    p: Plain2 = None
    ps: list[Plain2] = dataclasses.field(default_factory=list)
@dataclasses.dataclass
class QualifiedLeaves:
    # Literal leaves (their arguments are values, not member types) behind a qualifier; Callable / type[X] are outside U (C15)
    mode: typing.Final[typing.Literal["r", "w"]] = "r"
    cmode: typing.ClassVar[typing.Literal["x", "y"]] = "x"
    lits: list[typing.Literal["p", "q"]] = dataclasses.field(default_factory=list)
    p: Plain2 = None
class HasLen(typing.Protocol):
    def __len__(self) -> int: ...
@dataclasses.dataclass
class ProtoNode(HasLen):
    v: int = 0
    nxt: typing.Optional["ProtoNode"] = None
    def __len__(self):
        return 0
def call1(f, *a, **k):
    return f(*a, **k)
def call2(f, *a, **k):
    return call1(f, *a, **k)
'''
TWO_A = "import dataclasses\n@dataclasses.dataclass\nclass Item:\n    x: int\n"
TWO_B = "import dataclasses\n@dataclasses.dataclass\nclass Item:\n    x: str\n"
TWO_H = ("import dataclasses, tlg_c09_ma, tlg_c09_mb\n@dataclasses.dataclass\nclass Holder:\n    a: tlg_c09_ma.Item\n    b: tlg_c09_mb.Item\n"
         "    la: list[tlg_c09_ma.Item]\n    db: dict[str, tlg_c09_mb.Item]\n")


SPECIAL_F = '''from __future__ import annotations
import dataclasses, typing
@dataclasses.dataclass
class OuterF:
    @dataclasses.dataclass
    class InnerF:
        x: int = 0
        up: typing.Optional[OuterF] = None
    i: InnerF = None
    many: list[InnerF] = dataclasses.field(default_factory=list)
# a subclass that declares NO fields of its own (behaviour only): its members are the inherited ones
@dataclasses.dataclass
class ShapeF:
    w: int = 0
    inner: OuterF.InnerF = None
    tags: list[str] = dataclasses.field(default_factory=list)
class SquareF(ShapeF):
    def area(self):
        return self.w * self.w
# bracket-free PEP 604 unions mixing builtin members with a class, on a cycle that does not run through the root
@dataclasses.dataclass
class HeadP:
    link: int | LeftP | str = 0
@dataclasses.dataclass
class LeftP:
    link: int | RightP | str = 0
@dataclasses.dataclass
class RightP:
    link: int | LeftP | str = 0
'''


def run_special(res):
    cold.clear_all()
    ns = prelude.mkmod("tlg_c09_special", SPECIAL).__dict__
    res.programs += 1
    case = {"kind": "special"}
    for nm in ("Outer.Inner", "UsesNested", "HasAlias", "Wrapped", "RecAlias", "StrAlias", "Link", "GNode", "SharesG", "ProtoNode", "SharedViaQualifier", "CycViaFinal", "HasBasket", "QualifiedLeaves", "StrAliasBehindWrappers", "BagD"):
        root = eval(nm, ns)  # noqa: S307
        for form in ("cls", "list", "dict"):
            r = {"cls": root, "list": list[root], "dict": dict[str, root]}[form]
            cold.clear_all()
            exp = None
            if nm == "HasAlias":
                exp = (ns["StrAlias"], dict[str, int])
            nodes = invariants(r, f"{form} of {nm}", res, dict(case, name=nm, form=form), shape=f"special:{nm}/root={form}", expect_deferred_alias=exp)
            if form == "cls":
                forms(ns, "tlg_c09_special", nm, r, res, dict(case, name=nm, form=form), f"special:{nm}", nodes)
    # postponed annotations naming a NESTED class by its bare name (resolvable only through the namespace of the outer class)
    nsf = prelude.mkmod("tlg_c09_special_f", SPECIAL_F).__dict__
    for form in ("cls", "list"):
        r = nsf["SquareF"] if form == "cls" else list[nsf["SquareF"]]
        cold.clear_all()
        invariants(r, f"{form} of SquareF", res, dict(case, name="SquareF", form=form), shape=f"special:SquareF(behaviour-only subclass)/root={form}")
    for nm in ("HeadP", "LeftP"):
        for form in ("cls", "list"):
            r = nsf[nm] if form == "cls" else list[nsf[nm]]
            cold.clear_all()
            invariants(r, f"{form} of {nm}", res, dict(case, name=nm, form=form), shape=f"special:{nm}(pipe-union cycle off the root)/root={form}")
    for form in ("cls", "list", "dict"):
        root = nsf["OuterF"]
        r = {"cls": root, "list": list[root], "dict": dict[str, root]}[form]
        cold.clear_all()
        nodes = invariants(r, f"{form} of OuterF", res, dict(case, name="OuterF", form=form), shape=f"special:OuterF(bare-nested-name)/root={form}")
        if nodes and not any(n.type is root.InnerF and not n.cyclic for n in nodes):
            res.violation(f"C09/I4-members-first/special:OuterF(bare-nested-name)/root={form}/member-missing",
                          f"static_order({form} of OuterF) has no node for the nested class OuterF.InnerF (field `i: InnerF`): {short([n.type for n in nodes], 200)}", dict(case, name="OuterF", form=form))
    prelude.mkmod("tlg_c09_ma", TWO_A)
    prelude.mkmod("tlg_c09_mb", TWO_B)
    h = prelude.mkmod("tlg_c09_mh", TWO_H).__dict__
    cold.clear_all()
    nodes = invariants(h["Holder"], "Holder(two same-named Item classes)", res, dict(case, name="Holder"), shape="special:same-named-classes")
    if nodes:
        items = [n for n in nodes if isinstance(n.type, type) and n.type.__name__ == "Item"]
        if len({id(n.type) for n in items}) != 2:
            res.violation("C09/I4-members-first/special:same-named-classes/conflated", f"two same-named classes are not both nodes: {short([n.type for n in nodes], 200)}", dict(case, name="Holder"))
    # a string-annotated field INHERITED from a base of another module; the subclass's module binds the same name to another class
    cold.clear_all()
    pa = prelude.mkmod("tlg_c09_pa", "import dataclasses\n@dataclasses.dataclass\nclass Leaf:\n    v: int = 0\n@dataclasses.dataclass\nclass Base:\n    leaf: 'Leaf' = None\n").__dict__
    pb = prelude.mkmod("tlg_c09_pb", "import dataclasses, tlg_c09_pa\n@dataclasses.dataclass\nclass Leaf:\n    w: bytes = b''\n@dataclasses.dataclass\nclass Child(tlg_c09_pa.Base):\n    extra: str = ''\n").__dict__
    nodes = invariants(pb["Child"], "Child(pa.Base) with an inherited string-annotated field", res, dict(case, name="Child"), shape="special:inherited-string-annotation")
    if nodes:
        leafs = [n.type for n in nodes if isinstance(n.type, type) and n.type.__name__ == "Leaf"]
        if pa["Leaf"] not in leafs or pb["Leaf"] in leafs:
            res.violation("C09/I4-members-first/special:inherited-string-annotation/wrong-class", f"the inherited field `leaf: 'Leaf'` of tlg_c09_pa.Base denotes tlg_c09_pa.Leaf; nodes named Leaf: {leafs!r}", dict(case, name="Child"))
    # a bare string naming different classes in two calling modules (first caller must not win)
    cold.clear_all()
    src_a = "import dataclasses\n@dataclasses.dataclass\nclass Thing:\n    x: int\ndef call1(f, *a, **k):\n    return f(*a, **k)\n"
    src_b = "import dataclasses\n@dataclasses.dataclass\nclass Thing:\n    x: str\n    y: bytes = b''\ndef call1(f, *a, **k):\n    return f(*a, **k)\n"
    ma = prelude.mkmod("tlg_c09_ta", src_a).__dict__
    mb = prelude.mkmod("tlg_c09_tb", src_b).__dict__
    oa = call(ma["call1"], graph.static_order, "Thing")
    ob = call(mb["call1"], graph.static_order, "Thing")
    res.evals += 2
    good = oa.ok and ob.ok and oa.val and ob.val and oa.val[-1].type is ma["Thing"] and ob.val[-1].type is mb["Thing"]
    res.outcomes.add(h64("two-modules", bool(good)))
    if not good:
        res.violation("C09/I9-input-forms/special:bare-name-from-two-modules/first-caller-wins",
                      f"static_order('Thing') from module A -> root {short(oa.val[-1].type if oa.ok and oa.val else oa.exc, 60)}, from module B -> root {short(ob.val[-1].type if ob.ok and ob.val else ob.exc, 60)}",
                      dict(case, name="two-modules"))
    # (w10) type variables stand for their bound / constraints also behind a qualifier; `Any` as a GENERIC ARGUMENT is a member like any other
    # (an `Any` FIELD of a structured class is no claim): direct predecessor clauses on the real order
    tv = prelude.mkmod("tlg_c09_typevars", "import dataclasses, typing\n@dataclasses.dataclass\nclass Unit:\n    n: int = 0\nT = typing.TypeVar('T', bound=Unit)\nC = typing.TypeVar('C', int, str)\n"
                                           "@dataclasses.dataclass\nclass Holder(typing.Generic[T]):\n    item: typing.Final[T] = None\n    many: list[T] = dataclasses.field(default_factory=list)\n"
                                           "@dataclasses.dataclass\nclass HolderCV(typing.Generic[T]):\n    shared: typing.ClassVar[T] = None\n    plain: T = None\n    c: typing.Final[C] = 0\n"
                                           "@dataclasses.dataclass\nclass Cells:\n    cells: tuple[str, typing.Any] = ()\n    rows: list[tuple[typing.Any, int]] = dataclasses.field(default_factory=list)\n").__dict__
    Unit, Tv, Cv = tv["Unit"], tv["T"], tv["C"]

    def idx(nodes, pred):
        return [i for i, n in enumerate(nodes) if pred(n)]

    def is_any(n):
        return n.unwrapped is typing.Any

    checks = [
        ("Holder", tv["Holder"], [("item: Final[T] stands for the bound", lambda n: n.var == "item", lambda n: n.unwrapped is Unit),
                                   ("the bound's members precede it", lambda n: n.var == "item", None, lambda n: n.var == "n" and n.unwrapped is int)]),
        ("HolderCV", tv["HolderCV"], [("plain: T stands for the bound", lambda n: n.var == "plain", lambda n: n.unwrapped is Unit),
                                       ("c: Final[C] stands for the union of its constraints", lambda n: n.var == "c", lambda n: n.unwrapped == typing.Union[int, str]),
                                       ("the constraint members precede it", lambda n: n.var == "c", None, lambda n: n.unwrapped is str and n.var is None)]),
        ("Final[T]", typing.Final[Tv], [("root stands for the bound", lambda n: n.type == typing.Final[Tv], lambda n: n.unwrapped is Unit),
                                        ("the bound's members precede the root", lambda n: n.type == typing.Final[Tv], None, lambda n: n.var == "n" and n.unwrapped is int)]),
        ("list[T]", list[Tv], [("the bound precedes the list", lambda n: n.type == list[Tv], None, lambda n: n.unwrapped is Unit)]),
        ("tuple[int, Any]", tuple[int, typing.Any], [("Any argument precedes the tuple", lambda n: n.type == tuple[int, typing.Any], None, is_any)]),
        ("list[tuple[Any, str]]", list[tuple[typing.Any, str]], [("Any argument precedes the inner tuple", lambda n: n.type == tuple[typing.Any, str], None, is_any)]),
        ("dict[str, Any]", dict[str, typing.Any], [("Any argument precedes the dict", lambda n: n.type == dict[str, typing.Any], None, is_any)]),
        ("list[Any]", list[typing.Any], [("Any argument precedes the list", lambda n: n.type == list[typing.Any], None, is_any)]),
        ("Cells", tv["Cells"], [("Any argument precedes the fixed tuple field", lambda n: n.var == "cells", None, is_any),
                                ("Any argument precedes the tuple below the list field", lambda n: n.type == tuple[typing.Any, int], None, is_any)]),
    ]
    for nm, root, clauses in checks:
        cold.clear_all()
        o = timed(E.BUILD_LIMIT, lambda root=root: list(graph.static_order(root)))
        res.evals += 1
        res.outcomes.add(h64("special", "typevars", nm, "ok" if o.ok else o.excname))
        if not o.ok:
            res.violation(f"C09/I1-terminates/special:typevars/{nm}/{'no-termination' if o.timeout else o.excname}", f"static_order({nm}): {o!r}", dict(case, name=nm))
            continue
        nodes = o.val
        keys = [(repr(n.type), n.var) for n in nodes]
        if len(set(keys)) != len(keys) or not (nodes and nodes[-1].type == root):
            res.violation(f"C09/I2-I3/special:typevars/{nm}", f"static_order({nm}) has duplicates or does not end with the root: {[short(n, 50) for n in nodes]}", dict(case, name=nm))
        for cl in clauses:
            label, pick, prop = cl[0], cl[1], cl[2]
            before = cl[3] if len(cl) > 3 else None
            at = idx(nodes, pick)
            bad = None
            if not at:
                bad = "node-missing"
            elif prop is not None and not all(prop(nodes[i]) for i in at):
                bad = "wrong-unwrapped-form"
            elif before is not None and not idx(nodes[: at[0]], before):
                bad = "member-node-missing-before-it"
            if bad:
                res.violation(f"C09/I4-members-precede/special:typevars/{nm}/{bad}", f"static_order({nm}): {label} - {bad}; order = {[short(n, 60) for n in nodes]}", dict(case, name=nm))
    res.samples.append({"special": "nested classes, string/recursive aliases, wrappers, qualifier-labelled revisits, same-named classes in two modules"})


def run_unit(unit, tier, res):
    if unit[0] == "special":
        run_special(res)
    elif unit[0] in ("cyc", "dag"):
        kind, n, a, b = unit
        for idx in range(a, b):
            run_topo(kind, n, idx, res)
    else:
        s, a, b = unit
        for off, term in enumerate(E.unit_terms(unit)):
            if "PCinit" in term.src or "SOleaf" in term.src:
                # a class hinted only by the STRING annotations of its __init__: its members are references written by the user, which the
                # graph carries as plain (unflagged, non-revisit) reference nodes - the property speaks about the deferred nodes the graph
                # itself creates for revisits; such classes are outside its universe here (they are judged behaviourally by C01/C03/C05/C07)
                res.skipped += 1
                res.hit("skipped:init-hinted-class")
                continue
            run_term(s, a + off, term, res)


def replay(case, tier, res):
    if case["kind"] == "special":
        run_special(res)
    elif case["kind"] == "term":
        run_term(case["set"], case["i"], E.term_set(case["set"])[case["i"]], res)
    else:
        run_topo(case["kind"], case["n"], case["idx"], res, only=case.get("only"))
