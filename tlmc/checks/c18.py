"""C18 - generic item / value iteration (serdes.iteritems / serdes.itervalues) is lossless and non-destructive.

Bounded-exhaustive over input *shapes*: every carrier class x every ordered tuple of element kinds up to a size
bound (one position-distinct representative value per kind), every structured flavour x field-visibility variant x
first-field kind, every mapping carrier x key kinds x value kinds, plus every ordered pair (A, B) of small instances
of one class run back to back in one cold state (the per-class strategy cache of serdes.get_items_iter).

The oracle is tlmc.refmodel.itermodel (Python's own ABCs / dataclasses.fields / __annotations__ / __slots__ / vars);
where the property text admits two readings of "iterable of pairs" both answers are admissible.
"""
from __future__ import annotations

import collections
import functools
import itertools
import types

from typelib import serdes

from ..kernel import cold
from ..kernel.canon import short
from ..kernel.guard import call
from ..kernel.runner import h64
from ..refmodel import itermodel as M
from ..universe.prelude import mkmod

ID = "C18"
CHUNKS_PER_WORKER = 4
STEP = 400

# ------------------------------------------------------------------------------------------------ bounds

KINDS = ("int", "str2", "str3", "tuple2", "list2", "tuple3", "dict1", "none", "dict2", "set2")
HASHABLE = ("int", "str2", "str3", "tuple2", "tuple3", "none", "set2")
ORDERED_CARRIERS = ("list", "tuple", "deque", "generator", "iterator")
SET_CARRIERS = ("set", "frozenset")
# OrderedDict-moved: an OrderedDict whose first key was moved to the end (its order is the object's, not the order of insertion);
# dict-items-override: a dict subclass whose items() / values() / keys() / __iter__ present the entries in reverse
MAP_CARRIERS = ("dict", "OrderedDict", "OrderedDict-moved", "dict-items-override", "mappingproxy", "custom-mapping")
KEY_KINDS = ("str", "int", "tuple")
MAPVAL_KINDS = ("int", "tuple2", "str2")
TEXT_CARRIERS = ("str", "bytes", "range")
FNS = ("iteritems", "itervalues")

BOUNDS = {
    "quick": {"seq_max": 3, "map_max": 2, "text_max": 3, "cacheA_max": 1, "cacheB_max": 1,
              "cache_obj_kinds": ("int", "str2", "tuple2", "list2")},
    "thorough": {"seq_max": 4, "map_max": 2, "text_max": 4, "cacheA_max": 2, "cacheB_max": 1, "cache_obj_kinds": KINDS},
}

_S2 = ("ab", "cd", "ef", "gh", "ij")
_S3 = ("abc", "def", "ghi", "jkl", "mno")


def val(kind: str, pos: int):
    """The representative value of an element kind at a position (position-distinct, so that loss / duplication /
    reordering of any single element is visible, and so that sets keep their size)."""
    if kind == "int":
        return 10 + pos
    if kind == "str2":
        return _S2[pos]
    if kind == "str3":
        return _S3[pos]
    if kind == "tuple2":
        return ("k%d" % pos, pos)
    if kind == "list2":
        return ["k%d" % pos, pos]
    if kind == "tuple3":
        return (pos, pos + 1, pos + 2)
    if kind == "dict1":
        return {"d%d" % pos: pos}
    if kind == "dict2":
        return {"d%d" % pos: pos, "e%d" % pos: pos}
    if kind == "set2":
        return frozenset({100 + pos, 200 + pos})
    if kind == "none":
        return None
    raise KeyError(kind)


def keyval(kind: str, pos: int):
    return {"str": "f%d" % pos, "int": pos, "tuple": ("t", pos)}[kind]


# ------------------------------------------------------------------------------------------------ universe of classes

DC_VARIANTS = {
    "plain": ["a: typing.Any", "b: typing.Any = 2"],
    "priv": ["a: typing.Any", "_p: int = 5", "b: typing.Any = 2"],
    "cvar": ["a: typing.Any", "CV: typing.ClassVar[int] = 7", "b: typing.Any = 2"],
    "privcvar": ["a: typing.Any", "_p: int = 5", "CV: typing.ClassVar[int] = 7", "b: typing.Any = 2"],
    "barecvar": ["a: typing.Any", "CV: typing.ClassVar = 7", "b: typing.Any = 2"],  # unsubscripted ClassVar
    "allpriv": ["_p: typing.Any", "_q: typing.Any = 2"],
    "noinit": ["a: typing.Any", "b: typing.Any = 2", "t: int = dataclasses.field(init=False, default=9)"],  # a field the constructor does not take
}
AN_VARIANTS = {
    "plain": (["a: typing.Any", "b: typing.Any"], ["a", "b"]),
    "priv": (["a: typing.Any", "_p: int", "b: typing.Any"], ["a", "_p", "b"]),
    "cvar": (["a: typing.Any", "CV: typing.ClassVar[int] = 7", "b: typing.Any"], ["a", "b"]),
    "privcvar": (["a: typing.Any", "_p: int", "CV: typing.ClassVar[int] = 7", "b: typing.Any"], ["a", "_p", "b"]),
    "barecvar": (["a: typing.Any", "CV: typing.ClassVar = 7", "b: typing.Any"], ["a", "b"]),  # unsubscripted ClassVar
    "allpriv": (["_p: typing.Any", "_q: typing.Any"], ["_p", "_q"]),
}
UN_FIELDS = {"plain": ["a", "b"], "priv": ["a", "_p", "b"], "allpriv": ["_p", "_q"]}
UN_COMBOS = [("plain", "match"), ("plain", "empty"), ("plain", "subset"), ("plain", "renamed"), ("plain", "varargs"),
             ("priv", "match"), ("priv", "empty"), ("allpriv", "empty")]

HIERARCHIES: list[tuple[str, str]] = []  # (base class, child class adding a field)
CLASSES: list[str] = []  # deterministic order
FLAVOUR: dict[str, str] = {}  # class name -> signature class kind
DETAIL: dict[str, str] = {}  # class name -> fine flavour (coverage)
VARIANT: dict[str, str] = {}  # class name -> content feature


def _reg(name, flavour, detail, variant):
    CLASSES.append(name)
    FLAVOUR[name] = flavour
    DETAIL[name] = detail
    VARIANT[name] = variant


def _universe_src() -> str:
    L = [
        "import collections, collections.abc, dataclasses, typing",
        "MAKE = {}",
        "class RevDict(dict):",
        "    def __iter__(self):",
        "        return iter(list(dict.keys(self))[::-1])",
        "    def keys(self):",
        "        return list(dict.keys(self))[::-1]",
        "    def values(self):",
        "        return list(dict.values(self))[::-1]",
        "    def items(self):",
        "        return list(dict.items(self))[::-1]",
        "class CM(collections.abc.Mapping):",
        "    def __init__(self, d):",
        "        self._d = dict(d)",
        "    def __getitem__(self, k):",
        "        return self._d[k]",
        "    def __iter__(self):",
        "        return iter(self._d)",
        "    def __len__(self):",
        "        return len(self._d)",
        "    def __repr__(self):",
        "        return 'CM(%r)' % (self._d,)",
    ]
    # ---- dataclasses
    for pre, deco, flav in (("DC", "@dataclasses.dataclass", "dataclass"),
                            ("DCS", "@dataclasses.dataclass(slots=True)", "dataclass-slots"),
                            ("DCF", "@dataclasses.dataclass(frozen=True)", "dataclass-frozen")):
        for var, body in DC_VARIANTS.items():
            name = f"{pre}_{var}"
            L += [deco, f"class {name}:"] + ["    " + b for b in body]
            L.append(f"MAKE[{name!r}] = lambda a, b: {name}(a, b)" if var == "allpriv" else f"MAKE[{name!r}] = lambda a, b: {name}(a, b=b)")
            _reg(name, flav, flav, var)
    # ---- annotated plain / annotated __slots__ classes
    for pre, flav in (("PC", "annotated-class"), ("SC", "annotated-slots")):
        for var, (body, fields) in AN_VARIANTS.items():
            name = f"{pre}_{var}"
            L.append(f"class {name}:")
            if pre == "SC":
                L.append(f"    __slots__ = {tuple(fields)!r}")
            L += ["    " + b for b in body]
            L.append("    def __init__(self, a, b):")
            for f in fields:
                L.append(f"        self.{f} = " + ("a" if f == fields[0] else "b" if f == fields[-1] else "5"))
            L.append(f"    def __repr__(self):\n        return '{name}(' + ', '.join('%s=%r' % (f, getattr(self, f)) for f in {fields!r}) + ')'")
            L.append(f"MAKE[{name!r}] = {name}")
            _reg(name, flav, flav, "classvar-bare" if var == "barecvar" else "classvar" if "cvar" in var else var)
    # ---- slots-only / vars-only classes without annotations; the constructor signature is a dimension
    for pre, flav in (("SO", "slots-only"), ("VO", "vars-only")):
        for var, sig in UN_COMBOS:
            name = f"{pre}_{var}_{sig}"
            fields = UN_FIELDS[var]
            A, B = fields[0], fields[-1]
            L.append(f"class {name}:")
            if pre == "SO":
                L.append(f"    __slots__ = {tuple(fields)!r}")
            params = {"match": f", {A}, {B}", "empty": "", "subset": f", {A}", "renamed": ", x, y", "varargs": ", *args"}[sig]
            L.append(f"    def __init__(self{params}):")
            for f in fields:
                if f == A:
                    rhs = {"match": A, "empty": "None", "subset": A, "renamed": "x", "varargs": "args[0]"}[sig]
                elif f == B:
                    rhs = {"match": B, "empty": "0", "subset": "2", "renamed": "y", "varargs": "args[1]"}[sig]
                else:
                    rhs = "5"
                L.append(f"        self.{f} = {rhs}")
            L.append(f"    def __repr__(self):\n        return '{name}(' + ', '.join('%s=%r' % (f, getattr(self, f)) for f in {fields!r}) + ')'")
            args = {"match": "a, b", "empty": "", "subset": "a", "renamed": "a, b", "varargs": "a, b"}[sig]
            L += [f"def _mk_{name}(a, b):", f"    o = {name}({args})"]
            if sig == "empty":
                L += [f"    o.{A} = a", f"    o.{B} = b"]
            if sig == "subset":
                L += [f"    o.{B} = b"]
            L += ["    return o", f"MAKE[{name!r}] = _mk_{name}"]
            _reg(name, flav, flav, {"match": var, "empty": var if var == "allpriv" else f"{var}-init-noargs", "subset": "init-params-subset-of-fields"}.get(sig, "init-params-not-fields"))
    # ---- two-level hierarchies: field `a` is declared by the base, field `b` by the child (`cls.__slots__` / `cls.__annotations__` name only `b`)
    for name, flav, slots, ann, deco in (
        ("SCH", "annotated-slots", True, True, False),
        ("PCH", "annotated-class", False, True, False),
        ("SOH", "slots-only", True, False, False),
        ("VOH", "vars-only", False, False, False),
        ("DCH", "dataclass", False, True, True),
        ("DCSH", "dataclass-slots", True, True, True),
    ):
        for cname, parent, f in ((f"{name}_base", "", "a"), (name, f"({name}_base)", "b")):
            if deco:
                L.append("@dataclasses.dataclass(slots=True)" if slots else "@dataclasses.dataclass")
            L.append(f"class {cname}{parent}:")
            if slots and not deco:
                L.append(f"    __slots__ = ({f!r},)")
            if ann:
                L.append(f"    {f}: typing.Any" + (" = 2" if deco and f == "b" else ""))
            if not deco:
                if f == "a":
                    L += ["    def __init__(self, a):", "        self.a = a"]
                    L.append(f"    def __repr__(self):\n        return '%s(a=%r)' % (type(self).__name__, self.a)")
                else:
                    L += ["    def __init__(self, a, b):", "        super().__init__(a)", "        self.b = b"]
                    L.append(f"    def __repr__(self):\n        return '{cname}(a=%r, b=%r)' % (self.a, self.b)")
        L.append(f"MAKE[{name!r}] = lambda a, b: {name}(a, b)")
        _reg(name, flav, flav, "inherited-field")
        L.append(f"MAKE[{name + '_base'!r}] = lambda a, b: {name}_base(a)")
        _reg(name + "_base", flav, flav, "base-of-hierarchy")
        HIERARCHIES.append((name + "_base", name))
    # ---- named tuples of 1, 2 and 3 fields
    L += [
        "class NT1(typing.NamedTuple):", "    a: typing.Any",
        "class NT2(typing.NamedTuple):", "    a: typing.Any", "    b: typing.Any = 2",
        "class NT3(typing.NamedTuple):", "    a: typing.Any", "    b: typing.Any = 2", "    c: int = 3",
        "CNT1 = collections.namedtuple('CNT1', ['a'])",
        "CNT2 = collections.namedtuple('CNT2', ['a', 'b'])",
        "CNT3 = collections.namedtuple('CNT3', ['a', 'b', 'c'])",
    ]
    # a slots-only class whose own `__slots__` is EMPTY: the attributes live in the slots of its base
    L += ["class SOE_base:", "    __slots__ = ('a', 'b')", "class SOE(SOE_base):", "    __slots__ = ()", "    def __init__(self, a, b):", "        self.a = a", "        self.b = b",
          "    def __repr__(self):\n        return 'SOE(a=%r, b=%r)' % (self.a, self.b)", "MAKE['SOE'] = SOE"]
    _reg("SOE", "slots-only", "slots-only", "empty-leaf-slots")
    # a slots-only subclass that RE-DECLARES a slot name of its base (legal, wasteful): every field once
    L += ["class SOdup_base:", "    __slots__ = ('a', 'b')", "class SOdup(SOdup_base):", "    __slots__ = ('b', 'c')",
          "    def __init__(self, a, b, c=5):", "        self.a = a", "        self.b = b", "        self.c = c",
          "    def __repr__(self):\n        return 'SOdup(a=%r, b=%r, c=%r)' % (self.a, self.b, self.c)", "MAKE['SOdup'] = lambda a, b: SOdup(a, b)"]
    _reg("SOdup", "slots-only", "slots-only", "redeclared-slot")
    # an annotated plain class whose annotations cannot be resolved at run time (names imported for type checking only)
    L += ["class PC_unres:", "    a: 'NotImportedAtRuntime'", "    CV: 'typing.ClassVar[NotImportedAtRuntime]' = 7", "    b: 'typing.Any'",
          "    def __init__(self, a, b):", "        self.a = a", "        self.b = b",
          "    def __repr__(self):\n        return 'PC_unres(a=%r, b=%r)' % (self.a, self.b)", "MAKE['PC_unres'] = PC_unres"]
    _reg("PC_unres", "annotated-class", "annotated-class", "unresolvable-annotations")
    # an annotated plain class with a Final-qualified INSTANCE attribute next to a class variable
    L += ["class PC_fin:", "    a: int", "    CV: typing.ClassVar[int] = 7", "    b: typing.Final[str]",
          "    def __init__(self, a, b):", "        self.a = a", "        self.b = b",
          "    def __repr__(self):\n        return 'PC_fin(a=%r, b=%r)' % (self.a, self.b)", "MAKE['PC_fin'] = PC_fin"]
    _reg("PC_fin", "annotated-class", "annotated-class", "final-qualified-field")
    # slots-only classes that declare ONE slot by a plain string (Python reads `__slots__ = 'name'` as one slot), in the leaf and in a base
    L += ["class SOstr_base:", "    __slots__ = 'alpha'", "class SOstr(SOstr_base):", "    __slots__ = 'beta'",
          "    def __init__(self, a, b):", "        self.alpha = a", "        self.beta = b",
          "    def __repr__(self):\n        return 'SOstr(alpha=%r, beta=%r)' % (self.alpha, self.beta)", "MAKE['SOstr'] = SOstr"]
    _reg("SOstr", "slots-only", "slots-only", "string-slot")
    # slots spread over a chain of three classes (grandparent `a`, parent `b`, child `c`)
    L += ["class SO3_a:", "    __slots__ = ('a',)", "class SO3_b(SO3_a):", "    __slots__ = ('b',)", "class SO3(SO3_b):", "    __slots__ = ('c',)",
          "    def __init__(self, a, b, c=5):", "        self.a = a", "        self.b = b", "        self.c = c",
          "    def __repr__(self):\n        return 'SO3(a=%r, b=%r, c=%r)' % (self.a, self.b, self.c)", "MAKE['SO3'] = lambda a, b: SO3(a, b)"]
    _reg("SO3", "slots-only", "slots-only", "three-level-chain")
    # named tuple classes that INHERIT from a named tuple class (the documented way of adding methods)
    L += ["class NT2sub(NT2):", "    __slots__ = ()", "    def first(self):", "        return self.a",
          "class CNT2sub(CNT2):", "    __slots__ = ()"]
    for name, det in (("NT2sub", "typing.NamedTuple-subclass"), ("CNT2sub", "collections.namedtuple-subclass")):
        L.append(f"MAKE[{name!r}] = lambda a, b: {name}(a, b)")
        _reg(name, "namedtuple", det, "arity2")
    # a vars-only class whose instances do not all have the same attributes
    L += ["class VO_opt:", "    def __init__(self, a, b=None):", "        self.a = a", "        if b is not None:", "            self.b = b",
          "    def __repr__(self):\n        return 'VO_opt(%r)' % (vars(self),)", "MAKE['VO_opt'] = VO_opt"]
    _reg("VO_opt", "vars-only", "vars-only", "optional-attribute")
    for pre, det in (("NT", "typing.NamedTuple"), ("CNT", "collections.namedtuple")):
        for n in (1, 2, 3):
            name = f"{pre}{n}"
            L.append(f"MAKE[{name!r}] = lambda a, b: {name}(" + ("a" if n == 1 else "a, b" if n == 2 else "a, b, 3") + ")")
            _reg(name, "namedtuple", det, f"arity{n}")
    return "\n".join(L) + "\n"


_SRC = _universe_src()
_MOD = None


def U():
    global _MOD
    if _MOD is None:
        _MOD = mkmod("tlg_c18", _SRC)
    return _MOD


def init_worker(tier):
    U()


# ------------------------------------------------------------------------------------------------ descriptors


def _seq_contents(nmax):
    for n in range(nmax + 1):
        yield from itertools.product(KINDS, repeat=n)


def _set_contents(nmax):
    for n in range(nmax + 1):
        for c in itertools.combinations_with_replacement(HASHABLE, n):
            if c.count("none") <= 1:
                yield c


def _map_contents(nmax):
    for n in range(nmax + 1):
        for ks in itertools.product(KEY_KINDS, repeat=n):
            for vs in itertools.product(MAPVAL_KINDS, repeat=n):
                yield ks, vs


def _obj_descs(akinds):
    for name in CLASSES:
        bk = ("int",) if (FLAVOUR[name] != "namedtuple" or name.endswith("1")) else ("int", "tuple2")
        if VARIANT[name] == "optional-attribute":
            bk = ("int", "none")
        for b in bk:
            for a in akinds:
                yield ("obj", name, a, b)


@functools.lru_cache(maxsize=None)
def inputs(tier):
    """Every single input descriptor, grouped; simplest first."""
    B = BOUNDS[tier]
    U()
    g = collections.OrderedDict()
    g["text"] = [("text", c, n) for c in TEXT_CARRIERS for n in range(B["text_max"] + 1)]
    g["mapping"] = [("map", c, ks, vs) for c in MAP_CARRIERS for ks, vs in _map_contents(B["map_max"])]
    g["structured"] = list(_obj_descs(KINDS))
    g["set"] = [("seq", c, ks) for c in SET_CARRIERS for ks in _set_contents(B["seq_max"])]
    for c in ORDERED_CARRIERS:
        g[c] = [("seq", c, ks) for ks in _seq_contents(B["seq_max"])]
    return g


@functools.lru_cache(maxsize=None)
def sequences(tier):
    """Every (A, fnA, B, fnB) with A, B two different-content instances of one class."""
    B = BOUNDS[tier]
    U()
    g = collections.OrderedDict()
    fnpairs = list(itertools.product(FNS, repeat=2))

    def pairs(As, Bs):
        return [("two", a, fa, b, fb) for a in As for b in Bs if a != b for fa, fb in fnpairs]

    out = []
    for c in TEXT_CARRIERS:
        ds = [("text", c, n) for n in range(3)]
        out += pairs(ds, ds)
    g["cache:text"] = out
    out = []
    for c in MAP_CARRIERS:
        ds = [("map", c, ks, vs) for ks, vs in _map_contents(1)]
        out += pairs(ds, ds)
    g["cache:mapping"] = out
    out = []
    for name in CLASSES:
        ds = [d for d in _obj_descs(B["cache_obj_kinds"]) if d[1] == name]
        out += pairs(ds, ds)
    g["cache:structured"] = out
    # a base class and the child that adds a field, in both orders: what is memoised for one class must not leak into the other
    out = []
    for base, child in HIERARCHIES:
        db = [d for d in _obj_descs(B["cache_obj_kinds"]) if d[1] == base]
        dc = [d for d in _obj_descs(B["cache_obj_kinds"]) if d[1] == child]
        out += [("two", a, fa, b, fb) for a in dc[:2] for b in db[:2] for fa, fb in fnpairs]
        out += [("two", a, fa, b, fb) for a in db[:2] for b in dc[:2] for fa, fb in fnpairs]
    g["cache:related-classes"] = out
    out = []
    for c in SET_CARRIERS:
        out += pairs([("seq", c, ks) for ks in _set_contents(B["cacheA_max"])], [("seq", c, ks) for ks in _set_contents(B["cacheB_max"])])
    for c in ORDERED_CARRIERS:
        out += pairs([("seq", c, ks) for ks in _seq_contents(B["cacheA_max"])], [("seq", c, ks) for ks in _seq_contents(B["cacheB_max"])])
    g["cache:containers"] = out
    return g


@functools.lru_cache(maxsize=None)
def cases(tier):
    out = []
    for ds in inputs(tier).values():
        out += [("one", d) for d in ds]
    for cs in sequences(tier).values():
        out += cs
    return out


def units(tier):
    n = len(cases(tier))
    return [(a, min(a + STEP, n)) for a in range(0, n, STEP)]


def counts(tier):
    ins = {k: len(v) for k, v in inputs(tier).items()}
    seqs = {k: len(v) for k, v in sequences(tier).items()}
    return {
        "inputs_by_group": ins, "inputs_total": sum(ins.values()),
        "cache_sequences_by_group": seqs, "cache_sequences_total": sum(seqs.values()),
        "judged_calls_expected": 2 * sum(ins.values()) + 3 * sum(seqs.values()),
        "classes_in_universe": len(CLASSES),
    }


def meta(tier):
    B = BOUNDS[tier]
    return {
        "rule": "a case is one input descriptor (carrier class x ordered tuple of element kinds | mapping carrier x key kinds x "
                "value kinds | structured class x first-field kind x second-field kind | str/bytes/range x length) judged under "
                "both iteritems and itervalues from a cold state, or a cache sequence (A, fnA, B, fnB) of two different-content "
                "instances of one class (3 judged calls: A, B after A, B alone cold); every case of the stated bounds is run; "
                "distinct outcomes are counted by (descriptor, function, canonical outcome); non-trivial = the call returned",
        "bounds": {
            "element_kinds": list(KINDS), "hashable_kinds_for_sets": list(HASHABLE),
            "ordered_carriers": list(ORDERED_CARRIERS), "set_carriers": list(SET_CARRIERS),
            "container_sizes": "0..%d" % B["seq_max"],
            "mapping_carriers": list(MAP_CARRIERS), "mapping_sizes": "0..%d" % B["map_max"], "key_kinds": list(KEY_KINDS),
            "mapping_value_kinds": list(MAPVAL_KINDS),
            "text_carriers": list(TEXT_CARRIERS), "text_lengths": "0..%d" % B["text_max"],
            "structured_classes": list(CLASSES),
            "cache_sequences": "A of size <= %d, B of size <= %d per container class; first-field kinds %s per structured class; "
                               "all 4 (fnA, fnB)" % (B["cacheA_max"], B["cacheB_max"], list(B["cache_obj_kinds"])),
            "measured_counts": counts(tier),
        },
        "assumptions": [
            "one position-distinct representative value per element kind (the implementation looks only at class and len of the first element)",
            "pair = 2-tuple/2-list; a first element that is any other 2-length collection, or a pair followed by non-pairs, is "
            "ambiguous and both the as-given and the enumerate answers are admitted",
            "ClassVar-annotated names are not fields; public = name not starting with '_'; field order = dataclasses.fields / "
            "annotation order / __slots__ order / vars() order",
            "set iteration order is whatever list(x) gives under the fixed PYTHONHASHSEED (the model reads it off an untouched twin)",
            "cold state (all typelib caches cleared) before every judged call except the second call of a cache sequence",
        ],
        "exhaustive": True,
        "explanation": "exhaustive over the stated shapes; see bounds.measured_counts for the exact number of inputs per group",
    }


# ------------------------------------------------------------------------------------------------ building inputs


def _gen(src):
    for e in src:
        yield e


def build(desc):
    """-> (x, elements | None, src | None). `elements` is the element list of a one-shot input; `src` the list a
    one-shot input reads from (must stay unmodified)."""
    u = U()
    tag = desc[0]
    if tag == "text":
        _, c, n = desc
        if c == "str":
            return "abcde"[:n], None, None
        if c == "bytes":
            return b"abcde"[:n], None, None
        return range(n), None, None
    if tag == "map":
        _, c, ks, vs = desc
        items = [(keyval(k, i), val(v, i)) for i, (k, v) in enumerate(zip(ks, vs))]
        if c == "dict":
            return dict(items), None, None
        if c == "OrderedDict":
            return collections.OrderedDict(items), None, None
        if c == "OrderedDict-moved":
            od = collections.OrderedDict(items)
            if len(od) > 1:
                od.move_to_end(next(iter(od)))
            return od, None, None
        if c == "dict-items-override":
            return u.RevDict(items), None, None
        if c == "mappingproxy":
            return types.MappingProxyType(dict(items)), None, None
        return u.CM(items), None, None
    if tag == "obj":
        _, name, a, b = desc
        return u.MAKE[name](val(a, 0), 2 if b == "int" else None if b == "none" else ("y", 2)), None, None
    _, c, ks = desc
    elems = [val(k, i) for i, k in enumerate(ks)]
    if c == "list":
        return elems, None, None
    if c == "tuple":
        return tuple(elems), None, None
    if c == "deque":
        return collections.deque(elems), None, None
    if c == "set":
        return set(elems), None, None
    if c == "frozenset":
        return frozenset(elems), None, None
    if c == "generator":
        return _gen(elems), list(elems), elems
    if c == "iterator":
        return iter(elems), list(elems), elems
    raise KeyError(c)


def class_kind(desc) -> str:
    if desc[0] == "obj":
        return FLAVOUR[desc[1]]
    return desc[1]


def cov_kind(desc) -> str:
    if desc[0] == "obj":
        return DETAIL[desc[1]]
    return desc[1]


def feature(desc, m: M.Model, x) -> str:
    tag = desc[0]
    if tag == "text":
        return "empty" if desc[2] == 0 else "nonempty"
    if tag == "map":
        return "empty" if not desc[2] else "nonempty"
    if tag == "obj":
        if FLAVOUR[desc[1]] == "namedtuple":
            first = tuple.__getitem__(x, 0)
            return "first-field-len2" if M.is_len2_collection(first) else "first-field-" + M.elem_kind(first)
        return VARIANT[desc[1]]
    if not m.elements:
        return "empty"
    if m.pclass == "ambiguous":
        return "ambiguous/first-pair" if M.is_pair(m.elements[0]) else "ambiguous/first-len2-nonpair"
    return m.pclass


# ------------------------------------------------------------------------------------------------ judging one call


def _impl_strategy(x, got, m, fn):
    """Which strategy of the implementation served this call (coverage only)."""
    o = call(serdes.get_items_iter, type(x))
    if not o.ok:
        return "none"
    f = o.val
    name = "mapping" if f is serdes._itemscaller else "namedtuple" if f is serdes._namedtupleitems else \
        "enumerate" if f is enumerate else {"_iterfields": "fields", "_itervars": "vars"}.get(getattr(f, "__name__", ""), "other")
    if fn == "iteritems" and got is not None and m.cls == "iterable" and m.elements and M.match_items(got, "given", m.elements):
        return "pairs"
    return name


def _object_mode(got, m, x):
    """Field-level diagnosis for structured objects: which names are missing / extra."""
    if not all(type(g) in (tuple, list) and len(g) == 2 and isinstance(g[0], str) for g in got):
        return None
    exp_names = [k for k, _ in m.items[0][1]]
    got_names = [g[0] for g in got]
    extra = [n for n in got_names if n not in exp_names]
    missing = [n for n in exp_names if n not in got_names]
    if extra:
        anns = {}
        for c in reversed(type(x).__mro__):
            anns.update(vars(c).get("__annotations__", {}))
        if all(n in anns and M._is_classvar(anns[n]) for n in extra):
            return "extra-field:classvar"
        if all(n.startswith("_") for n in extra):
            return "extra-field:private"
        return "extra-field:other"
    if missing:
        return "missing-field"
    if got_names != exp_names:
        return "wrong-order"
    return "wrong-value"


def judge(desc, fn, res, case, record=True, probe=True):
    """Build a fresh input from `desc`, run `fn` on it from whatever cache state is current, judge the outcome.
    Returns a canonical outcome key (for history comparison). `probe=False` keeps the coverage probe of the
    implementation's strategy (which itself calls get_items_iter) out of a cache sequence."""
    x, elems, src = build(desc)
    twin, _, _ = build(desc)  # untouched equal twin: the model never reads the object given to the implementation
    one_shot = elems is not None
    m = M.model(twin, elems)
    before = M.key(src) if one_shot else M.key(x)
    f = serdes.iteritems if fn == "iteritems" else serdes.itervalues
    out = call(lambda: list(f(x)))
    after = M.key(src) if one_shot else M.key(x)
    res.evals += 1
    ck, feat = class_kind(desc), feature(desc, m, twin)
    okey = M.key(out.val) if out.ok else "raises:" + out.excname
    if not record:
        return okey
    res.outcomes.add(h64(repr(desc), fn, okey))
    if out.ok:
        res.nontrivial.add(h64(repr(desc), fn))
    res.hit("input:" + cov_kind(desc))
    res.hit("strategy:" + m.strategy)
    if probe:
        res.hit("impl-strategy:" + _impl_strategy(x, out.val if out.ok else None, m, fn))
    if m.pclass:
        res.hit("pair-class:" + m.pclass)

    def viol(mode, detail):
        sig = f"C18/{fn}/{ck}/{mode}/{feat}"
        exp = " | ".join(short(e, 90) for _, e in m.items) if fn == "iteritems" else short(m.values, 90)
        shown = short(twin, 100) if not one_shot else f"<{ck} over {short(elems, 90)}>"
        res.violation(sig, f"{fn}({shown}) -> {detail}; admissible: {exp}",
                      dict(case, fn=fn, input=short(twin if not one_shot else elems, 160)))

    if not out.ok:
        viol("raises:" + out.excname, f"raises {out.excname}: {short(str(out.exc), 60)}")
        return okey
    got = out.val
    ok = (M.items_ok(got, m) is not None) if fn == "iteritems" else M.values_ok(got, m)
    once = M.once_verdict(got, m, fn)
    if not ok:
        mode = None
        if m.cls == "namedtuple" and fn == "iteritems" and M.match_items(got, "given", list(tuple.__iter__(twin))):
            mode = "pairs-misdetection"  # the named tuple was taken for an iterable of pairs: raw values, no field names
        elif m.cls == "object" and fn == "iteritems":
            mode = _object_mode(got, m, twin)
        elif m.cls == "object" and fn == "itervalues":
            n_exp = len(m.values)
            mode = "extra-values" if len(got) > n_exp else "missing-values" if len(got) < n_exp else "wrong-values"
        if mode is None and fn == "iteritems" and m.cls in ("iterable", "text"):
            if m.strategy == "enumerate" and M.match_items(got, "given", m.elements):
                mode = "pairs-misdetection"
            elif m.strategy == "pairs" and M.match_items(got, "kv", list(enumerate(m.elements))):
                mode = "pairs-missed"
        if mode is None and once is not None:
            mode = once
        if mode is None:
            mode = "wrong-order" if M.multiset(got) == M.multiset(m.items[0][1] if fn == "iteritems" else m.values) else "wrong-items"
        viol(mode, short(got, 100))
    elif once is not None:  # cannot happen when the answer is admissible; kept as an independent assertion
        viol(once, short(got, 100))
    if before != after:
        viol("mutated-input", f"input changed: {short(before, 70)} -> {short(after, 70)}")
    return okey


# ------------------------------------------------------------------------------------------------ running cases


def run_case(c, tier, res):
    res.programs += 1
    if c[0] == "one":
        desc = c[1]
        case = {"case": c}
        for fn in FNS:
            cold.clear_all()
            judge(desc, fn, res, case)
        return
    _, da, fa, db, fb = c
    case = {"case": c}
    cold.clear_all()
    judge(da, fa, res, case, probe=False)
    warm = judge(db, fb, res, case, probe=False)  # B right after A: served by the strategy memoised for A's class
    cold.clear_all()
    alone = judge(db, fb, res, case, record=False)
    res.hit("cache-sequence:" + class_kind(da))
    if warm != alone:
        res.violation(f"C18/{fb}/{class_kind(db)}/history-dependent/after-{fa}",
                      f"{fb}(B) differs after {fa}(A) in the same cold state: {short(warm, 70)} vs alone {short(alone, 70)}; "
                      f"A={da!r} B={db!r}", dict(case, fn=fb))


def run_unit(unit, tier, res):
    a, b = unit
    cs = cases(tier)
    for i in range(a, b):
        run_case(cs[i], tier, res)
    if len(res.samples) < 3 and b > a:
        c = cs[b - 1]
        d = c[1] if c[0] == "one" else c[3]
        x, elems, _ = build(d)
        res.samples.append({"case": repr(c), "input": short(x if elems is None else elems, 100),
                            "iteritems": short(call(lambda: list(serdes.iteritems(build(d)[0]))), 100)})


def _tuplify(v):
    if isinstance(v, list):
        return tuple(_tuplify(e) for e in v)
    return v


def replay(case, tier, res):
    U()
    run_case(_tuplify(case["case"]), tier, res)
