"""C03 - unmarshal(T, x) raises or returns a value that structurally conforms to T, for every input x."""
from __future__ import annotations

from ..kernel.canon import short
from ..kernel.guard import call, timed
from ..kernel.runner import h64
from ..refmodel.conforms import why
from ..universe import inputs
from . import _eval as E

ID = "C03"
SETS = {
    "quick": ["U1L", "U1K3", "R2K", "P:P0q", "P:P1q", "P:P3q", "P:P6q", "P:P7q", "BYTES"],
    "thorough": ["U1L_all", "U1K3", "U2K", "P:P0", "P:P1", "P:P3", "P:P4", "P:P6", "P:P7", "BYTES"],
}
WR = {"quick": (2, 2), "thorough": (2, 2)}
NWIRE = {"quick": 8, "thorough": 14}
CORR = {"quick": 1, "thorough": 2}
STEP = 25
CALL_LIMIT = 20.0  # wall clock; generous so that an overloaded machine is not mistaken for non-termination


def units(tier):
    return E.ranges(SETS[tier], STEP)


def meta(tier):
    return {
        "rule": "every term of the named sets x every input of X0 (fixed pool) + renderings (wire / JSON text / repr text, JSON text in the 5 carriers) "
        f"of the wire forms of the first {NWIRE[tier]} values + Corr_k (k<={CORR[tier]} at depth<=1, k=1 deeper) corruptions of those wire forms; "
        "oracle: the call raises or conforms(T, result) (independent structural checker); a call exceeding the wall limit is a violation; "
        "non-trivial = the call returned; distinct by (T, input label, outcome class)",
        "bounds": {"term_sets": SETS[tier], "wire_values": NWIRE[tier], "corruption_depth": CORR[tier]},
        "assumptions": ["cold state per program", "subclass instances conform; extra TypedDict keys are not judged; Literal membership is typed"],
        "exhaustive": True,
    }


def pool_for(term, ns, tier, res):
    pool = list(inputs.x0(ns))
    vals = term.values(ns, *WR[tier])[: NWIRE[tier]]
    k = CORR[tier] if term.depth <= 1 else 1
    for vi, v in enumerate(vals):
        wv = call(term.wire, ns, v)
        if not wv.ok:
            continue
        w = wv.val
        for rn, rv in inputs.renderings(w):
            pool.append((f"wire{vi}:{rn}", (lambda rv: lambda: rv)(rv)))
            if rn == "json":
                for c in inputs.CARRIERS[1:]:
                    pool.append((f"wire{vi}:json:{c}", (lambda rv, c: lambda: inputs.carry(rv, c))(rv, c)))
        # an instance of the target class itself whose members are still raw (text where a number is declared)
        if vi < 3 and term.kind in ("struct", "cls") and isinstance(w, dict) and not isinstance(v, dict):
            raw = {kk: (str(x) if isinstance(x, (int, float)) and not isinstance(x, bool) else x) for kk, x in w.items()}
            mk = call(lambda: ns[term.name](**raw))
            if mk.ok:
                pool.append((f"self-instance-raw{vi}", (lambda raw=raw: ns[term.name](**raw))))
        if term.has_bytes:
            for bc in (bytes, bytearray, memoryview):
                if isinstance(w, (bytes, bytearray)):
                    pool.append((f"wire{vi}:as-{bc.__name__}", (lambda w=w, bc=bc: bc(bytes(w)))))
            continue
        cs, capped = inputs.corr(w, k=k, cap=600)
        if capped:
            res.caps.append("corruptions>600")
        for ci, (op, c) in enumerate(cs):
            pool.append((f"corrupt{vi}.{ci}:{op}", (lambda c: lambda: c)(c)))
    return pool


def in_class(label):
    if label.startswith("wire"):
        return "wire:" + label.split(":", 1)[1]
    if label.startswith("self-instance-raw"):
        return "same-class-instance-with-raw-members"
    if label.startswith("corrupt"):
        return "corrupt:" + label.split(":", 1)[1].split("+")[-1]
    return inputs.input_class(label)


def shallow_sig(t):
    """constructor kind + the kinds of its direct members only (keeps one root cause to a handful of cells)"""
    if not t.args or t.kind in ("leaf", "literal", "struct"):
        return t.sig()
    return f"{t.kind}[{','.join(a.sig() if not a.args or a.kind in ('leaf', 'literal', 'struct') else a.kind for a in t.args)}]"


def run_term(setname, i, term, tier, res, only_label=None):
    prog = E.Prog(term)
    try:
        res.programs += 1
        bu = prog.unmarshaller()
        if not bu.ok:
            E.report_build_failure(ID, prog, bu, res, setname, i, "unmarshaller")
            return
        u, ns = bu.val, prog.ns
        pool = pool_for(term, ns, tier, res)
        for lab, f in pool:
            if only_label is not None and lab != only_label:
                continue
            x = f()
            o = timed(CALL_LIMIT, u, x)
            res.evals += 1
            if o.timeout:
                res.violation(f"C03/no-termination/{term.sig()}/{in_class(lab)}", f"unmarshal({term.src}, {short(x, 80)}) did not return within {CALL_LIMIT}s",
                              {"set": setname, "i": i, "label": lab, "T": term.src})
                continue
            res.outcomes.add(h64(term.src, lab, "ok" if o.ok else o.excname))
            if not o.ok:
                continue
            res.nontrivial.add(h64(term.src, lab))
            w = why(term, ns, o.val)
            if w is None:
                continue
            tmin, reason = w
            res.violation(f"C03/nonconf/{shallow_sig(tmin)}/{reason}/{in_class(lab)}",
                          f"unmarshal({term.src}, {short(f(), 100)}) returned {short(o.val, 120)} which does not conform: {reason} at {tmin.src}",
                          {"set": setname, "i": i, "label": lab, "T": term.src, "input": short(f(), 200)})
        if len(res.samples) < 3:
            res.samples.append({"T": term.src, "n_inputs": len(pool), "labels": [p[0] for p in pool[-3:]]})
    finally:
        prog.close()


def run_unit(unit, tier, res):
    s, a, b = unit
    for off, term in enumerate(E.unit_terms(unit)):
        run_term(s, a + off, term, tier, res)


def replay(case, tier, res):
    term = E.term_set(case["set"])[case["i"]]
    run_term(case["set"], case["i"], term, tier, res, only_label=case.get("label"))
