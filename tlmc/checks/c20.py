"""C20 - annotation rewriting for older interpreters (typelib.py.future.transform) preserves meaning.

space  : expression strings of universe.exprs (annotation grammar: full depth<=2, spines, |-chains; and the
         NON-annotation family: arithmetic mixed with |, calls, conditionals, comprehensions, lambda ...)
oracle : on out = transform(s)
   meaning  eval(s) == eval(out) in refmodel.symtyping (| and typing.Union build one flattened node; typing.Dict/List/
            Set/Tuple/Pattern identified with dict/list/set/tuple/Pattern; + - @ ... are distinct nodes)
   real     (annotation inputs) none of dict/list/set/tuple/Pattern left as a name in out; and, where the input evaluates
            on this interpreter, eval with the real classes, compared structurally by
            typing.get_origin/get_args (Union-ness not spelling, typing.List[...] ~ list[...], ForwardRef('x') ~ 'x')
   nobitor  (annotation inputs) no BinOp(BitOr) left in ast.parse(out) outside constants / Literal[...]
   fixpoint transform(out) == out
   sametree no | operator and none of the five builtin names in s  =>  ast.dump(parse(s)) == ast.dump(parse(out))
   cache    warm answers == cold answers, also with union= varied in between; a non-default union= is the name used
   raises   transform raised on a syntactically valid expression
"""
from __future__ import annotations

import ast
import collections.abc
import functools
import re
import types
import typing

from typelib.py import future

from ..kernel.guard import call
from ..kernel.runner import h64
from ..refmodel import symtyping
from ..universe import exprs

ID = "C20"
CHUNKS_PER_WORKER = 16
STEP = 2000
ALT = "tlg_U"  # the non-default union= name
CLAUSES = ("raises", "meaning", "real", "nobitor", "fixpoint", "sametree", "cache")

FAMILIES = {
    "quick": ["nonannot:3", "chains:names:5", "chains:3:4", "full:A14:1", "full:A6:2", "spine:S3:3"],
    "thorough": ["nonannot:4", "chains:names:6", "chains:3:6", "full:A14:1", "full:A9:2", "spine:S3:3", "spine:S2:4"],
}
CACHE_STRIDE = 16  # bulk families: the union=-variation part of clause (6) on every 16th expression (all of the small ones)
SMALL = 5000

T = future.transform


def units(tier):
    out = []
    for spec in FAMILIES[tier]:
        n = len(exprs.family(spec))
        out.extend((spec, a, min(a + STEP, n)) for a in range(0, n, STEP))
    return out


def meta(tier):
    sizes = {spec: len(exprs.family(spec)) for spec in FAMILIES[tier]}
    return {
        "rule": "every expression string of the named families (universe/exprs.py; a program = one expression string); "
                "each is transformed cold, warm, re-transformed (and with union= varied in between: every expression of the families "
                "of <= 5000 items, every 16th of the bulk ones) and judged by the 7 clauses; "
                "non-trivial = the output differs from the input text; distinct by (s, out)",
        "bounds": {"families": sizes, "total": sum(sizes.values()),
                   "alphabets": {k: v for k, v in exprs.ALPHABETS.items() if any(f":{k}:" in f for f in FAMILIES[tier])},
                   "cache_union_variation_stride": CACHE_STRIDE,
                   "note": "atom sets shrunk to the time budget (transform costs ~300 us here, not 30 us; ~1.1 ms per judged expression): "
                           "design quick = full d<=2 over 8 atoms + d3 spines over 6; built = all 14 atoms to depth 1, full d<=2 over 6 atoms, d3 spines over 3. "
                           "design thorough = full d<=2 over 14 atoms + d4 spines over 4; built = all 14 atoms to depth 1, full d<=2 over 9 atoms, "
                           "d3 spines over 3, d4 spines over 2. chains: every parenthesisation of <=6 operands over 3 operand kinds "
                           "(minimal and explicit parentheses), plus distinct names"},
        "assumptions": ["an expression that BINDS one of the five builtin names (lambda parameter, comprehension target) is not judged for meaning: "
                        "the documented rewriting is by name, either reading is admissible (counted as oracle:meaning-unjudged-binder-shadows-generic)",
                        "clauses nobitor/real are judged on annotation-grammar inputs only (non-annotation: meaning, fixpoint, sametree, cache, raises)",
                        "real clause is skipped (counted) where the INPUT does not evaluate on this interpreter",
                        "union de-duplication is not modelled symbolically (both sides alike); the real clause sees typing's own"],
        "exhaustive": True,
    }


# ------------------------------------------------------------------ real namespace / structural comparison
class _B:
    pass


class _Meta:
    """annotation metadata built by a call; its repr does not depend on the arguments (the rewritten spelling of an argument is
    judged by the nobitor / meaning clauses, not by comparing metadata objects)"""

    def __init__(self, *a, **k):
        pass

    def __repr__(self):
        return "Meta(...)"

    def __and__(self, other):
        return self

    __rand__ = __and__


class _Box:
    """`Box[X].Item` evaluates (to int) whatever X is"""

    Item = int

    def __class_getitem__(cls, item):
        return cls


def _real_ns():
    return {
        "__builtins__": {}, "int": int, "str": str, "list": list, "dict": dict, "tuple": tuple, "set": set, "Pattern": re.Pattern,
        "typing": typing, "Literal": typing.Literal, "Annotated": typing.Annotated, "Callable": typing.Callable,
        "x": types.SimpleNamespace(Seq=collections.abc.Sequence), "a": types.SimpleNamespace(b=_B), "Meta": _Meta, "tag": _Meta(), "Box": _Box,
    }


REAL_NS = _real_ns()
_BARE = {typing.List: list, typing.Dict: dict, typing.Set: set, typing.Tuple: tuple, typing.Pattern: re.Pattern}
_NONE = type(None)


def struct(x):
    """origin/args skeleton of an evaluated annotation, modulo the documented identifications"""
    if x is None or x is _NONE:
        return ("None",)
    if isinstance(x, str):
        return ("ref", x)
    if isinstance(x, typing.ForwardRef):
        return ("ref", x.__forward_arg__)
    if isinstance(x, (list, tuple)):
        return (type(x).__name__, tuple(struct(e) for e in x))
    try:
        x = _BARE.get(x, x)
    except TypeError:
        pass
    o = typing.get_origin(x)
    if o is None:
        return ("leaf", x)
    args = typing.get_args(x)
    if o is typing.Union or o is types.UnionType:
        # a set: Union equality ignores order, and typing's lru_cache may hand back an equal alias built in another order
        return ("Union", frozenset(struct(a) for a in args))
    if o is typing.Literal:
        return ("Literal", tuple((type(a).__name__, a) for a in args))
    if o is typing.Annotated:
        return ("Annotated", struct(args[0]), tuple(repr(m) for m in args[1:]))
    return ("generic", o, tuple(struct(a) for a in args))


# ------------------------------------------------------------------ syntax scans
_GEN = symtyping.BUILTIN_GENERICS


def _is_literal(value):
    return (isinstance(value, ast.Name) and value.id == "Literal") or (isinstance(value, ast.Attribute) and value.attr == "Literal")


def has_bitor(node, skip_literal=True):
    """a BinOp(BitOr) outside Constant strings (trivially) and outside Literal[...] subscripts"""
    stack = [node]
    while stack:
        n = stack.pop()
        cls = n.__class__
        if cls is ast.BinOp:
            if n.op.__class__ is ast.BitOr:
                return True
            stack.append(n.left)
            stack.append(n.right)
        elif cls is ast.Subscript:
            if skip_literal and _is_literal(n.value):
                continue
            stack.append(n.value)
            stack.append(n.slice)
        elif cls is ast.Tuple or cls is ast.List:
            stack.extend(n.elts)
        elif cls is ast.Attribute:
            stack.append(n.value)
        elif cls is ast.Name or cls is ast.Constant:
            pass
        else:
            stack.extend(ast.iter_child_nodes(n))
    return False


def binds_generic(node):
    """a lambda parameter / comprehension or walrus target spelled like one of the five builtin names.  The documented
    rewriting is by NAME, so both readings (the bound variable vs. the builtin) are admissible: meaning is not judged."""
    for n in ast.walk(node):
        if (n.__class__ is ast.arg and n.arg in _GEN) or (n.__class__ is ast.Name and n.id in _GEN and not isinstance(n.ctx, ast.Load)):
            return True
    return False


def has_generic_name(node):
    return any(isinstance(n, ast.Name) and n.id in _GEN for n in ast.walk(node))


def features(tree):
    """coverage features of an input tree"""
    f = set()
    for n in ast.walk(tree):
        if isinstance(n, ast.Subscript):
            head = n.value.id if isinstance(n.value, ast.Name) else (n.value.attr if isinstance(n.value, ast.Attribute) else "?")
            if has_bitor(n.value, False):
                f.add("bitor-in-subscript-value")
            if has_bitor(n.slice, False):
                f.add("bitor-in-slice-of:" + (head if head in ("list", "set", "dict", "tuple", "Optional", "Seq", "Annotated", "Callable", "Literal") else "other"))
                if head == "Callable" and isinstance(n.slice, ast.Tuple) and n.slice.elts and isinstance(n.slice.elts[0], ast.List) and has_bitor(n.slice.elts[0], False):
                    f.add("bitor-in-Callable-arglist")
            if isinstance(n.value, ast.Name) and n.value.id in _GEN:
                f.add("generic-subscripted")
        elif isinstance(n, ast.BinOp):
            if isinstance(n.op, ast.BitOr):
                if isinstance(n.right, ast.BinOp) and isinstance(n.right.op, ast.BitOr):
                    f.add("bitor-right-nested")
                if isinstance(n.left, ast.BinOp) and isinstance(n.left.op, ast.BitOr):
                    f.add("bitor-left-nested")
                for side in (n.left, n.right):
                    if isinstance(side, ast.Constant):
                        f.add("bitor-operand-const:" + type(side.value).__name__)
                    elif isinstance(side, ast.BinOp) and not isinstance(side.op, ast.BitOr):
                        f.add("bitor-operand-arith")
                    elif isinstance(side, ast.Name) and side.id in _GEN:
                        f.add("bitor-operand-bare-generic")
            else:
                if has_bitor(n, False):
                    f.add("arith-over-bitor")
        elif isinstance(n, ast.Constant) and isinstance(n.value, str) and "|" in n.value:
            f.add("string-constant-with-bar")
    return f


# ------------------------------------------------------------------ shape of a (sub)expression, for signatures
_OPS = {ast.Add: "+", ast.Sub: "-", ast.MatMult: "@", ast.Mult: "*", ast.BitAnd: "&", ast.BitXor: "^", ast.LShift: "<<", ast.RShift: ">>",
        ast.Div: "/", ast.FloorDiv: "//", ast.Mod: "%", ast.Pow: "**", ast.BitOr: "|"}


def _kind(n):
    if isinstance(n, (ast.Name, ast.Attribute)):
        if isinstance(n, ast.Name) and n.id in _GEN:
            return "generic"
        return "x"
    if isinstance(n, ast.Constant):
        return "const"
    if isinstance(n, ast.BinOp):
        return "(|)" if isinstance(n.op, ast.BitOr) else f"binop({_OPS.get(type(n.op), '?')})"
    if isinstance(n, ast.Subscript):
        return "sub"
    return type(n).__name__.lower()


def shape(src: str) -> str:
    try:
        n = ast.parse(src, mode="eval").body
    except SyntaxError:
        return "unparseable"
    if isinstance(n, ast.BinOp):
        if isinstance(n.op, ast.BitOr):
            return f"{_kind(n.left)}|{_kind(n.right)}"
        return f"{_kind(n.left)}{_OPS.get(type(n.op), '?')}{_kind(n.right)}"
    if isinstance(n, ast.Subscript):
        if has_bitor(n.value, False):
            return "subscript-value-contains-|"
        elts = n.slice.elts if isinstance(n.slice, ast.Tuple) else [n.slice]
        return f"{_kind(n.value)}[" + ",".join(_kind(e) for e in elts) + "]"
    if isinstance(n, ast.Lambda):
        return "lambda-body:" + _kind(n.body)
    if isinstance(n, (ast.ListComp, ast.SetComp, ast.GeneratorExp, ast.DictComp)):
        elt = n.key if isinstance(n, ast.DictComp) else n.elt
        return type(n).__name__.lower() + ":" + _kind(elt)
    if isinstance(n, (ast.Tuple, ast.List, ast.Set)):
        return type(n).__name__.lower() + "(" + ",".join(_kind(e) for e in n.elts[:4]) + ")"
    if isinstance(n, ast.Call):
        return "call(" + ",".join(_kind(e) for e in n.args[:4]) + ("," if n.args and n.keywords else "") + ",".join("kw=" + _kind(k.value) for k in n.keywords[:2]) + ")"
    kids = [c for c in ast.iter_child_nodes(n) if isinstance(c, ast.expr)]
    return _kind(n) + "(" + ",".join(_kind(c) for c in kids[:4]) + ")"


# ------------------------------------------------------------------ the oracle
def _short(x, n=160):
    s = x if isinstance(x, str) else repr(x)
    return s if len(s) <= n else s[: n - 3] + "..."


_FIX_OK: set = set()  # outputs already seen to be fixpoints (several inputs share an output, e.g. `X | Y` and `(X) | (Y)`)
_GEN_RE = re.compile(r"\b(?:dict|list|set|tuple|Pattern)\b")


def _bump(stats, k):
    if stats is not None:
        stats[k] = stats.get(k, 0) + 1


def judge(s: str, annot: bool, only=None, stats=None, full_cache=True):
    """-> (out|None, [(clause, mode, detail)], n_transform_calls).  `only`: judge just that clause.
    full_cache=False: clause (6) only re-asks the warm cache once (no union= variation)."""
    fails = []

    def want(c):
        return only is None or only == c

    T.cache_clear()
    cold = call(T, s)
    ncalls = 1
    if not cold.ok:
        if isinstance(cold.exc, SyntaxError) and not call(ast.parse, s, mode="eval").ok:
            return None, [], ncalls  # invalid input: raising is fine (never generated)
        return None, ([("raises", cold.excname, f"transform raised {cold.excname}: {_short(str(cold.exc), 100)}")] if want("raises") else []), ncalls
    out = cold.val
    if not isinstance(out, str):
        return None, ([("raises", "non-str", f"transform returned {type(out).__name__}")] if want("raises") else []), ncalls

    # ---- (6) cache
    if want("cache"):
        warm = call(T, s)
        ncalls += 1
        if not (warm.ok and warm.val == out):
            fails.append(("cache", "warm-differs", f"cold {out!r}, warm {warm!r}"))
        elif full_cache:
            _bump(stats, "cache-union-varied")
            alt = call(T, s, union=ALT)
            warm2 = call(T, s)
            T.cache_clear()
            alt_cold = call(T, s, union=ALT)
            ncalls += 3
            if not (warm2.ok and warm2.val == out):
                fails.append(("cache", "warm-differs", f"cold {out!r}, after a union={ALT!r} call {warm2!r}"))
            elif not (alt.ok and alt_cold.ok and alt.val == alt_cold.val):
                fails.append(("cache", "union-key", f"union={ALT!r}: after a default call {alt!r}, cold {alt_cold!r}"))
            elif "typing.Union" not in s and ALT not in s:
                # the given name is the one used: wherever the default answer says typing.Union the other says ALT, i.e. the
                # two answers mean the same once ALT also builds unions, and the default name was not introduced
                # (only judged for inputs that mention neither name themselves)
                m_d = call(symtyping.meaning, out)
                if m_d.ok:
                    m_a = call(symtyping.meaning, alt.val, (ALT,))
                    if not (m_a.ok and m_a.val == m_d.val and "typing.Union" not in alt.val and (ALT in alt.val) == ("typing.Union" in out)):
                        fails.append(("cache", "union-name", f"union={ALT!r} gives {_short(alt.val)!r} (default gives {_short(out)!r})"))
        T.cache_clear()

    # ---- (4) fixpoint
    if want("fixpoint") and out != s and out not in _FIX_OK:  # (out == s: transform(out) is the call just judged)
        fx = call(T, out)
        ncalls += 1
        if fx.ok and fx.val == out:
            if len(_FIX_OK) > 50000:
                _FIX_OK.clear()
            _FIX_OK.add(out)
        if not fx.ok:
            fails.append(("fixpoint", "raises:" + fx.excname, f"transform(out) raised {fx.excname} for out={_short(out)!r}"))
        elif fx.val != out:
            fails.append(("fixpoint", "differs", f"out={_short(out)!r} but transform(out)={_short(fx.val)!r}"))

    tree_s = ast.parse(s, mode="eval")
    po = call(ast.parse, out, mode="eval")
    if not po.ok:
        if want("meaning"):
            fails.append(("meaning", "unparseable-output", f"out={_short(out)!r} is not an expression: {po.excname}"))
        return out, fails, ncalls
    tree_o = po.val

    # ---- (3) no PEP 604 union left (annotation inputs); a BitOr needs a '|' character, so scan only then
    if annot and want("nobitor") and "|" in out and has_bitor(tree_o):
        fails.append(("nobitor", "left", f"out={_short(out)!r} still has a | operator"))

    # ---- (5) untouched when nothing to rewrite
    if want("sametree") and not ("|" in s and has_bitor(tree_s, False)) and not (_GEN_RE.search(s) and has_generic_name(tree_s)):
        _bump(stats, "sametree-judged")
        if ast.dump(tree_s) != ast.dump(tree_o):
            fails.append(("sametree", "differs", f"nothing to rewrite but out={_short(out)!r}"))

    if not (want("real") or want("meaning")):
        return out, fails, ncalls
    code_s = code_o = None
    if annot:
        code_s, co = compile(tree_s, "<s>", "eval"), call(compile, tree_o, "<out>", "eval")
        code_o = co.val if co.ok else None

    # ---- (2) real meaning (annotation inputs).  "typing.Dict/List/Set/Tuple/Pattern for the subscripted or bare builtin
    # names": none of the five may be left as a name in the output (on the interpreters this is for, list[int] raises)
    if annot and want("real") and _GEN_RE.search(out) and has_generic_name(tree_o):
        left = sorted({n.id for n in ast.walk(tree_o) if isinstance(n, ast.Name) and n.id in _GEN})
        fails.append(("real", "builtin-generic-left", f"out={_short(out)!r} still names the builtin generic(s) {left}"))
    if annot and want("real"):
        rs = call(eval, code_s, REAL_NS)
        if not rs.ok:
            _bump(stats, "real-skipped")
        else:
            _bump(stats, "real-judged")
            ro = call(eval, code_o, REAL_NS) if code_o is not None else co
            if not ro.ok:
                fails.append(("real", "out-raises:" + ro.excname, f"input evaluates to {_short(rs.val, 80)} but out={_short(out)!r} raises {ro.excname}: {_short(str(ro.exc), 80)}"))
            else:
                a, b = call(struct, rs.val), call(struct, ro.val)
                if not (a.ok and b.ok and a.val == b.val):
                    fails.append(("real", "differs", f"input evaluates to {_short(rs.val, 80)}, out={_short(out)!r} to {_short(ro.val, 80)}"))

    # ---- (1) symbolic meaning
    if want("meaning") and not annot and _GEN_RE.search(s) and binds_generic(tree_s):
        ms, mo = call(symtyping.meaning, s), call(symtyping.meaning, out)
        _bump(stats, "meaning-unjudged-binder-shadows-generic:" + ("same" if ms.ok and mo.ok and ms.val == mo.val else "differs"))
    elif want("meaning"):
        if code_s is not None and code_o is not None:
            # cheap path: no desugaring (constants are Python constants on both sides); decisive when both evaluate
            ms, mo = call(symtyping.plain_meaning_of_code, code_s), call(symtyping.plain_meaning_of_code, code_o)
            if ms.ok and mo.ok:
                _bump(stats, "meaning-judged-plain")
                if not (ms.val == mo.val):
                    fails.append(("meaning", "differs", f"input means {_short(ms.val, 90)} but out={_short(out)!r} means {_short(mo.val, 90)}"))
                return out, fails, ncalls
        ms = call(symtyping.meaning_of_tree, tree_s)  # mutates the trees: keep last
        if not ms.ok:
            _bump(stats, "meaning-skipped")
        else:
            _bump(stats, "meaning-judged-desugared")
            mo = call(symtyping.meaning_of_tree, tree_o)
            if not mo.ok:
                fails.append(("meaning", "out-raises:" + mo.excname, f"input means {_short(ms.val, 80)} but out={_short(out)!r} raises {mo.excname} symbolically"))
            elif not (ms.val == mo.val):
                fails.append(("meaning", "differs", f"input means {_short(ms.val, 90)} but out={_short(out)!r} means {_short(mo.val, 90)}"))
    return out, fails, ncalls


def subexpressions(s: str):
    """proper sub-expressions of s that are expressions on their own (Load context), smallest first"""
    tree = ast.parse(s, mode="eval").body
    seen, out = {s}, []
    for n in ast.walk(tree):
        if n is tree or not isinstance(n, ast.expr) or isinstance(n, (ast.Slice, ast.Starred, ast.Constant)):
            continue
        if isinstance(getattr(n, "ctx", None), (ast.Store, ast.Del)):
            continue
        if isinstance(n, ast.Name) and n.id not in _GEN:
            continue
        t = ast.unparse(n)
        if t not in seen:
            seen.add(t)
            out.append((sum(1 for _ in ast.walk(n)), t))
    out.sort()
    return [t for _, t in out]


@functools.lru_cache(maxsize=20000)
def _fails_clause(sub: str, annot: bool, clause: str):
    _, fails, _ = judge(sub, annot, only=clause)
    for c, mode, detail in fails:
        if c == clause:
            return (mode, detail)
    return None


def _abstractions(s: str):
    """s with one proper compound sub-expression replaced by a fresh placeholder name, biggest sub-expression first"""
    tree = ast.parse(s, mode="eval")
    nodes = [n for n in ast.walk(tree.body) if n is not tree.body and isinstance(n, ast.expr)
             and not isinstance(n, (ast.Name, ast.Slice, ast.Starred)) and isinstance(getattr(n, "ctx", None), (ast.Load, type(None)))]
    sized = sorted(((sum(1 for _ in ast.walk(n)), i) for i, n in enumerate(nodes)), key=lambda t: (-t[0], t[1]))
    used = {n.id for n in ast.walk(tree) if isinstance(n, ast.Name)}
    fresh = next(f"p{k}" for k in range(100) if f"p{k}" not in used)
    for _, i in sized:
        n = nodes[i]
        saved = (n.__class__, dict(n.__dict__))
        n.__class__, n.__dict__ = ast.Name, {"id": fresh, "ctx": ast.Load()}
        try:
            yield ast.unparse(tree)
        finally:
            n.__class__ = saved[0]
            n.__dict__ = saved[1]


def localise(s: str, annot: bool, clause: str, mode: str, detail: str):
    """blame the smallest proper sub-expression that already fails the same clause, then abstract every operand of it that
    does not matter (replace by a fresh name while the clause still fails): one root cause -> one small witness"""
    for sub in subexpressions(s):
        r = _fails_clause(sub, annot, clause)
        if r is not None:
            s, mode, detail = sub, r[0], r[1]
            break
    for _ in range(24):
        for cand in _abstractions(s):
            r = _fails_clause(cand, annot, clause)
            if r is not None and r[0] == mode:
                s, mode, detail = cand, r[0], r[1]
                break
        else:
            break
    return s, mode, detail


def check_expr(s, annot, res, case, stats=None, full_cache=True):
    res.programs += 1
    out, fails, ncalls = judge(s, annot, stats=stats, full_cache=full_cache)
    res.evals += ncalls
    key = h64(s, out if out is not None else "<raises>")
    res.outcomes.add(key)
    if out is not None and out != s:
        res.nontrivial.add(key)
    for clause, mode, detail in fails:
        sub, m2, d2 = localise(s, annot, clause, mode, detail)
        sig = f"C20/{clause}/{shape(sub)}/{m2}"
        where = "" if sub == s else f" (smallest failing sub-expression of {_short(s, 120)!r})"
        res.violation(sig, f"{clause}: transform({sub!r}): {d2}{where}", dict(case, clause=clause))
    T.cache_clear()
    return out


def run_unit(unit, tier, res):
    spec, a, b = unit
    fam = exprs.family(spec)
    stats = {}
    _FIX_OK.clear()  # the memo never outlives a unit: counters do not depend on which worker ran what before
    small = len(fam) <= SMALL
    for i in range(a, b):
        s = fam[i]
        out = check_expr(s, fam.annotation, res, {"s": s, "annot": fam.annotation, "family": spec, "i": i}, stats,
                         full_cache=small or i % CACHE_STRIDE == 0)
        kind, depth = fam.info(i)
        res.hit(f"former:{kind}")
        res.hit(f"{spec.split(':')[0]}:depth{depth}")
        if (i - a) % 8 == 0 or not fam.annotation:  # feature table on a deterministic 1/8 stride (all of the small families)
            for f in features(ast.parse(s, mode="eval")):
                res.hit("feat(1/8 stride):" + f if fam.annotation else "feat(nonannot):" + f)
        if i == a and len(res.samples) < 3:
            res.samples.append({"family": spec, "i": i, "s": s, "out": out})
    for k, v in stats.items():
        res.hit("oracle:" + k, v)
    res.skipped += stats.get("real-skipped", 0)


def replay(case, tier, res):
    _FIX_OK.clear()
    check_expr(case["s"], bool(case.get("annot", True)), res, {k: v for k, v in case.items() if k != "clause"})
