"""C07 - recursive and mutually recursive types work at every depth (build terminates; every level converted)."""
from __future__ import annotations

import functools
import sys

import typelib

from ..kernel import cold
from ..kernel.canon import short
from ..kernel.guard import call, timed
from ..kernel.runner import h64
from ..refmodel.same import same
from ..universe import cycles, prelude

ID = "C07"
NMAX = {"quick": 2, "thorough": 3}
# depths above 50 are not judged: on CPython 3.12 the interpreter's C-level recursion budget (not adjustable through
# sys.setrecursionlimit) is exhausted between depth 100 and 150 for topologies with several nested calls per level, and inside a
# union the resulting RecursionError is an ordinary member failure ("no member accepts") - an interpreter limit, not a library property
DEPTHS = {"quick": list(range(0, 13)), "thorough": list(range(0, 13)) + [25, 50]}
STEP = 12
BUILD_LIMIT = 20.0  # wall clock; generous so that an overloaded machine is not mistaken for non-termination
MAXTASKS = 8


@functools.lru_cache(maxsize=None)
def topos(n):
    """n = 0: the extra topologies whose links go through a NewType / value alias of the target class"""
    return cycles.extra_topologies() if n == 0 else cycles.topologies(n)


def units(tier):
    out = []
    for n in range(0, NMAX[tier] + 1):
        N = len(topos(n))
        for a in range(0, N, STEP):
            out.append(("topo", n, a, min(N, a + STEP)))
    for i in range(len(cycles.ALIAS_PROGRAMS)):
        out.append(("alias", i, 0, 1))
    out.append(("two-modules", 0, 0, 1))
    return out


def meta(tier):
    return {
        "rule": f"every cyclic class topology over <= {NMAX[tier]} classes (1-2 links per class, <= n+1 links, edge kinds {cycles.KINDS} (a bare class-typed link only towards a class without bare links), non-root relabelings identified) "
        f"x module styles (from __future__ import annotations / eager with string back references / all classes nested in an outer class / TypedDict classes / NamedTuple classes / plain classes hinted only by the (string) annotations of their __init__ / dataclasses defining __call__) x every root form {cycles.ROOT_FORMS} of every class "
        f"x depths {DEPTHS[tier][0]}..{DEPTHS[tier][-1]} (payloads given as text so an unconverted level is visible), plus 10 recursive-alias programs (string-valued TypeAliasType and PEP 695 `type` statements, also with the alias value as root); "
        "oracle: build within the wall limit; unmarshal(T, wire) same-as the value built directly with the classes; marshal gives the all-plain wire; "
        "round trip; both build orders agree; every node of the depth-2 wire held by a list / dict / variadic-tuple edge replaced by null in turn: the call raises or the result holds a converted node there; non-trivial = the call returned; distinct by (topology, style, root, depth, outcome)",
        "bounds": {"classes": NMAX[tier], "depths": DEPTHS[tier]},
        "assumptions": ["cold state per program", "thorough tier: sys.setrecursionlimit(5000) (the library needs up to ~10 Python frames per level); depths above 50 are not judged (CPython's C recursion budget, see DEPTHS)"],
        "exhaustive": True,
    }


_modn = [0]


def load(src):
    _modn[0] += 1
    name = f"tlg_c07_{_modn[0]}"
    return name, cycles.view(prelude.mkmod(name, src).__dict__)


def judge_root(topo, style, ns, form, node, depths, res, case, order="mu", flavour="dc"):
    ann = cycles.root_ann(ns, form, node)
    if order == "mu":
        bm = timed(BUILD_LIMIT, typelib.marshaller, ann)
        bu = timed(BUILD_LIMIT, typelib.unmarshaller, ann)
    else:
        bu = timed(BUILD_LIMIT, typelib.unmarshaller, ann)
        bm = timed(BUILD_LIMIT, typelib.marshaller, ann)
    bc = timed(BUILD_LIMIT, typelib.codec, ann)
    res.evals += 3
    kinds = "+".join(topo.kinds())
    for nm, b in (("marshaller", bm), ("unmarshaller", bu), ("codec", bc)):
        if not b.ok:
            res.violation(f"C07/build/{nm}/root={form}/edges={kinds}/{'no-termination' if b.timeout else b.excname}",
                          f"{nm}({form} of C{node}) for topology {topo.key()} [{style}]: {b!r}", case)
            return None
    outs = []
    for d in depths:
        full = 2 if d <= 4 else 0
        w = cycles.root_wire(form, topo.wire(node, d, full))
        wi = cycles.root_wire(form, topo.wire(node, d, full, ints=True))
        e = cycles.root_expected(form, topo.expected(ns, node, d, full, flavour=flavour))
        u = call(bu.val, w)
        res.evals += 1
        key = h64(topo.key(), style, form, node, d, "ok" if u.ok else u.excname)
        res.outcomes.add(key)
        dclass = "d0" if d == 0 else "d1" if d == 1 else "d2-12" if d <= 12 else "deep"
        if not u.ok:
            res.violation(f"C07/unmarshal/root={form}/edges={kinds}/raises:{u.excname}/{dclass}",
                          f"unmarshal({form} of C{node}, depth {d}) raises {u!r}; topology {topo.key()} [{style}]", dict(case, d=d))
            outs.append(None)
            continue
        res.nontrivial.add(key)
        if not same(u.val, e):
            res.violation(f"C07/unmarshal/root={form}/edges={kinds}/level-not-converted/{dclass}",
                          f"unmarshal({form} of C{node}, depth {d}) = {short(u.val, 160)} but every level should be converted: {short(e, 160)}; topology {topo.key()} [{style}]", dict(case, d=d))
        if form == "cls" and flavour == "dc" and d in (1, 2) and isinstance(w, dict):
            # the root given as an INSTANCE of the root class whose members are still in wire form: every level below it is converted all the same
            raw = call(lambda: ns[f"C{node}"](**w))
            if raw.ok:
                ur = call(bu.val, raw.val)
                res.evals += 1
                if not ur.ok or not same(ur.val, e):
                    res.violation(f"C07/unmarshal/root=cls-instance-with-raw-members/edges={kinds}/{'raises:' + ur.excname if not ur.ok else 'level-not-converted'}/{dclass}",
                                  f"unmarshal(C{node}, C{node}(**wire of depth {d})) = {short(ur.val if ur.ok else ur.exc, 160)} expected {short(e, 160)}; topology {topo.key()} [{style}]", dict(case, d=d))
        if form == "cls" and d == 2 and isinstance(w, dict) and topo.n <= 2 and (style in ("future", "eager") or sum(len(ls) for ls in topo.links) <= 2):
            # (the same topologies and styles in both tiers: all topologies over <= 2 classes; the extra class styles on those with <= 2 links)
            # conformance at depth: a null in place of a node that sits in a list / dict / variadic-tuple edge is not a member of that
            # collection's element type - the call raises, or whatever it returns holds a converted node there, at every level
            for path, variant in _null_variants(w):
                un = call(bu.val, variant)
                res.evals += 1
                res.outcomes.add(h64(topo.key(), style, form, node, "null", repr(path), "ok" if un.ok else un.excname))
                if un.ok and _at(un.val, path) is None:
                    res.violation(f"C07/unmarshal/root={form}/edges={kinds}/null-member-of-a-collection-edge-accepted/level{len(path) // 2}",
                                  f"unmarshal(C{node}, wire of depth 2 with null at {path}) returns {short(un.val, 160)}: the collection edge holds None where its element type is a class; topology {topo.key()} [{style}]",
                                  dict(case, d=d))
        m = call(bm.val, e)
        res.evals += 1
        if not m.ok:
            res.violation(f"C07/marshal/root={form}/edges={kinds}/raises:{m.excname}/{dclass}",
                          f"marshal(depth-{d} value, t={form} of C{node}) raises {m!r}; topology {topo.key()} [{style}]", dict(case, d=d))
        elif not same(m.val, wi):
            res.violation(f"C07/marshal/root={form}/edges={kinds}/level-not-converted/{dclass}",
                          f"marshal(depth-{d} value) = {short(m.val, 160)} expected {short(wi, 160)}; topology {topo.key()} [{style}]", dict(case, d=d))
        else:
            rt = call(bu.val, m.val)
            res.evals += 1
            if not rt.ok or not same(rt.val, e):
                res.violation(f"C07/roundtrip/root={form}/edges={kinds}/{dclass}", f"round trip at depth {d} fails; topology {topo.key()} [{style}]", dict(case, d=d))
            if d in (0, 2):
                enc = call(bc.val.encode, e)
                dec = call(bc.val.decode, enc.val) if enc.ok else enc
                res.evals += 1
                if not dec.ok or not same(dec.val, e):
                    res.violation(f"C07/codec/root={form}/edges={kinds}/{dclass}", f"codec round trip at depth {d} fails: {dec!r}; topology {topo.key()} [{style}]", dict(case, d=d))
        outs.append(u.val if u.ok else None)
    return outs


def _null_paths(w, path=()):
    """wire paths (field, holder, field, holder, ...) of every node held by a list (holder 0) or by a mapping under the key 'kk'"""
    out = []
    for k, v in w.items():
        if not k.startswith("l"):
            continue
        if isinstance(v, list) and v and isinstance(v[0], dict):
            here = path + (k, 0)
            out.append(here)
            out += _null_paths(v[0], here)
        elif isinstance(v, dict) and isinstance(v.get("kk"), dict):
            here = path + (k, "kk")
            out.append(here)
            out += _null_paths(v["kk"], here)
        elif isinstance(v, dict) and "v" in v:
            out += _null_paths(v, path + (k, None))  # an optional / bare / pipe edge: descend only
        elif isinstance(v, dict) and isinstance(v.get("x"), dict):
            out += _null_paths(v["x"], path + (k, "x"))  # through a helper member
    return out


def _null_variants(w):
    return [(p, _set_none(w, p)) for p in _null_paths(w)]


def _set_none(root, path):
    import copy

    r = copy.deepcopy(root)
    cur = r
    steps = [p for p in path]
    # path = (field, holder, field, holder, ...): holder None = the field value itself is the node
    for i in range(0, len(steps) - 2, 2):
        cur = cur[steps[i]]
        if steps[i + 1] is not None:
            cur = cur[steps[i + 1]]
    f, h = steps[-2], steps[-1]
    cur[f][h] = None
    return r


def _at(val, path):
    """the element of the RESULT at the wire path (attributes or keys for fields, index / key for holders); a sentinel if the path breaks"""
    cur = val
    try:
        for i in range(0, len(path), 2):
            f, h = path[i], path[i + 1]
            cur = cur[f] if isinstance(cur, dict) else getattr(cur, f)
            if h is not None:
                cur = cur[h] if isinstance(h, str) and isinstance(cur, dict) else (getattr(cur, h) if isinstance(h, str) else list(cur)[h])
        return cur
    except Exception:  # noqa: BLE001
        return "<path-broken>"


def run_topo(n, idx, tier, res, only=None):
    topo = topos(n)[idx]
    fam_n, n = n, topo.n  # fam_n addresses the topology list (replay), n is the class count from here on
    depths = DEPTHS[tier]
    for style in ("future", "eager", "nested", "td", "nt", "init-future", "call"):
        extra_style = style not in ("future", "eager")
        if extra_style and n > 2:
            continue
        if extra_style and (tier == "quick" or style == "call") and sum(len(ls) for ls in topo.links) > 2:
            continue  # quick: the extra class styles only on the topologies with at most two links (the style `call` in both tiers)
        flavour = style if style in ("td", "nt") else "init" if style.startswith("init") else "dc"
        src = topo.source(style in ("future", "init-future", "call"), nested=(style == "nested"), flavour=flavour, callable_=(style == "call"))
        for node in range(n):
            for form in cycles.ROOT_FORMS:
                if only is not None and (style, node, form) != tuple(only):
                    continue
                ds = depths if (form in ("cls", "list")) else [d for d in depths if d <= 12]
                if style == "call":
                    ds = [d for d in ds if d <= 12]
                cold.clear_all()
                name, ns = load(src)
                res.programs += 1
                case = {"kind": "topo", "n": fam_n, "idx": idx, "only": [style, node, form], "topology": topo.key(), "module": src}
                try:
                    a = judge_root(topo, style, ns, form, node, ds, res, case, "mu", flavour)
                finally:
                    prelude.dropmod(name)
                # (3) the opposite build order in a fresh cold state must agree
                if form in ("cls", "list") and a is not None:
                    cold.clear_all()
                    name, ns = load(src)
                    try:
                        sub = Result_like(res)
                        b = judge_root(topo, style, ns, form, node, [d for d in ds if d <= 3], sub, case, "um", flavour)
                        if b is not None:
                            for x, y in zip(a, b):
                                if (x is None) != (y is None):
                                    res.violation(f"C07/build-order/root={form}/edges={'+'.join(topo.kinds())}", f"results differ with build order; topology {topo.key()} [{style}]", case)
                    finally:
                        prelude.dropmod(name)
    if len(res.samples) < 2:
        res.samples.append({"topology": topo.key(), "source_future": topo.source(True)})


class Result_like:
    """A view that forwards counters/violations to the real Result (used for the second build order)."""

    def __init__(self, res):
        self.__dict__["_r"] = res

    def __getattr__(self, k):
        return getattr(self._r, k)

    def __setattr__(self, k, v):
        setattr(self._r, k, v)


def run_alias(i, tier, res):
    name_, src, root = cycles.ALIAS_PROGRAMS[i]
    depths = [d for d in DEPTHS[tier] if d <= 100]
    cold.clear_all()
    name, ns = load(src)
    res.programs += 1
    case = {"kind": "alias", "idx": i, "program": name_, "source": src, "root": root}
    name_tag = name_ + (":pep695" if "\ntype " in "\n" + src else "") + (":value-as-root" if root.endswith("__value__") else "") + (":in-" + root.split("[")[0] if "[" in root else "") + (":class-field" if root == "H" else "")
    if root.startswith("dict[str,"):
        wrap_w = wrap_e = lambda x: {"kk": x}  # noqa: E731
    elif root.startswith("list["):
        wrap_w = wrap_e = lambda x: [x]  # noqa: E731
    elif root == "H":
        wrap_w, wrap_e = (lambda x: {"body": x, "n": "3"}), None
    else:
        wrap_w = wrap_e = lambda x: x  # noqa: E731
    try:
        ann = eval(root, ns)  # noqa: S307 - "A" or "A.__value__"
        bm = timed(BUILD_LIMIT, typelib.marshaller, ann)
        bu = timed(BUILD_LIMIT, typelib.unmarshaller, ann)
        res.evals += 2
        for nm, b in (("marshaller", bm), ("unmarshaller", bu)):
            if not b.ok:
                res.violation(f"C07/alias/{name_tag}/build/{nm}/{'no-termination' if b.timeout else b.excname}", f"{nm}({root}) of {src!r}: {b!r}", case)
                return
        if wrap_e is None:
            wrap_e = lambda x: ns["H"](body=x, n=3)  # noqa: E731
        for d in depths:
            w, e = cycles.alias_value(name_, d)
            w, e = wrap_w(w), wrap_e(e)
            u = call(bu.val, w)
            res.evals += 1
            res.outcomes.add(h64("alias", name_, d, "ok" if u.ok else u.excname))
            dclass = "d0" if d == 0 else "d1" if d == 1 else "d2-12" if d <= 12 else "deep"
            if not u.ok:
                res.violation(f"C07/alias/{name_tag}/unmarshal/raises:{u.excname}/{dclass}", f"unmarshal({root}, depth {d}) raises {u!r}", dict(case, d=d))
                continue
            res.nontrivial.add(h64("alias", name_, d))
            if not same(u.val, e):
                res.violation(f"C07/alias/{name_tag}/unmarshal/level-not-converted/{dclass}", f"unmarshal({root}, {short(w, 80)}) = {short(u.val, 120)}, expected {short(e, 120)}", dict(case, d=d))
            m = call(bm.val, e)
            res.evals += 1
            em = {"body": cycles.alias_value(name_, d)[1], "n": 3} if root == "H" else e
            if not m.ok or not same(m.val, em):
                res.violation(f"C07/alias/{name_tag}/marshal/{'raises:' + m.excname if not m.ok else 'value'}/{dclass}", f"marshal(depth {d}) = {m!r}", dict(case, d=d))
    finally:
        prelude.dropmod(name)


TWO_MOD_SHAPES = 'import typing\nScalar = int\nTree = typing.TypeAliasType("Tree", "dict[str, Tree | Scalar]")\nKids = typing.TypeAliasType("Kids", "list[Kids]")\n'
TWO_MOD_APP = ('import dataclasses, typing, tlg_c07_shapes\nPayload = typing.TypeAliasType("Payload", tlg_c07_shapes.Tree)\nNT = typing.NewType("NT", tlg_c07_shapes.Tree)\n'
               'FinalTree = typing.Final[tlg_c07_shapes.Tree]\n@dataclasses.dataclass\nclass Holder:\n    p: Payload\n    k: tlg_c07_shapes.Kids = dataclasses.field(default_factory=list)\n')


def run_two_modules(tier, res):
    """a string-valued recursive alias reached through wrappers declared in ANOTHER module that does not bind the names of the alias text"""
    cold.clear_all()
    prelude.mkmod("tlg_c07_shapes", TWO_MOD_SHAPES)
    app = prelude.mkmod("tlg_c07_app", TWO_MOD_APP).__dict__
    res.programs += 1
    case = {"kind": "two-modules"}
    for rootname in ("Payload", "NT", "FinalTree", "list[Payload]", "Holder"):
        cold.clear_all()
        ann = eval(rootname, app)  # noqa: S307
        for d in (0, 1, 2, 5):
            w, e = cycles.alias_value("dict-alias", d)
            if rootname == "list[Payload]":
                w, e = [w], [e]
            if rootname == "Holder":
                w, e = {"p": w, "k": [[]]}, app["Holder"](p=e, k=[[]])
            u = call(typelib.unmarshal, ann, w)
            res.evals += 1
            res.outcomes.add(h64("two-modules", rootname, d, "ok" if u.ok else u.excname))
            if u.ok:
                res.nontrivial.add(h64("two-modules", rootname, d))
            if not u.ok or not same(u.val, e):
                res.violation(f"C07/alias/two-modules/{rootname}/unmarshal/{'raises:' + u.excname if not u.ok else 'level-not-converted'}",
                              f"unmarshal({rootname}, depth {d}) -> {short(u.val if u.ok else u.exc, 120)}; expected {short(e, 120)}", case)
                break
            m = call(typelib.marshal, e, t=ann)
            res.evals += 1
            wi = cycles.alias_value("dict-alias", d)[1]
            if rootname == "list[Payload]":
                wi = [wi]
            if rootname == "Holder":
                wi = {"p": wi, "k": [[]]}
            if not m.ok or not same(m.val, wi):
                res.violation(f"C07/alias/two-modules/{rootname}/marshal/{'raises:' + m.excname if not m.ok else 'value'}", f"marshal(depth {d}, t={rootname}) -> {m!r}", case)
                break
    prelude.dropmod("tlg_c07_shapes")
    prelude.dropmod("tlg_c07_app")


def init_worker(tier):
    # "any depth below the interpreter's recursion limit": the library needs up to ~10 Python frames per level
    # (generator expressions, union suppression), so depth 150 does not fit under the default limit of 1000.
    # The deep tier therefore runs with a limit of 5000 - an environment parameter, stated in the evidence.
    if tier == "thorough":
        sys.setrecursionlimit(5000)


def run_unit(unit, tier, res):
    if unit[0] == "two-modules":
        run_two_modules(tier, res)
        return
    if unit[0] == "alias":
        run_alias(unit[1], tier, res)
        return
    _, n, a, b = unit
    for idx in range(a, b):
        run_topo(n, idx, tier, res)


def replay(case, tier, res):
    if case["kind"] == "two-modules":
        run_two_modules(tier, res)
        return
    if case["kind"] == "alias":
        run_alias(case["idx"], tier, res)
    else:
        run_topo(case["n"], case["idx"], tier, res, only=case.get("only"))
