"""Shared machinery of the E-val checks (C01 C02 C03 C06 C13 C14 ...): term sets, per-program cold
context, localisation of a failure to the smallest failing sub-term, value-feature table."""
from __future__ import annotations

import datetime
import functools

from ..kernel import cold
from ..kernel.canon import short
from ..kernel.guard import call, timed
from ..universe import prelude, programs
from ..universe import terms as T

BUILD_LIMIT = 20.0  # wall clock; generous so that an overloaded machine is not mistaken for non-termination


@functools.lru_cache(maxsize=None)
def term_set(name: str):
    """Named, deterministic term sets (DESIGN §3.2). Cached per process."""
    if name == "U1L_all":
        return T.U1(T.L_ALL, spellings="all")
    if name == "U1L":
        return T.U1(T.L_ALL)
    if name == "U1K3":  # ternary tuples / unions over K
        ls = T.leaves(T.K)
        return [t for t in T.compose1([], ternary_over=ls)]
    if name == "R2K":
        return T.R2(T.K)
    if name == "U2K":
        return T.U2(T.K)
    if name == "U1K":
        return T.U1(T.K)
    if name == "S3K4":
        return programs.spine3(T.K4)
    if name == "BYTES":
        b, ba = T.BYTES_LEAVES["bytes"], T.BYTES_LEAVES["bytearray"]
        s_ = T.LEAVES["str"]
        return [b, ba, T.Seq("list", b), T.Seq("list", ba), T.Map("dict", s_, b), T.Map("dict", s_, ba), T.Optional(b), T.Optional(ba),
                T.FTuple("tuple", [b, ba]), T.Seq("tuple...", b), T.ClsTerm("DC", "HasBytes", [("x", b, None), ("y", ba, None)])]
    if name.startswith("P:"):
        return programs.template_terms(name[2:])
    raise KeyError(name)


def ranges(setnames, step):
    """Units = (setname, start, stop) index ranges over the named sets."""
    out = []
    for s in setnames:
        n = len(term_set(s))
        for i in range(0, n, step):
            out.append((s, i, min(n, i + step)))
    return out


def unit_terms(unit):
    s, a, b = unit
    return term_set(s)[a:b]


class Prog:
    """One program in the cold state: fresh namespace, annotation object, lazily built routines."""

    def __init__(self, term, future=False, extra_src=""):
        cold.clear_all()
        self.term = term
        self.p = T.Program(term, extra_src=extra_src, future=future)
        self.ns = self.p.load()
        self.ann = self.p.ann()
        self._m = self._u = self._c = None

    def close(self):
        self.p.unload()

    def marshaller(self):
        if self._m is None:
            import typelib

            self._m = timed(BUILD_LIMIT, typelib.marshaller, self.ann)
        return self._m

    def unmarshaller(self):
        if self._u is None:
            import typelib

            self._u = timed(BUILD_LIMIT, typelib.unmarshaller, self.ann)
        return self._u

    def codec(self, **kw):
        import typelib

        return timed(BUILD_LIMIT, typelib.codec, self.ann, **kw)

    def describe(self):
        return self.p.describe()


def routines_for(term, ns):
    """Independently built public routines for a member term (cached by the library itself)."""
    import typelib

    ann = term.ann(ns)
    return ann, timed(BUILD_LIMIT, typelib.marshaller, ann), timed(BUILD_LIMIT, typelib.unmarshaller, ann)


# ------------------------------------------------------------------ features (DESIGN Appendix B)


def text_feature(s: str) -> str:
    import ast
    import json

    if s == "":
        return "empty"
    if len(s) == 2:
        return "len2"
    try:
        j = json.loads(s)
        if isinstance(j, bool) or j is None:
            return "json-keyword"
        if isinstance(j, (int, float)):
            return "json-number"
        if isinstance(j, (list, dict)):
            return "json-container"
        return "json-string"
    except ValueError:
        pass
    if s in ("None", "True", "False"):
        return "py-keyword"
    try:
        ast.literal_eval(s)
        return "py-literal"
    except (ValueError, SyntaxError, TypeError, MemoryError, RecursionError):
        pass
    for f, nm in ((datetime.date.fromisoformat, "iso-date"), (datetime.time.fromisoformat, "iso-time")):
        try:
            f(s)
            return nm
        except ValueError:
            pass
    if s.startswith("P") and len(s) > 1:
        return "iso-duration"
    if any(ord(c) < 32 for c in s):
        return "control"
    if any(ord(c) > 127 for c in s):
        return "non-ascii"
    return "plain"


def feature(v) -> str:  # noqa: C901
    import collections
    import enum

    if v is None:
        return "none"
    if isinstance(v, enum.Enum):
        return "enum:" + feature(v.value)
    if isinstance(v, bool):
        return "bool"
    if isinstance(v, int):
        if v == 0:
            return "zero"
        if abs(v) >= 2**63:
            return ">63bit"
        return "neg" if v < 0 else "small" if v < 2**31 else "large"
    if isinstance(v, float):
        import math

        if v == 0:
            return "negzero" if math.copysign(1, v) < 0 else "zero"
        if abs(v) < 2.3e-308:
            return "subnormal"
        if abs(v) >= 1e16:
            return "huge"
        return "plain"
    if isinstance(v, str):
        return "text:" + text_feature(v)
    if isinstance(v, datetime.timedelta):
        if v == datetime.timedelta(0):
            return "zero"
        if v < datetime.timedelta(0):
            return "negative"
        if abs(v.days) >= 7:
            return "|days|>=7"
        if v.microseconds:
            return "has-us"
        return "plain"
    if isinstance(v, (datetime.datetime, datetime.time)):
        off = v.utcoffset()
        if off is None:
            return "naive"
        if off != datetime.timedelta(0):
            return "non-utc-offset"
        if v.fold:
            return "fold1"
        if v.microsecond:
            return "utc-has-us"
        return "utc"
    if isinstance(v, datetime.date):
        return "date"
    if isinstance(v, (list, tuple, set, frozenset, dict, collections.deque)):
        n = len(v)
        if n == 0:
            return "empty"
        first = next(iter(v))
        try:
            if not isinstance(first, (int, float)) and hasattr(first, "__len__") and len(first) == 2:
                return "first-elem-len2"
        except TypeError:
            pass
        return "singleton" if n == 1 else "plain"
    import decimal
    import pathlib

    if isinstance(v, decimal.Decimal):
        if not v.is_finite():
            return "non-finite"
        return "exp" if "E" in str(v) else "plain"
    if isinstance(v, pathlib.PurePath):
        return "path:" + text_feature(str(v))
    return type(v).__name__


def localize(ns, term, v, fails, depth=0):
    """Descend into the first directly contained (member term, member value) that fails the same
    predicate on its own; return (minimal term, minimal value, mode)."""
    mode = fails(term, v)
    if mode is None:
        return None
    if depth < 8:
        for mt, mv in term.decompose(ns, v):
            sub = localize(ns, mt, mv, fails, depth + 1)
            if sub is not None:
                return sub
    return term, v, mode


def case_of(prog: Prog, v, extra=None):
    c = {"T": prog.term.src, "module": prog.p.src, "value": short(v, 300)}
    if extra:
        c.update(extra)
    return c


def report_build_failure(prop, prog, bad, res, setname, i, which="routines"):
    """Localise a construction failure to the smallest sub-term that cannot be built and record it."""
    mode = "timeout" if bad.timeout else bad.excname
    term = prog.term

    def cannot(t):
        _, a, b = routines_for(t, prog.ns)
        return not (a.ok and b.ok)

    cur = term
    for _ in range(8):
        nxt = next((a for a in cur.args if cannot(a)), None)
        if nxt is None:
            break
        cur = nxt
    res.evals += 1
    res.violation(
        f"{prop}/build/{cur.sig()}/{mode}",
        f"cannot build {which} for {cur.src}: {bad!r} (found in {term.src})",
        {"set": setname, "i": i, "vi": None, "T": term.src, "module": prog.p.src},
    )


def values_capped(term, ns, w, r, res, cap=400):
    vals = term.values(ns, w, r)
    if len(vals) > cap:
        res.caps.append(f"values-per-term>{cap}:{term.src}")
        vals = vals[:cap]
    return vals


def shallow_kind(t):
    """constructor kind + the kinds of its direct members only (keeps one root cause to a handful of cells)"""
    if not t.args or t.kind in ("leaf", "literal", "struct"):
        return t.sig()
    return f"{t.kind}[{','.join(a.sig() if not a.args or a.kind in ('leaf', 'literal', 'struct') else a.kind for a in t.args)}]"


def union_order_conflict(term) -> bool:
    """Does the annotation contain two unions over the same member set in different declared orders?
    typing makes them == (and hash-equal), so the library cannot tell them apart inside ONE annotation (known finding F3)."""
    seen = {}
    for t in term.walk():
        if t.kind in ("union", "optional") and len(t.members) > 1:
            key = (frozenset(m.src for m in t.members), t.none_at is not None)
            order = tuple(m.src for m in t.members)
            if key in seen and seen[key] != order:
                return True
            seen.setdefault(key, order)
    return False


def plain_wire(w):
    """A wire value with user subclasses of str / int / float (not enums) replaced by the builtin value they are: what a JSON
    text or an independent parser can carry. marshal(IntSub(1), t=IntSub) may hand back the IntSub itself - it IS an int."""
    import enum

    if isinstance(w, enum.Enum) or isinstance(w, bool):
        return w
    for base in (str, int, float):
        if isinstance(w, base) and type(w) is not base:
            return base(w)
    if type(w) is dict:
        return {plain_wire(k): plain_wire(x) for k, x in w.items()}
    if type(w) is list:
        return [plain_wire(x) for x in w]
    if type(w) is tuple:
        return tuple(plain_wire(x) for x in w)
    return w
