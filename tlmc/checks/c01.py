"""C01 - unmarshal(T, marshal(v, t=T)) == v (classes, utcoffsets); weak fixpoint for ambiguous unions."""
from __future__ import annotations

import typelib

from ..kernel.canon import chash, short
from ..kernel.guard import call
from ..kernel.runner import h64
from ..refmodel.same import same
from . import _eval as E

ID = "C01"

SETS = {
    "quick": ["U1L_all", "U1K3", "R2K", "P:P0q", "P:P1q", "P:P3q", "P:P4q", "P:P6q", "P:P7q"],
    "thorough": ["U1L_all", "U1K3", "U2K", "S3K4", "P:P0", "P:P1", "P:P3", "P:P4", "P:P6", "P:P7"],
}
WR = {"quick": (2, 2), "thorough": (2, 3)}
STEP = 40


def units(tier):
    return E.ranges(SETS[tier], STEP)


def meta(tier):
    return {
        "rule": "every term of the named term sets (DESIGN §3.2/§3.4) x every value of V(T; w, r); a case is (T, v); "
        "non-trivial = the round trip ran to completion (both routines returned); distinct by canonical (T, v, outcome)",
        "bounds": {"term_sets": SETS[tier], "w_r": WR[tier]},
        "assumptions": ["cold state per program (all typelib caches cleared); history independence is C12's obligation",
                        "valid values are instances of exactly the annotated classes (abstract spellings -> documented builtin)"],
        "exhaustive": True,
    }


def _rt(ann, v):
    m = call(typelib.marshal, v, t=ann)
    if not m.ok:
        return "marshal-raises:" + m.excname, m, None
    u = call(typelib.unmarshal, ann, m.val)
    if not u.ok:
        return "unmarshal-raises:" + u.excname, m, u
    if same(u.val, v):
        return None, m, u
    if type(u.val) is not type(v):
        return "class", m, u
    return "value", m, u


def _weak(ann, v):
    """marshal(unmarshal(T, m), t=T) == m for m = marshal(v, t=T)"""
    m = call(typelib.marshal, v, t=ann)
    if not m.ok:
        return False
    u = call(typelib.unmarshal, ann, m.val)
    if not u.ok:
        return False
    m2 = call(typelib.marshal, u.val, t=ann)
    return m2.ok and same(m2.val, m.val)


def _ambiguous(ns, uterm, v):
    """Is there a member Aj that v is an instance of, and an earlier declared member Ai that demonstrably
    accepts v (marshal side) or Aj's wire form (unmarshal side)? Uses independently built member routines."""
    ordered = uterm.ordered()
    if uterm.none_at is not None:
        # C08: "if None is a member, at whatever position, and x is None the result is None" - the None member
        # is effectively the earliest one; a value whose wire form is None is therefore ambiguous.
        for aj in uterm.members:
            if aj.conforms(ns, v, strict=True):
                _, mj, _ = E.routines_for(aj, ns)
                wj = call(mj.val, v) if mj.ok else None
                if wj is not None and wj.ok and wj.val is None:
                    return True
    for j, aj in enumerate(ordered):
        if aj is None or not aj.conforms(ns, v, strict=True):
            continue
        annj, mj, uj = E.routines_for(aj, ns)
        wj = call(mj.val, v) if mj.ok else None
        for ai in ordered[:j]:
            if ai is None:
                continue
            anni, mi, ui = E.routines_for(ai, ns)
            if mi.ok and call(mi.val, v).ok:
                return True
            if wj is not None and wj.ok and ui.ok and (call(ui.val, wj.val).ok or call(ui.val, E.plain_wire(wj.val)).ok):
                # (the wire form as it comes back from a text codec: IntSub(1) travels as 1)
                return True
    return False


def _explained_by_first_acceptor(ns, uterm, v):
    """The weak law fails at this union position.  Is the implementation nevertheless doing exactly what the
    first-acceptor rule (C08) prescribes, computed from the member routines built independently - i.e. is the
    failure inherent to members that accept (coerce) foreign values?  True = explained; False = the union
    routine itself deviates from the member-wise reference."""
    from ..kernel.guard import Out

    ann = uterm.ann(ns)
    mem = []
    for ai in uterm.members:
        _, mi, ui = E.routines_for(ai, ns)
        if not (mi.ok and ui.ok):
            return False
        mem.append((mi.val, ui.val))

    def ref(x, idx):
        if uterm.none_at is not None and x is None:
            return Out(True, None)
        for pair in mem:
            o = call(pair[idx], x)
            if o.ok:
                return o
        return Out(False, exc=ValueError("all members reject"))

    def agree(a, b):
        return a.ok == b.ok and (not a.ok or same(a.val, b.val))

    m = call(typelib.marshal, v, t=ann)
    if not agree(m, ref(v, 0)):
        return False
    if not m.ok:
        return True
    u = call(typelib.unmarshal, ann, m.val)
    if not agree(u, ref(m.val, 1)):
        return False
    if not u.ok:
        return True
    m2 = call(typelib.marshal, u.val, t=ann)
    return agree(m2, ref(u.val, 0))


def _has_ambiguous_union(ns, term, v):
    """Some union position on the path of v is ambiguous for the value found there."""
    if term.kind in ("union", "optional") and not (v is None and term.none_at is not None) and _ambiguous(ns, term, v):
        return True
    if term.kind in ("union", "optional"):
        if v is None:
            return False
        for i in term.member_of(ns, v):
            if _has_ambiguous_union(ns, term.members[i], v):
                return True
        return False
    for mt, mv in term.decompose(ns, v):
        if (mt.has_union or mt.has_opt) and _has_ambiguous_union(ns, mt, mv):
            return True
    return False


def check_value(prog, v, res, case):
    ns, term = prog.ns, prog.term
    mode, m, u = _rt(prog.ann, v)
    res.evals += 1
    key = h64(term.src, chash(v), mode or "ok")
    res.outcomes.add(key)
    if m is not None and m.ok and u is not None and u.ok:
        res.nontrivial.add(key)
    if mode is None:
        return
    if E.union_order_conflict(term):
        res.violation("C01/rt/both-union-orders-in-one-annotation",
                      f"round trip of {short(v, 100)} as {term.src} fails ({mode}): the annotation holds Union[A, B] and Union[B, A], which typing makes equal", case)
        return
    # ---- failure: ambiguity excuse, then localisation
    if (term.has_union or term.has_opt) and _has_ambiguous_union(ns, term, v):
        res.hit("ambiguous-union-weak-law")
        if _weak(prog.ann, v):
            return
        mode = "weak-law"

        def fails(t, x):
            ann = t.ann(ns)
            md, _, _ = _rt(ann, x)
            if md is None:
                return None
            if (t.has_union or t.has_opt) and _has_ambiguous_union(ns, t, x):
                return None if _weak(ann, x) else "weak-law"
            return md
    else:

        def fails(t, x):
            md, _, _ = _rt(t.ann(ns), x)
            return md

    loc = E.localize(ns, term, v, fails)
    if loc is not None and loc[2] == "weak-law" and loc[0].kind in ("union", "optional"):
        if _explained_by_first_acceptor(ns, loc[0], loc[1]):
            res.hit("weak-law-fails-under-first-acceptor-semantics")
            res.violation("C01/weak/first-acceptor-semantics",
                          f"weak fixpoint fails although the union does exactly what the first-acceptor rule prescribes (a member coerces a foreign value): "
                          f"{loc[0].src}, v={short(loc[1], 80)}, wire={short(m.val if m is not None and m.ok else None, 60)}", case)
            return
    if loc is None:
        # fails as a whole but not when re-run: should not happen (deterministic); report as composite
        loc = (term, v, mode)
    tmin, vmin, mmin = loc
    # the API-shape clause: unmarshaller(T)(marshaller(T)(v)) must agree with unmarshal(T, marshal(v, t=T))
    sig = f"C01/rt/{tmin.sig()}/{mmin}/{E.feature(vmin)}"
    res.violation(sig, f"round trip of {short(vmin, 120)} as {tmin.src}: {mmin}; wire={short(m.val if m is not None and m.ok else None, 80)} "
                       f"back={short(u.val if u is not None and u.ok else (u.exc if u is not None else m.exc), 120)} (found in {term.src})", case)


def run_term(setname, i, term, tier, res, only_vi=None):
    w, r = WR[tier]
    prog = E.Prog(term)
    try:
        res.programs += 1
        bm, bu = prog.marshaller(), prog.unmarshaller()
        if not (bm.ok and bu.ok):
            bad = bm if not bm.ok else bu
            mode = "timeout" if bad.timeout else bad.excname
            # localise build failures structurally
            def bfails(t, _x):
                _, a, b = E.routines_for(t, prog.ns)
                return None if a.ok and b.ok else "build"
            cur = term
            for _ in range(6):
                nxt = next((a for a in cur.args if bfails(a, None)), None)
                if nxt is None:
                    break
                cur = nxt
            res.evals += 1
            res.violation(f"C01/build/{cur.sig()}/{mode}", f"cannot build routines for {cur.src}: {bad!r} (found in {term.src})",
                          {"set": setname, "i": i, "vi": None, "T": term.src})
            return
        vals = term.values(prog.ns, w, r)
        if len(vals) > 400:
            res.caps.append(f"values-per-term>400:{term.src}")
            vals = vals[:400]
        for vi, v in enumerate(vals):
            if only_vi is not None and vi != only_vi:
                continue
            case = {"set": setname, "i": i, "vi": vi, "T": term.src, "value": short(v, 200), "module": prog.p.src}
            check_value(prog, v, res, case)
            # second API shape on the same value (fresh copy of the value is not needed: routines must not mutate)
            if vi < 3:
                o1 = call(lambda: bu.val(bm.val(v)))
                o2 = call(lambda: typelib.unmarshal(prog.ann, typelib.marshal(v, t=prog.ann)))
                res.evals += 1
                if o1.ok != o2.ok or (o1.ok and not same(o1.val, o2.val)):
                    res.violation(f"C01/api-shape/{term.sig()}", f"unmarshaller(T)(marshaller(T)(v)) != unmarshal(T, marshal(v, t=T)) for {term.src}, v={short(v)}", case)
        if len(res.samples) < 3 and vals:
            res.samples.append({"T": term.src, "v": short(vals[-1], 100), "n_values": len(vals)})
    finally:
        prog.close()


def run_unit(unit, tier, res):
    s, a, b = unit
    for off, term in enumerate(E.unit_terms(unit)):
        run_term(s, a + off, term, tier, res)


def replay(case, tier, res):
    term = E.term_set(case["set"])[case["i"]]
    run_term(case["set"], case["i"], term, tier, res, only_vi=case.get("vi"))
