"""C15 - every valid annotation yields working routines; unresolvable positions pass through; construction is repeatable."""
from __future__ import annotations

import datetime
import functools

import typelib

from ..kernel import cold
from ..kernel.canon import short
from ..kernel.guard import call, timed
from ..kernel.runner import h64
from ..refmodel.same import same
from ..universe import prelude

ID = "C15"
STEP = 400
BUILD_LIMIT = 20.0  # wall clock; generous so that an overloaded machine is not mistaken for non-termination
MAXTASKS = 8

MODSRC = '''
import dataclasses, typing, collections.abc, datetime, types
T = typing.TypeVar("T")
TB = typing.TypeVar("TB", bound=int)
TC = typing.TypeVar("TC", int, str)
@dataclasses.dataclass
class DC:
    a: int
    b: str = "x"
class Box(typing.Generic[T]):
    item: T
    def __init__(self, item: T):
        self.item = item
    def __eq__(self, o):
        return type(o) is Box and o.item == self.item
    def __hash__(self):
        return hash(id(self.item))
    def __repr__(self):
        return f"Box({self.item!r})"
class NoHints:
    def __init__(self, *a, **k):
        pass
class NoHintsDefault:
    def __init__(self, parent=None, retries=0):
        self.parent = parent
        self.retries = retries
    def __eq__(self, o):
        return type(o) is NoHintsDefault and (o.parent, o.retries) == (self.parent, self.retries)
    def __hash__(self):
        return 1
    def __repr__(self):
        return f"NoHintsDefault({self.parent!r}, {self.retries!r})"
import collections as _collections
CNT = _collections.namedtuple("CNT", ["x", "y"])  # a named tuple WITHOUT annotations: its members are unresolvable positions
class NoHintsExc(Exception):  # hint-less classes on C bases without a text signature
    pass
class NoHintsNS(types.SimpleNamespace):
    pass
class Outer:
    @dataclasses.dataclass
    class NDC:  # a class nested in a class; the module also has a top-level class of the same name
        a: int = 0
@dataclasses.dataclass
class NDC:
    a: str = ""
type RecTree = list[RecTree] | int
type RecDict = dict[str, RecDict | int]
AliasT = typing.TypeAliasType("AliasT", T)
NewT = typing.NewType("NewT", T)
NewTB = typing.NewType("NewTB", TB)
@dataclasses.dataclass
class GenDC(typing.Generic[T, TB]):
    item: typing.Final[T] = None
    n: TB = 0
'''
MODNAME = "tlg_c15"
UTC = datetime.timezone.utc
DT = datetime.datetime(1970, 1, 1, tzinfo=UTC)

# name -> (src, kind) ; kind: conv (resolvable, conversion visible), pass (unresolvable: sentinel passes through), bare (container, contents pass), build (construct only)
ATOMS = [
    ("int", "int", "conv"), ("str", "str", "conv"), ("datetime", "datetime.datetime", "conv"), ("DC", "DC", "conv"),
    ("Any", "typing.Any", "pass"), ("object", "object", "pass"),
    ("list", "list", "bare"), ("dict", "dict", "bare"), ("tuple", "tuple", "bare"), ("set", "set", "bare"), ("frozenset", "frozenset", "bare"),
    ("List", "typing.List", "bare"), ("Dict", "typing.Dict", "bare"), ("Tuple", "typing.Tuple", "bare"), ("Set", "typing.Set", "bare"),
    ("Sequence", "typing.Sequence", "bare"), ("Mapping", "typing.Mapping", "bare"),
    ("T", "T", "pass"), ("TB", "TB", "conv"), ("TC", "TC", "conv"),
    ("Callable", "typing.Callable", "pass"), ("Callable1", "typing.Callable[[int], str]", "pass"), ("CallableE", "typing.Callable[..., int]", "pass"),
    ("type_int", "type[int]", "pass"), ("Type_DC", "typing.Type[DC]", "pass"),
    ("Box", "Box", "box"), ("Box_int", "Box[int]", "build"), ("NoHints", "NoHints", "build"),
    # a type variable hidden behind a wrapper
    ("RecTree", "RecTree", "rec"), ("RecDict", "RecDict", "rec"), ("None", "None", "none"), ("NoHintsDefault", "NoHintsDefault", "nohints"),
    ("Final_T", "typing.Final[T]", "pass"), ("AliasT", "AliasT", "pass"), ("NewT", "NewT", "pass"), ("NewTB", "NewTB", "conv"), ("GenDC", "GenDC", "gendc"),
    # leaves (arguments are not member types) behind a qualifier
    ("Final_Callable1", "typing.Final[typing.Callable[[int], str]]", "pass"), ("Final_type_int", "typing.Final[type[int]]", "pass"),
    ("NoHintsExc", "NoHintsExc", "build"), ("NoHintsNS", "NoHintsNS", "build"), ("NestedDC", "Outer.NDC", "conv"), ("CNT", "CNT", "cnt"),
]
E8 = ["int", "DC", "Any", "object", "list", "T", "Callable1", "Box_int"]
UNARY = ("list", "set", "vtuple", "opt", "dict", "dvt")
BINARY = ("ftuple", "union")
AIDX = {a[0]: i for i, a in enumerate(ATOMS)}


def src(t):
    if t[0] == "atom":
        return ATOMS[t[1]][1]
    if t[0] == "un":
        s = src(t[2])
        return {"list": f"list[{s}]", "set": f"set[{s}]", "vtuple": f"tuple[{s}, ...]", "opt": f"typing.Optional[{s}]", "dict": f"dict[str, {s}]",
                "dvt": f"tuple[tuple[{s}, ...], tuple[{s}, ...]]"}[t[1]]
    a, b = src(t[2]), src(t[3])
    return f"tuple[{a}, {b}]" if t[1] == "ftuple" else f"typing.Union[{a}, {b}]"


def depth(t):
    return 0 if t[0] == "atom" else 1 + max(depth(x) for x in t[2:])


class Unjudged(Exception):
    pass


def probe(t, ns, S):
    """(input, expected unmarshal result, value for marshal, expected marshal output) for the pass-through clause."""
    if t[0] == "atom":
        name, _, kind = ATOMS[t[1]]
        if name in ("int", "TB", "TC", "NewTB"):
            return "7", 7, 7, 7
        if name == "str":
            return 7, "7", "7", "7"
        if name == "datetime":
            return DT.isoformat(), DT, DT, DT.isoformat()
        if name == "DC":
            return {"a": "1", "b": 2}, ns["DC"](1, "2"), ns["DC"](1, "2"), {"a": 1, "b": "2"}
        if name == "CNT":
            return {"x": S, "y": "1"}, ns["CNT"](S, "1"), ns["CNT"](S, "1"), {"x": S, "y": "1"}
        if name == "NestedDC":
            return {"a": "1"}, ns["Outer"].NDC(1), ns["Outer"].NDC(1), {"a": 1}
        if kind == "pass":
            s = {"Callable": len, "Callable1": len, "CallableE": len, "type_int": int, "Type_DC": ns["DC"], "Final_Callable1": len, "Final_type_int": int}.get(name, S)
            return s, s, s, s
        if kind == "bare":
            if name in ("list", "List", "Sequence"):
                return [S, "x"], [S, "x"], [S, "x"], [S, "x"]
            if name in ("dict", "Dict", "Mapping"):
                # an unparameterised mapping has no key type either: keys of any hashable class pass through, like the values
                return {"k": S, 1: "i", (2, 3): None}, {"k": S, 1: "i", (2, 3): None}, {"k": S, 1: "i", (2, 3): None}, {"k": S, 1: "i", (2, 3): None}
            if name in ("tuple", "Tuple"):
                return (S, "x"), (S, "x"), (S, "x"), [S, "x"]
            if name in ("set", "Set"):
                return {S}, {S}, {S}, [S]
            if name == "frozenset":
                return frozenset({S}), frozenset({S}), frozenset({S}), [S]
        if kind == "box":
            return {"item": S}, ns["Box"](S), ns["Box"](S), {"item": S}
        if name == "None":
            return None, None, None, None
        if name == "NoHintsDefault":
            # constructor parameters without annotations are unresolvable positions: whatever is given passes through
            return {"parent": S, "retries": "x"}, ns["NoHintsDefault"](S, "x"), ns["NoHintsDefault"](S, "x"), {"parent": S, "retries": "x"}
        if name == "RecTree":
            return [["7"], "7"], [[7], 7], [[7], 7], [[7], 7]
        if name == "RecDict":
            return {"k": {"n": "7"}, "n": "7"}, {"k": {"n": 7}, "n": 7}, {"k": {"n": 7}, "n": 7}, {"k": {"n": 7}, "n": 7}
        if kind == "gendc":
            return {"item": S, "n": "7"}, ns["GenDC"](S, 7), ns["GenDC"](S, 7), {"item": S, "n": 7}
        raise Unjudged(name)
    if t[0] == "un":
        f = t[1]
        x, e, v, m = probe(t[2], ns, S)
        if f == "list":
            return [x], [e], [v], [m]
        if f == "set":
            try:
                return [x], {e}, {v}, [m]
            except TypeError:
                raise Unjudged("unhashable set member") from None
        if f == "vtuple":
            return [x], (e,), (v,), [m]
        if f == "opt":
            if x is None:
                raise Unjudged("none")
            return x, e, v, m
        if f == "dict":
            return {"k": x}, {"k": e}, {"k": v}, {"k": m}
        if f == "dvt":
            return [[x], [x, x]], ((e,), (e, e)), ((v,), (v, v)), [[m], [m, m]]
    if t[1] == "union":
        raise Unjudged("union: first-acceptor semantics, see C08")
    x1, e1, v1, m1 = probe(t[2], ns, S)
    x2, e2, v2, m2 = probe(t[3], ns, S)
    return [x1, x2], (e1, e2), (v1, v2), [m1, m2]


def has_opt_of_passthrough(t):
    """Optional[Any]-like positions: Any already admits None; pass-through still holds - fine. Nothing excluded."""
    return False


@functools.lru_cache(maxsize=None)
def terms(tier):
    atoms = [("atom", i) for i in range(len(ATOMS))]
    d1 = [("un", f, a) for f in UNARY for a in atoms] + [("bin", f, a, b) for f in BINARY for a in atoms for b in atoms if not (f == "union" and a == b)]
    out = atoms + d1
    if tier == "quick":
        # R2: binary constructors with at least one atom argument
        out += [("un", f, a) for f in UNARY for a in d1]
        out += [("bin", f, a, b) for f in BINARY for a in d1[::3] for b in atoms[::2]]
        out += [("bin", f, b, a) for f in BINARY for a in d1[::3] for b in atoms[::2]]
        # the diagonal: one atom at two depths of one annotation (the shape that makes the graph revisit a type), both orders
        out += [("bin", "ftuple", ("un", f, a), a) for f in UNARY for a in atoms] + [("bin", "ftuple", a, ("un", f, a)) for f in UNARY for a in atoms]
    else:
        lv1 = atoms + d1
        out += [("un", f, a) for f in UNARY for a in d1]
        # depth 2, binary formers: (any depth-1 term, atom) in both orders, and (unary depth-1, unary depth-1); the pairs of two BINARY depth-1
        # terms (10^7 annotations with 40 atoms) are left out
        d1u = [t for t in d1 if t[0] == "un"]
        out += [("bin", f, a, b) for f in BINARY for a in d1 for b in atoms]
        out += [("bin", f, b, a) for f in BINARY for a in d1 for b in atoms]
        out += [("bin", f, a, b) for f in BINARY for a in d1u for b in d1u if not (f == "union" and a == b)]
        # depth-3 spines over E8
        e8 = [("atom", AIDX[n]) for n in E8]
        s1 = [("un", f, a) for f in UNARY for a in e8] + [("bin", f, a, b) for f in BINARY for a in e8 for b in e8 if a != b]
        s2 = [("un", f, a) for f in UNARY for a in s1] + [("bin", f, a, b) for f in BINARY for a in s1 for b in e8] + [("bin", f, b, a) for f in BINARY for a in s1 for b in e8]
        s3 = [("un", f, a) for f in UNARY for a in s2] + [("bin", f, a, b) for f in BINARY for a in s2[::2] for b in e8[::2]]
        out += s3
    return out


def units(tier):
    n = len(terms(tier))
    return [("t", a, min(n, a + STEP)) for a in range(0, n, STEP)]


def meta(tier):
    return {
        "rule": f"every annotation of the extended grammar over {len(ATOMS)} atoms (K4 + Any, object, bare builtin and typing containers, TypeVars free/bound/constrained, Callable forms, "
        "type[X], user generic bare/parameterised, hint-less class) and formers list/set/tuple[X,...]/Optional/dict[str,X]/two variadic tuples/tuple[X,Y]/Union[X,Y]: "
        + ("depth <= 1 complete; depth 2: every unary former over every depth-1 term, the binary formers over (every 3rd depth-1 term x every 2nd atom) in both argument orders, "
           "and the complete diagonal tuple[F[a], a] / tuple[a, F[a]] (one atom at two depths) for every atom a and unary former F" if tier == "quick" else "depth <= 1 complete; depth 2: every unary former over every depth-1 term, the binary formers over (depth-1 term, atom) in both orders and over (unary depth-1, unary depth-1); plus depth-3 spines over 8 atoms")
        + "; (1) marshaller, unmarshaller, codec construct within the wall limit; (2) an opaque sentinel at every unresolvable position comes back by identity from both directions while "
        "resolvable siblings are converted; (3) building again, and after clearing caches, agrees on the probe; non-trivial = the pass-through clause was judged; distinct by (annotation, outcome)",
        "bounds": {"terms": len(terms(tier)), "atoms": [a[0] for a in ATOMS]},
        "assumptions": ["unions are judged for construction and repeatability only (first-acceptor semantics is C08)", "Box[int] / hint-less classes: construction only"],
        "exhaustive": True,
    }


_ns = [None]


def ns_():
    if _ns[0] is None:
        import sys

        m = sys.modules.get(MODNAME) or prelude.mkmod(MODNAME, MODSRC)
        _ns[0] = m.__dict__
    return _ns[0]


def shape(t):
    """former chain + kinds of the atoms (one root cause = a handful of cells)"""
    if t[0] == "atom":
        return ATOMS[t[1]][0]
    if t[0] == "un":
        return f"{t[1]}<{shape(t[2])}>"
    return f"{t[1]}<{shape(t[2])},{shape(t[3])}>"


def kinds(t):
    if t[0] == "atom":
        return {ATOMS[t[1]][2] if ATOMS[t[1]][2] != "conv" else "conv"}
    out = set()
    for x in t[2:]:
        out |= kinds(x)
    return out


def cell(t):
    formers = []

    def walk(x):
        if x[0] != "atom":
            formers.append(x[1])
            for y in x[2:]:
                walk(y)

    walk(t)
    atoms = sorted({ATOMS[x[1]][0] for x in _atoms(t) if ATOMS[x[1]][2] != "conv"})
    return "+".join(sorted(set(formers))) + "/" + "+".join(atoms or ["resolvable-only"])


def _atoms(t):
    if t[0] == "atom":
        yield t
    else:
        for x in t[2:]:
            yield from _atoms(x)


def run_term(i, t, res):
    ns = ns_()
    cold.clear_all()
    s = src(t)
    case = {"i": i, "T": s}
    o = call(eval, s, ns)  # noqa: S307
    if not o.ok:
        res.skipped += 1
        res.hit("python-rejects-the-annotation")
        return
    ann = o.val
    res.programs += 1
    builds = [(nm, timed(BUILD_LIMIT, f, ann)) for nm, f in (("marshaller", typelib.marshaller), ("unmarshaller", typelib.unmarshaller), ("codec", typelib.codec))]
    res.evals += 3
    bad = next(((nm, b) for nm, b in builds if not b.ok), None)
    res.outcomes.add(h64(s, "build", bad[1].excname if bad and not bad[1].timeout else ("timeout" if bad else "ok")))
    if bad:
        nm, b = bad
        # localise: smallest sub-annotation that cannot be built
        cur = t
        for _ in range(6):
            nxt = None
            for sub in (cur[2:] if cur[0] != "atom" else ()):
                a2 = call(eval, src(sub), ns)  # noqa: S307
                if a2.ok and not all(timed(BUILD_LIMIT, f, a2.val).ok for f in (typelib.marshaller, typelib.unmarshaller)):
                    nxt = sub
                    break
            if nxt is None:
                break
            cur = nxt
        res.violation(f"C15/build/{nm}/{cell(cur)}/{'no-termination' if b.timeout else b.excname}", f"{nm}({src(cur)}) cannot be constructed: {b!r} (found in {s})", case)
        return
    m, u, c = (b.val for _, b in builds)
    S = object()
    try:
        x, e, v, w = probe(t, ns, S)
    except Unjudged:
        x = None
        res.hit("pass-through-not-judged")
    else:
        res.nontrivial.add(h64(s))
        ou = call(u, x)
        om = call(m, v)
        res.evals += 2
        if not ou.ok or not same(ou.val, e):
            res.violation(f"C15/pass-through/unmarshal/{cell(t)}/{'raises:' + ou.excname if not ou.ok else 'differs'}",
                          f"unmarshal({s}, {short(x, 80)}) -> {short(ou.val if ou.ok else ou.exc, 100)}; expected {short(e, 100)} (sentinel by identity, siblings converted)", case)
        if not om.ok or not same(om.val, w):
            res.violation(f"C15/pass-through/marshal/{cell(t)}/{'raises:' + om.excname if not om.ok else 'differs'}",
                          f"marshal({short(v, 80)}, t={s}) -> {short(om.val if om.ok else om.exc, 100)}; expected {short(w, 100)}", case)
        # (3) repeatability: again, and after clearing every cache
        for phase in ("again", "after-clearing-the-routine-caches", "after-clear"):
            if phase == "after-clear":
                cold.clear_all()
            elif phase == "after-clearing-the-routine-caches":
                _clear_routine_caches()
            u2 = timed(BUILD_LIMIT, typelib.unmarshaller, ann)
            m2 = timed(BUILD_LIMIT, typelib.marshaller, ann)
            res.evals += 2
            if not (u2.ok and m2.ok):
                res.violation(f"C15/repeatable/{phase}/build-fails/{cell(t)}", f"second construction ({phase}) of routines for {s} fails: {u2!r} {m2!r}", case)
                continue
            ou2, om2 = call(u2.val, x), call(m2.val, v)
            if ou2.ok != ou.ok or (ou.ok and not same(ou2.val, ou.val)) or om2.ok != om.ok or (om.ok and not same(om2.val, om.val)):
                res.violation(f"C15/repeatable/{phase}/behaviour-differs/{cell(t)}", f"routines built {phase} for {s} behave differently on the probe", case)
    if x is None:
        # construct-only terms: still require repeatable construction
        cold.clear_all()
        b2 = [timed(BUILD_LIMIT, f, ann) for f in (typelib.marshaller, typelib.unmarshaller)]
        res.evals += 2
        if not all(b.ok for b in b2):
            res.violation(f"C15/repeatable/after-clear/build-fails/{cell(t)}", f"second construction of routines for {s} fails", case)
    if len(res.samples) < 2:
        res.samples.append({"T": s})


def _clear_routine_caches():
    """Forget the built routines and node sequences only (what a long-running process does when it evicts them), keep every other memo:
    the second construction then walks the type graph again on top of whatever the first walk left behind."""
    import typelib.codecs
    import typelib.graph
    import typelib.marshals.api
    import typelib.unmarshals.api

    for mod, names in ((typelib.marshals.api, ("_marshaller", "marshaller")), (typelib.unmarshals.api, ("_unmarshaller", "unmarshaller")),
                       (typelib.codecs, ("_codec", "codec")), (typelib.graph, ("_static_order", "static_order", "itertypes"))):
        for n in names:
            f = getattr(mod, n, None)
            if f is not None and hasattr(f, "cache_clear"):
                f.cache_clear()


def run_unit(unit, tier, res):
    _, a, b = unit
    ts = terms(tier)
    for i in range(a, b):
        run_term(i, ts[i], res)


def replay(case, tier, res):
    run_term(case["i"], terms(tier)[case["i"]], res)
