"""C02 - JSON wire round trip and agreement of all entry points, under three encoder/decoder configurations."""
from __future__ import annotations

import json

import typelib

from ..kernel.canon import chash, short
from ..kernel.guard import call, timed
from ..kernel.runner import h64
from ..refmodel.same import same
from ..universe import terms as T
from . import _eval as E
from . import c01

ID = "C02"
SETS = {
    "quick": ["U1L_all", "R2K", "P:P0q", "P:P1q", "P:P7q"],
    "thorough": ["U1L_all", "U1K3", "U2K", "P:P0", "P:P1", "P:P3", "P:P4", "P:P7"],
}
WR = {"quick": (2, 2), "thorough": (2, 3)}
STEP = 40


def _std_enc(o):
    return json.dumps(o).encode("utf-8")


def _tag_enc(o):
    return b"\x01" + json.dumps(o).encode("utf-8")


def _tag_dec(b):
    if bytes(b[:1]) != b"\x01":
        raise ValueError("missing tag")
    return json.loads(bytes(b[1:]))


CONFIGS = {
    "default": None,
    "stdlib": (_std_enc, json.loads),
    "tag": (_tag_enc, _tag_dec),
}


def _same_document(cfg, b1, b2):
    """the two encodings are the same JSON document (object members are unordered: a class declaring its fields in another
    order re-encodes the same members in that order)"""
    dec = _tag_dec if cfg == "tag" else json.loads
    p1, p2 = call(dec, b1), call(dec, b2)
    return p1.ok and p2.ok and same(p1.val, p2.val)


def units(tier):
    return E.ranges(SETS[tier], STEP) + [("bytes", 0, 1), ("strref", 0, 1)]


def meta(tier):
    return {
        "rule": "every term with str-keyed mappings and no bytes-like members of the named sets x every value of V(T; w, r) x "
        "{default (compat.json), stdlib json, tagging codec}: (1) codec round trip (weak form for ambiguous unions), (2) stdlib json.loads(encoded) "
        "is exactly marshal(v, t=T), (3) typelib.encode / Codec.encode / encoder(marshal(...)) agree and the three decode paths agree, "
        "(4) bytes-like roots carried verbatim; non-trivial = encode returned; distinct by canonical (T, v, config, outcome)",
        "bounds": {"term_sets": SETS[tier], "w_r": WR[tier], "configs": list(CONFIGS)},
        "assumptions": ["cold state per program", "ints within 64 bit, finite floats, valid Unicode (the alphabets of DESIGN §3.1)"],
        "exhaustive": True,
    }


def eligible(term):
    if term.has_bytes:
        return False
    for t in term.walk():
        if t.kind == "dict" and not t.args[0].strkey:
            return False
    return True


def _codec(ann, cfg):
    if CONFIGS[cfg] is None:
        return timed(E.BUILD_LIMIT, typelib.codec, ann)
    e, d = CONFIGS[cfg]
    return timed(E.BUILD_LIMIT, typelib.codec, ann, encoder=e, decoder=d)


def _rt_mode(cdc, v):
    enc = call(cdc.encode, v)
    if not enc.ok:
        return "encode-raises:" + enc.excname, enc, None
    dec = call(cdc.decode, enc.val)
    if not dec.ok:
        return "decode-raises:" + dec.excname, enc, dec
    if same(dec.val, v):
        return None, enc, dec
    return ("class" if type(dec.val) is not type(v) else "value"), enc, dec


def _has_wide_int(w):
    if isinstance(w, bool):
        return False
    if isinstance(w, int):
        return not (-(2**63) <= w < 2**64)
    if isinstance(w, dict):
        return any(_has_wide_int(k) or _has_wide_int(x) for k, x in w.items())
    if isinstance(w, (list, tuple)):
        return any(_has_wide_int(x) for x in w)
    return False


def judge(prog, cfg, cdc, v, res, case):
    ns, term, ann = prog.ns, prog.term, prog.ann
    mode, enc, dec = _rt_mode(cdc, v)
    if not enc.ok and cfg == "default":
        # the property restricts ints to the default encoder's 64-bit range; first-acceptor unions can put a wider int on
        # the wire (int(UUID) under Union[int, UUID]) - outside the quantifier, counted and skipped
        mm = call(typelib.marshal, v, t=ann)
        if mm.ok and _has_wide_int(mm.val):
            res.skipped += 1
            res.hit("skipped:wire-int-beyond-64bit")
            return
    res.evals += 1
    key = h64(term.src, cfg, chash(v), mode or "ok")
    res.outcomes.add(key)
    if enc.ok:
        res.nontrivial.add(key)
    # (1) round trip
    if mode is not None and E.union_order_conflict(term):
        res.violation("C02/rt/both-union-orders-in-one-annotation", f"codec round trip of {short(v, 100)} as {term.src} fails ({mode}): Union[A, B] and Union[B, A] in one annotation", case)
        mode = None
    if mode is not None:
        excused = False
        if (term.has_union or term.has_opt) and c01._has_ambiguous_union(ns, term, v):
            # weak form: encode(decode(encode(v))) == encode(v)
            if enc.ok and dec is not None and dec.ok:
                e2 = call(cdc.encode, dec.val)
                excused = e2.ok and (e2.val == enc.val or _same_document(cfg, e2.val, enc.val))
            if not excused:
                # inherent to first-acceptor semantics with coercive members? (same classification as C01)
                res.hit("weak-form-needed")
                loc = None

                def wfails(t, x):
                    md, _, _ = c01._rt(t.ann(ns), x)
                    if md is None:
                        return None
                    if (t.has_union or t.has_opt) and c01._has_ambiguous_union(ns, t, x):
                        return None if c01._weak(t.ann(ns), x) else "weak-law"
                    return md

                loc = E.localize(ns, term, v, wfails)
                if loc and loc[2] == "weak-law" and loc[0].kind in ("union", "optional") and c01._explained_by_first_acceptor(ns, loc[0], loc[1]):
                    res.violation("C02/weak/first-acceptor-semantics",
                                  f"weak codec fixpoint fails although the union follows the first-acceptor rule: {loc[0].src}, v={short(loc[1], 80)}", case)
                    excused = True
        if not excused:
            def fails(t, x):
                c = _codec(t.ann(ns), cfg)
                if not c.ok:
                    return "build"
                return _rt_mode(c.val, x)[0]

            loc = E.localize(ns, term, v, fails) or (term, v, mode)
            tmin, vmin, mmin = loc
            res.violation(f"C02/rt/{cfg}/{tmin.sig()}/{mmin}/{E.feature(vmin)}",
                          f"codec({tmin.src}) [{cfg}] round trip of {short(vmin, 100)}: {mmin}; encoded={short(enc.val if enc.ok else enc.exc, 80)} "
                          f"decoded={short(dec.val if dec is not None and dec.ok else None, 100)} (found in {term.src})", case)
    if not enc.ok:
        return
    # (2) independent parser sees exactly marshal(v, t=T)
    m = call(typelib.marshal, v, t=ann)
    res.evals += 1
    if cfg != "tag":
        parsed = call(json.loads, enc.val)
        if not parsed.ok:
            res.violation(f"C02/valid-json/{cfg}/{term.sig()}", f"encoded bytes are not valid JSON for the stdlib parser: {short(enc.val, 80)}", case)
        elif not m.ok or not same(parsed.val, E.plain_wire(m.val)):
            res.violation(f"C02/json-is-marshal/{cfg}/{term.sig()}/{E.feature(v)}",
                          f"json.loads(encoded)={short(parsed.val, 80)} but marshal(v, t=T)={short(m.val if m.ok else m.exc, 80)} for {term.src}, v={short(v, 80)}", case)
    # (3) entry points agree
    if CONFIGS[cfg] is None:
        e_top = call(typelib.encode, v, t=ann)
        e_man = call(lambda: typelib.compat.json.dumps(typelib.marshal(v, t=ann)))
        d_top = call(typelib.decode, ann, enc.val)
        d_man = call(lambda: typelib.unmarshal(ann, typelib.compat.json.loads(enc.val)))
    else:
        e, d = CONFIGS[cfg]
        e_top = call(typelib.encode, v, t=ann, encoder=e)
        e_man = call(lambda: e(typelib.marshal(v, t=ann)))
        d_top = call(typelib.decode, ann, enc.val, decoder=d)
        d_man = call(lambda: d and typelib.unmarshal(ann, d(enc.val)))
    res.evals += 4
    for name, o in (("typelib.encode", e_top), ("encoder(marshal)", e_man)):
        if not o.ok or o.val != enc.val:
            res.violation(f"C02/entry-points/{cfg}/encode:{name}/{term.sig()}",
                          f"{name} gives {short(o.val if o.ok else o.exc, 80)} but Codec.encode gives {short(enc.val, 80)} for {term.src}, v={short(v, 60)}", case)
    dec2 = dec if dec is not None else call(cdc.decode, enc.val)
    for name, o in (("typelib.decode", d_top), ("unmarshal(decoder)", d_man)):
        agree = (o.ok == dec2.ok) and (not o.ok or same(o.val, dec2.val))
        if not agree:
            res.violation(f"C02/entry-points/{cfg}/decode:{name}/{term.sig()}",
                          f"{name} gives {short(o.val if o.ok else o.exc, 80)} but Codec.decode gives {short(dec2.val if dec2.ok else dec2.exc, 80)} for {term.src}", case)


def run_term(setname, i, term, tier, res, only_vi=None):
    if not eligible(term):
        res.skipped += 1
        return
    w, r = WR[tier]
    prog = E.Prog(term)
    try:
        res.programs += 1
        vals = E.values_capped(term, prog.ns, w, r, res)
        for cfg in CONFIGS:
            c = _codec(prog.ann, cfg)
            if not c.ok:
                E.report_build_failure(ID, prog, c, res, setname, i, "codec")
                return
            res.hit("config:" + cfg)
            for vi, v in enumerate(vals):
                if only_vi is not None and vi != only_vi:
                    continue
                judge(prog, cfg, c.val, v, res, {"set": setname, "i": i, "vi": vi, "T": term.src, "value": short(v, 200), "config": cfg})
        if len(res.samples) < 3 and vals:
            res.samples.append({"T": term.src, "v": short(vals[-1], 100), "configs": list(CONFIGS)})
    finally:
        prog.close()


def run_bytes(res):
    """(4) bytes-like T: encode carries the bytes verbatim, decode(b) equals T(b) by content."""
    from ..kernel import cold

    payloads = [b"", b"a", b"1", b"\xff\x00", b'{"a": 1}', b"null", b"[1, 2]"]
    for tname, tcls, cfg in [(a, b, c) for a, b in (("bytes", bytes), ("bytearray", bytearray), ("memoryview", memoryview)) for c in CONFIGS]:
        cold.clear_all()
        res.programs += 1
        c = _codec(tcls, cfg)
        res.hit("bytes-config:" + cfg)
        if not c.ok:
            res.violation(f"C02/bytes/build/{tname}/{cfg}", f"codec({tname}) [{cfg}] cannot be built: {c!r}", {"bytes": tname})
            continue
        tname = tname if cfg == "default" else f"{tname}[{cfg}]"
        for p in payloads:
            for cname, carrier in (("bytes", bytes), ("bytearray", bytearray), ("memoryview", memoryview)):
                b = carrier(p)
                d = call(c.val.decode, b)
                res.evals += 1
                res.outcomes.add(h64("bytes", tname, cname, p.hex(), "ok" if d.ok else d.excname))
                if d.ok:
                    res.nontrivial.add(h64("bytes", tname, cname, p.hex()))
                okay = d.ok and isinstance(d.val, tcls) and bytes(d.val) == p
                if not okay:
                    res.violation(f"C02/bytes/decode/{tname}<-{cname}/{'raises:' + d.excname if not d.ok else 'content'}",
                                  f"codec({tname}).decode({b!r}) = {short(d.val if d.ok else d.exc, 80)}; expected {tname} with content {p!r}", {"bytes": tname})
            v = tcls(p)
            e = call(c.val.encode, v)
            pair = CONFIGS[cfg]
            e2 = call(typelib.encode, v, t=tcls) if pair is None else call(typelib.encode, v, t=tcls, encoder=pair[0])
            e3 = call(typelib.encode, v) if pair is None else call(typelib.encode, v, encoder=pair[0])
            res.evals += 3
            for name, o in (("Codec.encode", e), ("typelib.encode", e2), ("typelib.encode-without-t", e3)):
                good = o.ok and isinstance(o.val, (bytes, bytearray, memoryview)) and bytes(o.val) == p
                if not good:
                    res.violation(f"C02/bytes/encode/{tname}/{name}", f"{name}({v!r}) = {short(o.val if o.ok else o.exc, 80)}; expected the bytes verbatim", {"bytes": tname})
            # the top-level decode agrees with Codec.decode (verbatim, whatever decoder is configured)
            d2 = call(typelib.decode, tcls, p) if pair is None else call(typelib.decode, tcls, p, decoder=pair[1])
            res.evals += 1
            if not (d2.ok and isinstance(d2.val, tcls) and bytes(d2.val) == p):
                res.violation(f"C02/bytes/decode/{tname}/typelib.decode/{'raises:' + d2.excname if not d2.ok else 'content'}",
                              f"typelib.decode({tname}, {p!r}) = {short(d2.val if d2.ok else d2.exc, 80)}; expected {tname} with content {p!r} (as Codec.decode gives)", {"bytes": tname})


_STRREF_SRC = """import dataclasses, json, typelib

@dataclasses.dataclass
class Payload:
    ident: {TI}
    tags: list[{TT}]

def ep():
    # every entry point is called from THIS module with the type given by name
    v = Payload({V})
    c = typelib.codec("Payload")
    wire = c.encode(v)
    return dict(
        v=v, wire=wire, codec_decode=c.decode(wire), top_decode=typelib.decode("Payload", wire),
        manual_decode=typelib.unmarshal("Payload", json.loads(wire)), top_encode=typelib.encode(v, t="Payload"),
        manual_encode=typelib.compat.json.dumps(typelib.marshal(v, t="Payload")),
    )
"""


_BLOBREF_SRC = """import typing, typelib
Blob = bytes
NBlob = typing.NewType("NBlob", bytearray)
def ep(name, payload):
    c = typelib.codec(name)
    return dict(codec_encode=c.encode(payload), top_encode=typelib.encode(payload, t=name), codec_decode=c.decode(bytes(payload)), top_decode=typelib.decode(name, bytes(payload)))
"""


def run_blobref(res):
    """(6) a bytes-like type named by a string reference: every entry point carries the bytes verbatim"""
    from ..kernel import cold
    from ..universe.prelude import dropmod, mkmod

    cold.clear_all()
    m = mkmod("tlg_c02_blobref", _BLOBREF_SRC)
    try:
        for name, cls in (("Blob", bytes), ("NBlob", bytearray)):
            for p in (b"abc", b'"quoted"', b"[1]", b""):
                cold.clear_all()
                res.programs += 1
                o = call(m.ep, name, cls(p))
                res.evals += 4
                res.hit("blobref:" + name)
                res.outcomes.add(h64("blobref", name, p.hex(), "ok" if o.ok else o.excname))
                if not o.ok:
                    res.violation(f"C02/blobref/{name}/raises:{o.excname}", f"entry points with t={name!r} (a string reference to a bytes-like type) and payload {p!r} raise {o!r}", {"blobref": 1})
                    continue
                res.nontrivial.add(h64("blobref", name, p.hex()))
                for k, v in o.val.items():
                    if bytes(v) != p:
                        res.violation(f"C02/blobref/{name}/{k}/content", f"{k} with t={name!r} gives {v!r}, expected the bytes {p!r} verbatim", {"blobref": 1})
    finally:
        dropmod("tlg_c02_blobref")


def run_strref(res):
    """(5) the type named by a string reference, from two modules that bind the name to different classes (both orders):
    in each module all entry points agree and decode into THAT module's class"""
    from ..kernel import cold
    from ..universe.prelude import dropmod, mkmod

    names = ("tlg_c02_ref_a", "tlg_c02_ref_b")
    fills = (dict(TI="int", TT="str", V="7, ['1', '2']"), dict(TI="str", TT="int", V="'7', [1, 2]"))
    for order in ((0, 1), (1, 0)):
        cold.clear_all()
        res.programs += 1
        try:
            mods = [None, None]
            for i in order:
                mods[i] = mkmod(names[i], _STRREF_SRC.format(**fills[i]))
            for i in order:
                pos = "first" if order[0] == i else "second"
                o = call(mods[i].ep)
                res.evals += 1
                res.hit("strref:" + pos)
                key = h64("strref", order, i, "ok" if o.ok else o.excname)
                res.outcomes.add(key)
                if not o.ok:
                    res.violation(f"C02/strref/{pos}-module/raises:{o.excname}", f"entry points called with t='Payload' from the {pos} module raise {o!r}", {"strref": 1})
                    continue
                res.nontrivial.add(key)
                d = o.val
                for name in ("codec_decode", "top_decode", "manual_decode"):
                    if not same(d[name], d["v"]):
                        res.violation(f"C02/strref/{pos}-module/{name}/differs", f"{name} of {d['wire']!r} with t='Payload' in the {pos} module gives {d[name]!r} (class of module {type(d[name]).__module__}), expected {d['v']!r}", {"strref": 1})
                for name in ("top_encode", "manual_encode"):
                    if d[name] != d["wire"]:
                        res.violation(f"C02/strref/{pos}-module/{name}/differs", f"{name} gives {d[name]!r} but Codec.encode gives {d['wire']!r}", {"strref": 1})
        finally:
            for n_ in names:
                dropmod(n_)


def run_unit(unit, tier, res):
    if unit[0] == "bytes":
        run_bytes(res)
        return
    if unit[0] == "strref":
        run_strref(res)
        run_blobref(res)
        return
    s, a, b = unit
    for off, term in enumerate(E.unit_terms(unit)):
        run_term(s, a + off, term, tier, res)


def replay(case, tier, res):
    if "bytes" in case:
        run_bytes(res)
        return
    if "strref" in case:
        run_strref(res)
        return
    if "blobref" in case:
        run_blobref(res)
        return
    term = E.term_set(case["set"])[case["i"]]
    run_term(case["set"], case["i"], term, tier, res, only_vi=case.get("vi"))
