"""C19 - slotted dataclasses behave like the original dataclass (E-prog + E-hist, DESIGN §C19).

Program space: every legal dataclass spec (fields x flags x base x user-getstate) x every (dict, weakref); the same
class source is loaded twice (module o: plain dataclass C; module s: @classes.slotted(dict=, weakref=) on top) and
refmodel.slotmodel.judge compares the two worlds.
History space: every decoration sequence over an alphabet of 6 dataclass specs + 2 environment moves ("decorate
something that is not a dataclass"), each replayed from a cold state; the last step is judged.
"""
from __future__ import annotations

import itertools
import json
import sys
import warnings

from typelib.py import classes

from ..kernel import cold
from ..kernel.guard import call
from ..kernel.runner import h64
from ..refmodel import slotmodel as SM
from ..universe.prelude import dropmod, mkmod

warnings.simplefilter("ignore")

ID = "C19"
CHUNKS_PER_WORKER = 4

MAXF = {"quick": 3, "thorough": 5}
HLEN = {"quick": 3, "thorough": 4}
# the added shapes (three-level chains, re-declared inherited field) are enumerated up to one field less than MAXF
MAXF_EXTRA = {"quick": 2, "thorough": 4}
# reading switch (see meta()["assumptions"]): a field inherited from an UNSLOTTED base must not get a slot of its own
STRICT_INHERITED_SLOTS = True

BASES = ("none", "slotted", "slotted_nw", "slotted_dict", "unslotted", "ordinary", "chain_sp", "chain_ps")
SIMPLE_BASES = ("slotted", "slotted_nw", "slotted_dict", "unslotted")  # one level; these may also have base_x re-declared
# base kind -> the classes above C, root first: (class name, parent, slotted decorator | None, field line, init parameter)
BASE_CHAIN = {
    "slotted": [("Base", None, "@classes.slotted", "base_x: int = 0", "base_x")],  # the defaults: dict=False, weakref=True
    "slotted_nw": [("Base", None, "@classes.slotted(weakref=False)", "base_x: int = 0", "base_x")],
    "slotted_dict": [("Base", None, "@classes.slotted(dict=True, weakref=False)", "base_x: int = 0", "base_x")],
    "unslotted": [("Base", None, None, "base_x: int = 0", "base_x")],
    # an ORDINARY class (not a dataclass): it provides __dict__ and __weakref__ and no field
    "ordinary": [("Base", None, "#ordinary", "pass", None)],
    # three levels, each adding one field: slotted -> plain -> C   and   plain -> slotted -> C
    "chain_sp": [("Root", None, "@classes.slotted(weakref=False)", "root_x: int = 7", "root_x"), ("Base", "Root", None, "base_x: int = 0", "base_x")],
    "chain_ps": [("Root", None, None, "root_x: int = 7", "root_x"), ("Base", "Root", "@classes.slotted", "base_x: int = 0", "base_x")],
}
BASE_DEFAULTS = {"root_x": 7, "base_x": 0}
REDECL_DEFAULT = 5  # `base_x: int = 5` re-declared in the child
HOOKS = ("none", "both", "set", "get")  # user pickling hooks: none / __getstate__+__setstate__ / only __setstate__ / only __getstate__


def has_slotted_ancestor(sp):
    return any(c[2] and c[2].startswith("@") for c in BASE_CHAIN.get(sp["base"], ()))


def norm(sp):
    """accept older replay cases (gs was a bool, no redecl key)"""
    sp = dict(sp)
    if isinstance(sp.get("gs"), bool):
        sp["gs"] = "both" if sp["gs"] else "none"
    sp.setdefault("nested", False)
    sp.setdefault("redecl", False)
    sp.setdefault("pseudo", "none")
    return sp


PSEUDO = ("cv", "iv", "cviv")  # pseudo-fields: a ClassVar constant / an InitVar with a default / both (they are NOT fields: no slot, class attribute kept)
PSEUDO_MAXF = {"quick": 1, "thorough": 2}
PSEUDO_BASES = ("none", "slotted", "unslotted")
FLAGS = [  # (frozen, eq, order, unsafe_hash); order requires eq
    (fr, eq, od, uh)
    for eq, od in ((True, False), (True, True), (False, False))
    for fr in (False, True)
    for uh in (False, True)
]
NESTED_MAXF, NESTED_BASES = 1, ("none", "slotted")  # class nested in another class (qualified name != name)
DW = [(False, False), (False, True), (True, False), (True, True)]
O_NAME, S_NAME = "tlg_c19_o", "tlg_c19_s"


# ---------------------------------------------------------------- specs


def field_patterns(n, with_base):
    """strings over n(o default) d(efault) f(actory); no non-default after a default; a base has a defaulted field"""
    out = []
    for k in range(n, -1, -1):  # k leading non-default fields
        if with_base and k:
            continue
        for tail in itertools.product("df", repeat=n - k):
            out.append("n" * k + "".join(tail))
    return out


def mkspec(fields, flags, base, gs, d, w, nested=False, redecl=False, pseudo="none"):
    fr, eq, od, uh = flags
    return {"fields": fields, "frozen": fr, "eq": eq, "order": od, "unsafe_hash": uh, "base": base, "gs": gs, "dict": d, "weakref": w, "nested": nested, "redecl": redecl, "pseudo": pseudo}


def legal(sp):
    f = sp["fields"]
    if sp["order"] and not sp["eq"]:
        return False
    if sp["base"] != "none" and "n" in f:
        return False
    if sp.get("redecl") and sp["base"] not in SIMPLE_BASES:
        return False
    if sp["gs"] == "get" and sp["frozen"]:
        # only __getstate__ on a frozen class: the ORIGINAL cannot be restored by the default machinery (setattr) either
        return False
    return "dn" not in f and "fn" not in f


def skey(sp):
    return json.dumps(sp, sort_keys=True)


def sshort(sp):
    fl = "".join(c for c, on in zip("FEOU", (sp["frozen"], sp["eq"], sp["order"], sp["unsafe_hash"])) if on) or "-"
    return f"fields={sp['fields'] or '-'} flags={fl} base={sp['base']} hooks={sp['gs']} dict={sp['dict']} weakref={sp['weakref']}" + (" nested" if sp.get("nested") else "") + (" redeclares-base_x" if sp.get("redecl") else "") + (f" pseudo={sp['pseudo']}" if sp.get("pseudo", "none") != "none" else "")


def feature(sp):
    parts = []
    if sp["base"] != "none":
        parts.append("base=" + sp["base"])
    if sp["frozen"]:
        parts.append("frozen")
    if not sp["eq"]:
        parts.append("eq=False")
    if sp["order"]:
        parts.append("order")
    if sp["unsafe_hash"]:
        parts.append("unsafe_hash")
    if sp["gs"] != "none":
        parts.append({"both": "user-getstate", "set": "user-setstate-only", "get": "user-getstate-only"}[sp["gs"]])
    if sp.get("redecl"):
        parts.append("redeclared-inherited-field")
    if sp["dict"]:
        parts.append("dict=True")
    if sp["weakref"]:
        parts.append("weakref=True")
    if sp.get("nested"):
        parts.append("nested")
    if "cv" in sp.get("pseudo", ""):
        parts.append("classvar")
    if "iv" in sp.get("pseudo", ""):
        parts.append("initvar")
    for k, name in (("n", "field"), ("d", "default"), ("f", "default_factory")):
        if k in sp["fields"]:
            parts.append(name)
    return ",".join(parts) or "plain"


def default_of(i):
    return 100 + i


FIELD_NAMES = ("fb", "fa", "fd", "fc", "fe", "ff")  # declaration order is neither sorted nor reverse-sorted


def fname(i):
    return FIELD_NAMES[i]


def source(sp, slot_child, cname="C", bare=False):
    fr = sp["frozen"]
    nested = bool(sp.get("nested"))
    L = ["import dataclasses, typing", "from typelib.py import classes", "SETSTATE_CALLS = []", "GETSTATE_CALLS = []"]
    if sp["base"] != "none":
        L.append('STAGE = "base"')
        for bname, parent, deco, fline, _ in BASE_CHAIN[sp["base"]]:
            if deco == "#ordinary":
                L += [f"class {bname}{'(' + parent + ')' if parent else ''}:", "    " + fline]
                continue
            if deco:
                L.append(deco)
            L += [f"@dataclasses.dataclass(frozen={fr})", f"class {bname}{'(' + parent + ')' if parent else ''}:", "    " + fline]
    L.append('STAGE = "child"')
    C = []
    if slot_child:
        C.append("@classes.slotted" if bare else f"@classes.slotted(dict={sp['dict']}, weakref={sp['weakref']})")
    C.append(f"@dataclasses.dataclass(frozen={fr}, eq={sp['eq']}, order={sp['order']}, unsafe_hash={sp['unsafe_hash']})")
    C.append(f"class {cname}{'(Base)' if sp['base'] != 'none' else ''}:")
    body = []
    if sp.get("redecl"):
        body.append(f"    base_x: int = {REDECL_DEFAULT}")
    for i, k in enumerate(sp["fields"]):
        if k == "n":
            body.append(f"    {fname(i)}: int")
        elif k == "d":
            body.append(f"    {fname(i)}: int = {default_of(i)}")
        else:
            body.append(f"    {fname(i)}: list = dataclasses.field(default_factory=list)")
    ps = sp.get("pseudo", "none")
    if "cv" in ps:
        body.append('    unit: typing.ClassVar[str] = "mm"')
    if "iv" in ps:
        body.append("    factor: dataclasses.InitVar[int] = 10")
    if ps != "none":
        body += ["    def label(self):", "        return (" + ("self.unit, " if "cv" in ps else "") + ("type(self).factor, " if "iv" in ps else "") + ")"]
    if sp["gs"] == "both":
        body += [
            "    def __getstate__(self):",
            "        GETSTATE_CALLS.append(1)",
            "        return {'__user__': True, 'fields': {f.name: getattr(self, f.name) for f in dataclasses.fields(self)}}",
            "    def __setstate__(self, state):",
            "        SETSTATE_CALLS.append(1)",
            "        assert state['__user__'] is True",
            "        for k, v in state['fields'].items():",
            "            object.__setattr__(self, k, v)",
        ]
    elif sp["gs"] == "set":
        # only __setstate__: the state comes from object.__getstate__ (a dict, or (dict | None, slot dict))
        body += [
            "    def __setstate__(self, state):",
            "        SETSTATE_CALLS.append(1)",
            "        for part in (state if isinstance(state, tuple) else (state,)):",
            "            for k, v in (part or {}).items():",
            "                object.__setattr__(self, k, v)",
        ]
    elif sp["gs"] == "get":
        # only __getstate__: (None, {name: value}) is restored by the default machinery with setattr in both worlds
        body += [
            "    def __getstate__(self):",
            "        GETSTATE_CALLS.append(1)",
            "        return (None, {f.name: getattr(self, f.name) for f in dataclasses.fields(self)})",
        ]
    C += body or ["    pass"]
    if nested:
        L.append("class Outer:")
        L += ["    " + x for x in C]
        L.append(f"{cname} = Outer.{cname}")
    else:
        L += C
    L.append('STAGE = "done"')
    return "\n".join(L) + "\n"


def info_of(sp, cname="C"):
    own = [fname(i) for i in range(len(sp["fields"]))]  # declared in the body AND not a field of any base
    inh = [c[4] for c in BASE_CHAIN.get(sp["base"], ()) if c[4] is not None]
    params = [(n, "d") for n in inh] + list(zip(own, sp["fields"]))
    dflt = {fname(i): default_of(i) for i, k in enumerate(sp["fields"]) if k == "d"}
    for n in inh:
        dflt[n] = BASE_DEFAULTS[n]
    if sp.get("redecl"):
        dflt["base_x"] = REDECL_DEFAULT
    hooks = {"none": (), "both": ("__getstate__", "__setstate__"), "set": ("__setstate__",), "get": ("__getstate__",)}[sp["gs"]]
    return SM.Info(cname, params, own, sp["frozen"], sp["eq"], sp["order"], hooks, sp["dict"], sp["weakref"], dflt)


def _load(name, src):
    out = call(mkmod, name, src)
    return out, sys.modules.get(name)


# ---------------------------------------------------------------- judging one spec


def judge_spec(sp, res=None, o_mod=None):
    """-> (list of (clause, mode, what), decorated_ok). Cold state, both worlds rebuilt."""
    count = None
    if res is not None:

        def count(clause, n=1):
            res.evals += n
            res.hit("clause:" + clause)

    own_o = o_mod is None
    if own_o:
        cold.clear_all()
        out, o_mod = _load(O_NAME, source(sp, False))
        if not out.ok:
            stage = getattr(o_mod, "STAGE", "?")
            if stage == "base":
                return None, False  # slotted base fixture broken: covered by the base=none specs
            if has_slotted_ancestor(sp):
                return [("base", "plain-child-of-slotted-base-does-not-build:" + str(out.excname), f"a plain dataclass deriving from the slotted base does not build: {out.excname}: {str(out.exc)[:120]}")], False
            raise RuntimeError(f"C19 harness: plain dataclass does not build for {sshort(sp)}: {out!r}")
    sys.modules[O_NAME] = o_mod
    cold.clear_all()
    out, s_mod = _load(S_NAME, source(sp, True))
    try:
        if res is not None:
            res.evals += 1
            res.hit("clause:decorate")
        if not out.ok:
            stage = getattr(s_mod, "STAGE", "?")
            msg = str(out.exc)[:100]
            mode = "raises:" + out.excname + ("(custom metaclass)" if "custom metaclass" in msg else "") + ("(base)" if stage == "base" else "")
            return [("decorate", mode, f"@classes.slotted(dict={sp['dict']}, weakref={sp['weakref']}) on the dataclass raises {out.excname}: {msg}")], False
        try:
            V = SM.judge(o_mod.C, s_mod.C, info_of(sp), o_mod=o_mod, s_mod=s_mod, full=True, count=count)
        except SM.OriginalFails as e:
            if has_slotted_ancestor(sp):
                # the ORIGINAL (plain) child misbehaves, and the only library code in its ancestry is the slotted base
                return [("base", "plain-child-of-slotted-base-misbehaves", f"a plain dataclass deriving from the slotted base misbehaves: {str(e)[:160]}")], True
            raise
        if not STRICT_INHERITED_SLOTS:
            V = [v for v in V if v[:2] != ("slots", "extra:inherited-field")]
        V = list(V) + _judge_pseudo(sp, o_mod.C, s_mod.C, count)
        return V, True
    finally:
        dropmod(S_NAME)
        if own_o:
            dropmod(O_NAME)


def _judge_pseudo(sp, OC, SC, count=None):
    """ClassVar / InitVar members are not fields: the class constant and the InitVar default stay class attributes, methods reading them answer alike"""
    ps = sp.get("pseudo", "none")
    if ps == "none":
        return []
    V = []
    for name in (("unit",) if "cv" in ps else ()) + (("factor",) if "iv" in ps else ()):
        if count:
            count("pseudo-field")
        a, b = call(getattr, OC, name), call(getattr, SC, name)
        oa = ("ok", repr(a.val)) if a.ok else ("raises", a.excname)
        ob = ("ok", repr(b.val)) if b.ok else ("raises", b.excname)
        if oa != ob:
            V.append(("pseudo-field", f"{name}:class-attribute-differs", f"C.{name}: original {oa}, slotted {ob}"))
    info = info_of(sp)
    args = [1] * sum(1 for _, k in info.params if k == "n")
    if count:
        count("pseudo-field")
    a, b = call(lambda: OC(*args).label()), call(lambda: SC(*args).label())
    oa = ("ok", repr(a.val)) if a.ok else ("raises", a.excname)
    ob = ("ok", repr(b.val)) if b.ok else ("raises", b.excname)
    if oa != ob:
        V.append(("pseudo-field", "method-reading-it-differs", f"C(...).label(): original {oa}, slotted {ob}"))
    return V


_JCACHE: dict[str, dict] = {}
_FCACHE: dict[tuple, tuple] = {}


def _judged(sp) -> dict:
    k = skey(sp)
    if k not in _JCACHE:
        if len(_JCACHE) > 20000:
            _JCACHE.clear()
        V, _ = judge_spec(sp)
        d = {}
        for c, m, what in V or ():
            d.setdefault((c, m), what)
        _JCACHE[k] = d
    return _JCACHE[k]


def _fails(sp, clause, mode):
    return (clause, mode) in _judged(sp)


def _reductions(sp):
    f = sp["fields"]
    if len(f) > 1:
        yield {**sp, "fields": ""}  # shortcut: most failures do not depend on the fields at all
    for i in range(len(f)):
        yield {**sp, "fields": f[:i] + f[i + 1 :]}
    for i, k in enumerate(f):
        if k == "f":
            yield {**sp, "fields": f[:i] + "d" + f[i + 1 :]}
        elif k == "d":
            yield {**sp, "fields": f[:i] + "n" + f[i + 1 :]}
    if sp["frozen"]:
        yield {**sp, "frozen": False}
    if sp["order"]:
        yield {**sp, "order": False}
    if not sp["eq"]:
        yield {**sp, "eq": True}
    if sp["unsafe_hash"]:
        yield {**sp, "unsafe_hash": False}
    if sp.get("redecl"):
        yield {**sp, "redecl": False}
    if sp["base"] != "none":
        yield {**sp, "base": "none", "redecl": False}
    if sp["base"] == "chain_sp":
        yield {**sp, "base": "unslotted"}
        yield {**sp, "base": "slotted_nw"}
    if sp["base"] == "chain_ps":
        yield {**sp, "base": "slotted"}
        yield {**sp, "base": "unslotted"}
    if sp["gs"] == "both":
        yield {**sp, "gs": "set"}
        yield {**sp, "gs": "get"}
    if sp["gs"] != "none":
        yield {**sp, "gs": "none"}
    if sp["dict"]:
        yield {**sp, "dict": False}
    if sp["weakref"]:
        yield {**sp, "weakref": False}
    if sp.get("nested"):
        yield {**sp, "nested": False}
    if sp.get("pseudo", "none") == "cviv":
        yield {**sp, "pseudo": "cv"}
        yield {**sp, "pseudo": "iv"}
    if sp.get("pseudo", "none") != "none":
        yield {**sp, "pseudo": "none"}


def minimal(sp, clause, mode):
    """Greedy one-feature-at-a-time reduction of the spec keeping the (clause, mode) failure.
    -> (feature string of the minimal spec, minimal spec, witness text of the minimal spec).
    The signature names only what is left (root-cause features), never the field count."""
    k0 = (skey(sp), clause, mode)
    if k0 in _FCACHE:
        return _FCACHE[k0]
    cur = sp
    changed = True
    while changed:
        changed = False
        for cand in _reductions(cur):
            if legal(cand) and _fails(cand, clause, mode):
                cur, changed = cand, True
                break
    what = _judged(cur).get((clause, mode))
    if len(_FCACHE) > 50000:
        _FCACHE.clear()
    _FCACHE[k0] = (feature(cur), cur, what)
    return _FCACHE[k0]


def minimal_feature(sp, clause, mode):
    return minimal(sp, clause, mode)[0]


def report(sp, V, res, extra=""):
    """One violation per (clause, mode); witness and replay case are the MINIMAL spec with the same failure."""
    seen = set()
    for clause, mode, what in V:
        if (clause, mode) in seen:
            continue
        seen.add((clause, mode))
        ft, msp, mwhat = minimal(sp, clause, mode)
        if mwhat is None:  # not reproducible on re-judging: keep the spec as found
            msp, mwhat = sp, what
        res.violation(f"C19/{clause}/{ft}/{mode}", f"{mwhat} [{sshort(msp)}]{extra}", {"kind": "P", "spec": msp, "found_in": sshort(sp)})


def run_spec(sp, res, o_mod=None):
    sp = norm(sp)
    res.programs += 1
    V, decorated = judge_spec(sp, res, o_mod)
    if V is None:
        res.skipped += 1
        res.hit("skip:base-fixture")
        return
    fl = "".join("1" if sp[k] else "0" for k in ("frozen", "eq", "order", "unsafe_hash"))
    res.hit("flags(frozen,eq,order,unsafe_hash):" + fl)
    res.hit("base:" + sp["base"])
    res.hit(f"dict,weakref:{int(sp['dict'])}{int(sp['weakref'])}")
    res.hit(f"fields:{len(sp['fields'])}")
    res.hit(f"user-hooks:{sp['gs']}")
    res.hit(f"redeclared-inherited-field:{int(bool(sp.get('redecl')))}")
    res.hit(f"nested:{int(bool(sp.get('nested')))}")
    res.hit(f"pseudo-fields:{sp.get('pseudo', 'none')}")
    key = h64(skey(sp), sorted((c, m) for c, m, _ in V))
    res.outcomes.add(key)
    if decorated:
        res.nontrivial.add(key)
    if V:
        report(sp, V, res)


# ---------------------------------------------------------------- histories

SHARED = "tlg_c19h_shared"
_D = (False, True, False, False)
ALPHABET = [
    # id, spec, class name, module name, bare decorator (@classes.slotted without arguments: weakref defaults to True)
    ("A", mkspec("n", _D, "none", "none", False, False), "C", SHARED, False),
    ("B", mkspec("d", _D, "none", "none", False, True), "C", SHARED, True),
    ("U", mkspec("d", _D, "unslotted", "none", False, False), "CU", "tlg_c19h_u", False),
    ("F", mkspec("nd", (True, True, False, False), "none", "none", False, True), "CF", "tlg_c19h_f", False),
    ("P", mkspec("nf", _D, "none", "none", True, False), "CP", "tlg_c19h_p", False),
    ("W", mkspec("d", _D, "unslotted", "none", False, True), "CW", "tlg_c19h_w", False),
    ("S", mkspec("d", _D, "slotted", "none", False, True), "CS", "tlg_c19h_s", False),  # its base provides slots, __weakref__
]
ENV = [
    ("N1", "class C:\n    x = 1\n", "C", SHARED),  # same repr as A and B
    ("N2", "class NotDC:\n    x = 1\n", "NotDC", "tlg_c19h_nd"),
]
# K: an instance of every ORIGINAL (undecorated) alphabet class is copied and pickled (the interpreter caches what it learns about
# a class while doing so, e.g. copyreg's __slotnames__); a later decoration of that class must not inherit such a cache
USE_ORIGINALS = "K"
MOVES = [a[0] for a in ALPHABET] + [e[0] for e in ENV] + [USE_ORIGINALS]
_HW = None


def _hist_world():
    """Build the undecorated classes once per process: {move id: (cls, spec|None, bare)} + cold judgements."""
    global _HW
    if _HW is None:
        w = {}
        for mid, sp, cname, modname, bare in ALPHABET:
            m = mkmod(modname, source(sp, False, cname))
            w[mid] = (getattr(m, cname), sp, bare, cname)
        for mid, src, cname, modname in ENV:
            m = mkmod(modname, src)
            w[mid] = (getattr(m, cname), None, False, cname)
        coldj = {}
        for mid, sp, cname, modname, bare in ALPHABET:
            cold.clear_all()
            out, V = _step(w, mid, judge=True)
            coldj[mid] = (out.ok, out.excname, frozenset((c, m) for c, m, _ in V))
        cold.clear_all()
        _HW = (w, coldj)
    return _HW


def _decorate(cls, sp, bare, decos=None):
    """decos: {(dict, weakref): configured decorator object} shared by the steps of one history (a decorator object that is
    configured once and applied to several classes); None = a new decorator object per decoration"""
    if bare:
        return classes.slotted(cls)
    if decos is None:
        return classes.slotted(dict=sp["dict"], weakref=sp["weakref"])(cls)
    k = (sp["dict"], sp["weakref"])
    if k not in decos:
        decos[k] = classes.slotted(dict=sp["dict"], weakref=sp["weakref"])
    return decos[k](cls)


def _use_originals(w):
    import copy
    import pickle

    for mid, sp, cname, modname, bare in ALPHABET:
        cls = w[mid][0]
        args = [1] * sum(1 for _, k in info_of(sp, cname).params if k == "n")
        x = cls(*args)
        copy.copy(x)
        try:
            pickle.dumps(x)
        except pickle.PicklingError:
            pass  # two alphabet classes share one qualified name: not picklable by reference (copy.copy has filled the cache already)
    return True


def _forget_interpreter_caches(w):
    for mid, *_ in ALPHABET:
        cls = w[mid][0]
        if "__slotnames__" in cls.__dict__:
            type.__delattr__(cls, "__slotnames__")


def _step(w, mid, judge=False, count=None, decos=None):
    if mid == USE_ORIGINALS:
        return call(_use_originals, w), []
    cls, sp, bare, cname = w[mid]
    if sp is None:
        return call(classes.slotted, cls), []
    out = call(_decorate, cls, sp, bare, decos)
    V = []
    if judge and out.ok:
        V = SM.judge(cls, out.val, info_of(sp, cname), full=True, count=count)
        if not STRICT_INHERITED_SLOTS:
            V = [v for v in V if v[:2] != ("slots", "extra:inherited-field")]
    return out, V


def _play(hist, res=None, reuse=False):
    """Replay one history from a cold state (nothing is cleared between the steps) and judge its last step.
    -> (out of the last step, [(kind, sig-or-(clause, mode), what)], guard after)   kind: 'cold' | 'hist'"""
    w, coldj = _hist_world()
    cold.clear_all()
    _forget_interpreter_caches(w)
    prov = {}  # guard key -> (move id, step succeeded) of the step that left it behind
    decos = {} if reuse else None
    for mid in hist[:-1]:
        before = frozenset(classes._stack)
        out, _ = _step(w, mid, decos=decos)
        for k in classes._stack:
            if k not in before:
                prov[k] = (mid, out.ok)
        if res is not None:
            res.states.add(h64("C19-guard", sorted(classes._stack)))
    mid = hist[-1]
    if mid == USE_ORIGINALS:
        out, _ = _step(w, mid)
        return out, [], frozenset(classes._stack)
    cls, sp, bare, cname = w[mid]
    count = None
    if res is not None:

        def count(clause, n=1):
            res.evals += n
            res.hit("clause:hist-" + clause)

    before = frozenset(classes._stack)
    out, V = _step(w, mid, judge=True, count=count, decos=decos)
    after = frozenset(classes._stack)
    found = []
    if sp is None:
        return out, found, after
    c_ok, c_exc, c_set = coldj[mid]
    hs = ">".join(hist) + (" (one decorator object per flag combination, reused)" if reuse else "")
    if not out.ok:
        msg = str(out.exc)[:120]
        if not c_ok:
            # this decoration fails alone in a cold state too: the program-space cell, whatever the guard adds
            found.append(("cold", ("decorate", "raises:" + c_exc), f"slotted({cname}) raises {out.excname}: {msg}"))
            return out, found, after
        bogus = "custom metaclass" in msg
        ctx = "other"
        k = repr(cls)
        left = prov.get(k)
        if bogus and k in before:
            ctx = "after-failed-decoration" if left is not None and not left[1] else "after-successful-decoration"
        mode = "raises:" + out.excname + ("(custom metaclass)" if bogus else "")
        found.append(
            (
                "hist",
                f"C19/history/{ctx}/{mode}",
                f"history {hs}: decorating the plain-metaclass dataclass {cname} ({sshort(sp)}; succeeds alone) raises {out.excname}: {msg[:100]}; "
                f"classes._stack before the step = {sorted(before)}, key left by step {left[0] if left else '?'} which {'returned' if left and left[1] else 'raised'}",
            )
        )
        return out, found, after
    for clause, mode, what in V:
        if (clause, mode) in c_set:
            found.append(("cold", (clause, mode), what))
        else:
            found.append(("hist", f"C19/history/{clause}/{mode}", f"history {hs}: {what} (conforms when decorated alone)"))
    return out, found, after


def _shrink(hist, sig, reuse=False):
    """drop earlier steps while the last step still lands in the same history cell"""
    cur = tuple(hist)
    changed = True
    while changed and len(cur) > 1:
        changed = False
        for i in range(len(cur) - 1):
            cand = cur[:i] + cur[i + 1 :]
            _, found, _ = _play(cand, reuse=reuse)
            hit = [f for f in found if f[0] == "hist" and f[1] == sig]
            if hit:
                cur, changed = cand, True
                break
    _, found, _ = _play(cur, reuse=reuse)
    what = next((f[2] for f in found if f[0] == "hist" and f[1] == sig), None)
    return cur, what


def run_history(hist, res, reuse=False):
    w, _ = _hist_world()
    res.programs += 1
    res.hit(f"hist:len={len(hist)}" + (":reused-decorator" if reuse else ""))
    out, found, after = _play(hist, res, reuse)
    mid = hist[-1]
    if mid == USE_ORIGINALS:
        res.hit("hist:last=K" + (":ok" if out.ok else ":raises"))
        if not out.ok:
            raise RuntimeError(f"C19 harness: copying / pickling an ORIGINAL instance fails: {out!r}")
        return
    sp = w[mid][1]
    res.states.add(h64("C19-guard", sorted(after)))
    res.hit(f"hist:guard-size-after={len(after)}")
    res.hit("hist:last=" + mid + (":ok" if out.ok else ":raises"))
    res.evals += 1
    key = h64("H", reuse, ",".join(hist), out.ok, out.excname, sorted(str(f[1]) for f in found), sorted(after))
    res.outcomes.add(key)
    if out.ok:
        res.nontrivial.add(key)
    if sp is None:
        if out.ok or out.excname != "TypeError":
            res.hit("hist:env-move-unexpected:" + str(out.excname))
        return
    res.hit("clause:hist-decorate")
    cold_v = [(f[1][0], f[1][1], f[2]) for f in found if f[0] == "cold"]
    if cold_v:
        report(sp, cold_v, res, extra=f" (history alphabet spec {mid}; fails the same way alone in a cold state)")
    done = set()
    for kind, sig, what in found:
        if kind != "hist" or sig in done:
            continue
        done.add(sig)
        small, swhat = _shrink(hist, sig, reuse)
        if reuse and any(f[0] == "hist" and f[1] == sig for f in _play(small)[1]):
            reuse_needed = False
        else:
            reuse_needed = reuse
        res.violation(sig + ("/reused-decorator-object" if reuse_needed else ""), swhat or what, {"kind": "H", "history": list(small), "found_in": list(hist), "reuse": reuse})


def histories(first, maxlen):
    for n in range(1, maxlen + 1):
        for rest in itertools.product(MOVES, repeat=n - 1):
            yield (first, *rest)


# ---------------------------------------------------------------- the check-module contract


def units(tier):
    us = []
    for n in range(MAXF[tier] + 1):
        for base in BASES:
            if base.startswith("chain") and n > MAXF_EXTRA[tier]:
                continue
            for fp in field_patterns(n, base != "none"):
                us.append(("P", fp, base, False, False))
                if base in SIMPLE_BASES and n <= MAXF_EXTRA[tier]:
                    us.append(("P", fp, base, False, True))  # the child re-declares the inherited field base_x
                if n <= NESTED_MAXF and base in NESTED_BASES:
                    us.append(("P", fp, base, True, False))
                if n <= PSEUDO_MAXF[tier] and base in PSEUDO_BASES:
                    us += [("P", fp, base, False, False, ps) for ps in PSEUDO]
    us += [("H", m, "", False, False) for m in MOVES]
    return us


def unit_specs(unit):
    """[(o-world spec, [specs sharing that o-world])] of one program unit, deterministic order"""
    _, a, base, nested, redecl, *rest = unit
    pseudo = rest[0] if rest else "none"
    out = []
    for flags in FLAGS:
        for gs in HOOKS:
            if pseudo != "none" and gs not in ("none", "both"):
                continue
            sp0 = mkspec(a, flags, base, gs, False, False, nested, redecl, pseudo)
            if legal(sp0):
                out.append((sp0, [mkspec(a, flags, base, gs, d, w, nested, redecl, pseudo) for d, w in DW]))
    return out


def run_unit(unit, tier, res):
    kind, a, base, nested, redecl, *rest = unit
    pseudo = rest[0] if rest else "none"
    if kind == "H":
        for h in histories(a, HLEN[tier]):
            run_history(h, res)
            if len(h) > 1:
                run_history(h, res, reuse=True)
        if len(res.samples) < 3:
            res.samples.append({"history": [a] + MOVES[:2], "moves": MOVES})
        return
    for sp0, group in unit_specs(unit):
        cold.clear_all()
        out, o_mod = _load(O_NAME, source(sp0, False))
        if not out.ok:
            if getattr(o_mod, "STAGE", "?") == "base":
                res.skipped += len(group)
                res.hit("skip:base-fixture", len(group))
                continue
            if has_slotted_ancestor(sp0):
                # a plain dataclass deriving from a slotted(...) base always builds when the base is what the decoration of THAT base should
                # return (same frozen-ness, same fields): the decoration of the base returned something else
                res.programs += 1
                res.violation(
                    f"C19/base/plain-child-of-slotted-base-does-not-build/{out.excname}",
                    f"a plain dataclass deriving from the slotted base of {sshort(sp0)} does not build: {out.excname}: {str(out.exc)[:120]} "
                    "(the class returned by decorating the base is not the base's own slotted twin)",
                    {"kind": "P", "spec": sp0, "found_in": sshort(sp0)},
                )
                continue
            raise RuntimeError(f"C19 harness: plain dataclass does not build for {sshort(sp0)}: {out!r}")
        try:
            for sp in group:
                run_spec(sp, res, o_mod)
        finally:
            dropmod(O_NAME)
    if len(res.samples) < 3:
        sp = mkspec(a, FLAGS[-1], base, "both", True, True, nested, redecl, pseudo)
        res.samples.append({"spec": sp, "source_s": source(sp, True)})


def replay(case, tier, res):
    if case.get("kind") == "H":
        run_history(tuple(case["history"]), res, reuse=bool(case.get("reuse")))
    else:
        run_spec(dict(case["spec"]), res)


def meta(tier):
    nf = MAXF[tier]
    pu = [u for u in units(tier) if u[0] == "P"]
    n_specs = sum(len(g) for u in pu for _, g in unit_specs(u))
    n_nested = sum(len(g) for u in pu if u[3] for _, g in unit_specs(u))
    n_redecl = sum(len(g) for u in pu if u[4] for _, g in unit_specs(u))
    n_chain = sum(len(g) for u in pu if u[2].startswith("chain") for _, g in unit_specs(u))
    n_hist = sum(len(MOVES) ** k for k in range(1, HLEN[tier] + 1))
    return {
        "rule": "programs: every legal spec = field pattern (0..%d fields, each no-default/default/default_factory=list, no non-default "
        "after a default; with a base - whose fields have defaults - only defaulted fields) x 12 legal (frozen, eq, order, unsafe_hash) "
        "x base in %s (chain_sp = slotted Root -> plain Base -> C, chain_ps = plain Root -> slotted Base -> C, one field per level) "
        "x user pickling hooks %s (only-__getstate__ not on frozen classes) x (dict, weakref) in 4 combinations; every one-level base also with the "
        "child RE-DECLARING the inherited field (base_x: int = %d); the class nested in another class (qualname != name) for <= %d fields and "
        "base in %s = %d specs in all (%d re-declaring, %d three-level, %d nested); the re-declaring and three-level shapes go up to %d own fields, "
        "everything else to %d, with NO reduction of the per-field choices at 4-5 fields; "
        "each spec is loaded as module o (plain) and module s (slotted) and judged by refmodel.slotmodel "
        "(7 instances per world: pos A, A', B, C; kw A; omit A, A'; 2 copy targets x {copy, deepcopy, pickle 2..5}). "
        "histories: every sequence of length 1..%d over %d moves (%s) = %d histories (each also with ONE configured decorator object per flag combination reused by its steps), each replayed from cold, last step judged by the "
        "reduced model (construct, repr, eq, __slots__) and against the same decoration alone. states = distinct contents of classes._stack; "
        "non-trivial = the decoration returned a class"
        % (nf, list(BASES), list(HOOKS), REDECL_DEFAULT, NESTED_MAXF, list(NESTED_BASES), n_specs, n_redecl, n_chain, n_nested, MAXF_EXTRA[tier], nf, HLEN[tier], len(MOVES), ",".join(MOVES), n_hist),
        "bounds": {"max_fields": nf, "max_fields_chain_and_redeclare": MAXF_EXTRA[tier], "specs": n_specs, "history_len": HLEN[tier], "histories": n_hist, "moves": MOVES, "bases": list(BASES), "hooks": list(HOOKS), "pickle_protocols": list(SM.PICKLE_PROTOCOLS)},
        "assumptions": [
            f"specs of <= {PSEUDO_MAXF[tier]} own fields and base in {list(PSEUDO_BASES)} are additionally generated with pseudo-fields (ClassVar constant `unit`, InitVar `factor` with a default, both; hooks none/both): "
            "they are not fields - no slot for them, the class attribute and a method reading it answer as in the original",
            "the original world keeps the same (possibly slotted) bases: only the child's decorator differs between module o and module s",
            "base frozen-ness follows the child (dataclasses forbid mixing); base kinds slotted_nw / slotted_dict (weakref=False / dict=True) are added to the three of the design",
            "a field inherited from an unslotted base counts as inherited, and so does an inherited field that the child re-declares: a slot for it is reported as C19/slots/.../extra:inherited-field (STRICT_INHERITED_SLOTS)",
            "user hooks are written so that they work for the ORIGINAL in every spec: only-__setstate__ accepts a dict or a (dict|None, slot dict) pair; only-__getstate__ returns (None, {field: value}) which the default "
            "machinery restores with setattr - impossible on a frozen original, hence excluded; a declared hook must stay the user's function and must be called whenever it is called for the original",
            "frozen: FrozenInstanceError is demanded for declared fields; for an undeclared name only rejection is demanded (the exception class is tallied in coverage)",
            "the order of '__dict__'/'__weakref__' inside __slots__ is free; field order is declaration order",
            "hash values are compared between the worlds only when the original's hash is value based (two distinct equal instances hash alike)",
            "each spec starts from cold.clear_all(); inside one history nothing is cleared",
        ],
        "exhaustive": True,
    }
