"""C12 - results depend only on (type, input), never on call history (stateless exhaustive exploration of histories)."""
from __future__ import annotations

import collections
import dataclasses
import datetime
import functools
import itertools
import json
import os
import subprocess
import sys
import typing

import typelib

from ..kernel import cold
from ..kernel.canon import canon, short
from ..kernel.guard import Out, call
from ..kernel.runner import ROOT, h64
from ..universe import prelude

ID = "C12"
STATEFUL = True
UTC = datetime.timezone.utc
MAXTASKS = 4

MODSRC = '''
import dataclasses, typing
@dataclasses.dataclass
class Node:
    v: int = 0
    kids: list["Node"] = dataclasses.field(default_factory=list)
@dataclasses.dataclass
class HasAny:
    x: typing.Any = None
    n: int = 0
class TDj(typing.TypedDict):
    a: list
@dataclasses.dataclass
class BaseDC:
    a: int = 0
@dataclasses.dataclass
class DerivedDC(BaseDC):
    b: int = 0
class BasePC:
    a: int
    def __init__(self, a=0):
        self.a = a
class DerivedPC(BasePC):
    b: int
    def __init__(self, a=0, b=0):
        self.a, self.b = a, b
import enum
class Level(enum.Enum):
    ONE = 1
    TWO = 2
    TEXT_ONE = "1"
    TEXT_NULL = "null"
    NONE = None
@dataclasses.dataclass
class Holder:
    item: BaseDC = None
import decimal
@dataclasses.dataclass(frozen=True)
class FrozenP:
    amount: decimal.Decimal = decimal.Decimal(0)
    n: int = 0
@dataclasses.dataclass
class NoInit:
    a: int = 0
    t: int = dataclasses.field(init=False, default=9)
'''
OTHER_A = "import dataclasses\n@dataclasses.dataclass\nclass Thing:\n    x: int\nPayload = bytes\ndef call1(f, *a, **k):\n    return f(*a, **k)\n"
OTHER_B = ("import dataclasses\n@dataclasses.dataclass\nclass Thing:\n    x: str\n@dataclasses.dataclass\nclass Payload:\n    n: int = 0\n"
           "def call1(f, *a, **k):\n    return f(*a, **k)\n")


@functools.lru_cache(maxsize=None)
def world():
    m = prelude.mkmod("tlg_c12", MODSRC).__dict__
    a = prelude.mkmod("tlg_c12_a", OTHER_A).__dict__
    b = prelude.mkmod("tlg_c12_b", OTHER_B).__dict__
    return m, a, b


def tz(minutes):
    return datetime.timezone(datetime.timedelta(minutes=minutes))


class Op:
    def __init__(self, name, family, kind, fn, mk_input=None):
        self.name, self.family, self.kind, self.fn, self.mk_input = name, family, kind, fn, mk_input


@functools.lru_cache(maxsize=None)
def alphabet():
    m, a, b = world()
    U = typing.Union
    Node, HasAny, TDj = m["Node"], m["HasAny"], m["TDj"]
    d1 = datetime.datetime(2020, 1, 1, 12, 0, tzinfo=UTC)
    d2 = d1.astimezone(tz(120))
    t1 = datetime.time(12, 0, tzinfo=UTC)
    t2 = datetime.time(14, 0, tzinfo=tz(120))
    ops = []

    def fac(T):
        return T if getattr(T, "__name__", "") == "<lambda>" else (lambda: T)

    def um(name, fam, T, mk):
        T = fac(T)
        ops.append(Op(name, fam, "unmarshal", lambda x, T=T: typelib.unmarshal(T(), x), mk))

    def ma(name, fam, T, mk):
        T = fac(T)
        ops.append(Op(name, fam, "marshal", lambda x, T=T: typelib.marshal(x, t=T()), mk))

    # annotation objects are created afresh for every execution where they are cheap to create (equal-but-distinct objects)
    um("u(Union[int,str],'1')", "union", lambda: U[int, str], lambda: "1")
    um("u(Union[str,int],'1')", "union", lambda: U[str, int], lambda: "1")
    um("u(int|str,'1')", "union", lambda: int | str, lambda: "1")
    um("u(list[Union[int,str]],['1'])", "union", lambda: list[U[int, str]], lambda: ["1"])
    um("u(list[Union[str,int]],['1'])", "union", lambda: list[U[str, int]], lambda: ["1"])
    ma("m(1,Union[int,str])", "union", lambda: U[int, str], lambda: 1)
    ma("m(1,Union[str,int])", "union", lambda: U[str, int], lambda: 1)
    um("u(int,1.0)", "num", int, lambda: 1.0)
    um("u(float,1)", "num", float, lambda: 1)
    um("u(int,True)", "num", int, lambda: True)
    um("u(str,1)", "num", str, lambda: 1)
    um("u(int,'1')", "num", int, lambda: "1")
    um("u(int,b'1')", "num", int, lambda: b"1")
    um("u(Literal[1],'1')", "num", lambda: typing.Literal[1], lambda: "1")
    um("u(float,'1')", "num", float, lambda: "1")
    um("u(Literal[1],1)", "num", lambda: typing.Literal[1], lambda: 1)
    um("u(Literal[1],True)", "num", lambda: typing.Literal[1], lambda: True)
    um("u(Literal[1],1.0)", "num", lambda: typing.Literal[1], lambda: 1.0)
    um("u(list[Literal[2,'a']],[2.0])", "num", lambda: list[typing.Literal[2, "a"]], lambda: [2.0])
    um("u(list[Literal[2,'a']],[2,'a'])", "num", lambda: list[typing.Literal[2, "a"]], lambda: [2, "a"])
    ma("m(True,Literal[1])", "num", lambda: typing.Literal[1], lambda: True)
    ma("m(1,Literal[1])", "num", lambda: typing.Literal[1], lambda: 1)
    # one member order only (family "union1"): history dependence here is NOT the Union[A, B] == Union[B, A] conflation
    ma("m('5',float|str)", "union1", lambda: U[float, str], lambda: "5")
    ma("m('five',float|str)", "union1", lambda: U[float, str], lambda: "five")
    ma("m(5.0,float|str)", "union1", lambda: U[float, str], lambda: 5.0)
    um("u(float|str,'5')", "union1", lambda: U[float, str], lambda: "5")
    um("u(float|str,'five')", "union1", lambda: U[float, str], lambda: "five")
    um("u(Optional[str],None)", "union1", lambda: typing.Optional[str], lambda: None)
    um("u(Optional[str],'x')", "union1", lambda: typing.Optional[str], lambda: "x")
    um("u(list[Optional[bytes]],[None,b'x',None])", "union1", lambda: list[typing.Optional[bytes]], lambda: [None, b"x", None])
    ma("m(dt+00:00)", "temporal", datetime.datetime, lambda: d1)
    ma("m(dt+02:00)", "temporal", datetime.datetime, lambda: d2)
    um("u(str,dt+00:00)", "temporal", str, lambda: d1)
    um("u(str,dt+02:00)", "temporal", str, lambda: d2)
    ma("m(time+00:00)", "temporal", datetime.time, lambda: t1)
    ma("m(time+02:00)", "temporal", datetime.time, lambda: t2)
    um("u(datetime,'2020-01-01T12:00:00+00:00')", "temporal", datetime.datetime, lambda: "2020-01-01T12:00:00+00:00")
    um("u(datetime,'2020-01-01T14:00:00+02:00')", "temporal", datetime.datetime, lambda: "2020-01-01T14:00:00+02:00")
    um("u(list,'[1,2]')", "json", list, lambda: "[1,2]")
    um("u(list[int],'[1,2]')", "json", lambda: list[int], lambda: "[1,2]")
    um("u(list,b'[1,2]')", "json", list, lambda: b"[1,2]")
    um("u(dict,'{\"a\":[1]}')", "json", dict, lambda: '{"a":[1]}')
    um("u(HasAny,'{\"x\":[1]}')", "json", HasAny, lambda: '{"x":[1]}')
    um("u(TDj,'{\"a\":[1]}')", "json", TDj, lambda: '{"a":[1]}')
    um("u(Any-list,[1,[2]])", "json", lambda: list[typing.Any], lambda: [1, [2]])
    um("u(tuple,'([1,2],{\"a\":[3]})')", "json", tuple, lambda: "([1, 2], {'a': [3]})")
    ops.append(Op("load('([1],)')", "json", "load", lambda x: __import__("typelib").serdes.load(x), lambda: "([1], {'k': [2]})"))
    ops.append(Op("decode(list,b'[1,2]')", "json", "decode", lambda x: typelib.decode(list, x), lambda: b"[1,2]"))
    ops.append(Op("encode([1,2],list[int])", "json", "encode", lambda x: typelib.encode(x, t=list[int]), lambda: [1, 2]))
    um("u(Node,nested)", "cyclic", Node, lambda: {"v": "1", "kids": [{"v": "2", "kids": [{"v": "3"}]}]})
    um("u(list[Node],nested)", "cyclic", lambda: list[Node], lambda: [{"v": "1", "kids": [{"v": "2"}]}])
    ma("m(Node)", "cyclic", Node, lambda: Node(1, [Node(2, [Node(3)])]))
    ops.append(Op("build-u(Node)", "cyclic", "build", lambda x: type(typelib.unmarshaller(Node)).__name__, lambda: None))
    ops.append(Op("build-m(list[Node])", "cyclic", "build", lambda x: type(typelib.marshaller(list[Node])).__name__, lambda: None))
    ops.append(Op("A:u('Thing')", "refs", "unmarshal", lambda x: a["call1"](typelib.unmarshal, "Thing", x), lambda: {"x": "1"}))
    ops.append(Op("B:u('Thing')", "refs", "unmarshal", lambda x: b["call1"](typelib.unmarshal, "Thing", x), lambda: {"x": "1"}))
    BaseDC, DerivedDC, BasePC, DerivedPC, Level, Holder = (m[k] for k in ("BaseDC", "DerivedDC", "BasePC", "DerivedPC", "Level", "Holder"))
    # a base-class instance and an instance of a field-adding subclass (per-class strategy memos must not be inherited)
    ma("m(BaseDC(1))", "inherit", BaseDC, lambda: BaseDC(1))
    ma("m(DerivedDC(1,2))", "inherit", DerivedDC, lambda: DerivedDC(1, 2))
    ma("m(BasePC(1))", "inherit", BasePC, lambda: BasePC(1))
    ma("m(DerivedPC(1,2))", "inherit", DerivedPC, lambda: DerivedPC(1, 2))
    um("u(DerivedDC,DerivedDC(1,2))", "inherit", DerivedDC, lambda: DerivedDC(1, 2))
    um("u(BaseDC,BaseDC(1))", "inherit", BaseDC, lambda: BaseDC(1))
    um("u(dict,DerivedPC(1,2))", "inherit", lambda: dict[str, int], lambda: DerivedPC(1, 2))
    # an enum whose member values collide once text is decoded ("1" is a member, so is 1)
    um("u(Level,'2')", "enum", Level, lambda: "2")
    um("u(Level,'1')", "enum", Level, lambda: "1")
    um("u(Level,1)", "enum", Level, lambda: 1)
    um("u(Level,b'1')", "enum", Level, lambda: b"1")
    um("u(Level,'null')", "enum", Level, lambda: "null")
    um("u(Level,None)", "enum", Level, lambda: None)
    ma("m(Level.TEXT_ONE)", "enum", Level, lambda: Level.TEXT_ONE)
    # one structured routine fed values of different shapes
    ma("m({'a':1},BaseDC)", "struct", BaseDC, lambda: {"a": 1})
    ma("m(BaseDC(1),BaseDC)", "struct", BaseDC, lambda: BaseDC(1))
    ma("m(DerivedDC(1,2),BaseDC)", "struct", BaseDC, lambda: DerivedDC(1, 2))
    ma("m(Holder(DerivedDC))", "struct", Holder, lambda: Holder(DerivedDC(1, 2)))
    ma("m(Holder(BaseDC))", "struct", Holder, lambda: Holder(BaseDC(1)))
    ma("m(Holder({'a':1}))", "struct", Holder, lambda: Holder({"a": 1}))
    NoInit = m["NoInit"]
    # a dataclass with a field the constructor does not take: what one direction learns about the class must not change the other
    um("u(NoInit,{'a':'1'})", "noinit", NoInit, lambda: {"a": "1"})
    ma("m(NoInit(1))", "noinit", NoInit, lambda: NoInit(1))
    ops.append(Op("build-u(NoInit)", "noinit", "build", lambda x: type(typelib.unmarshaller(NoInit)).__name__, lambda: None))
    ops.append(Op("build-m(NoInit)", "noinit", "build", lambda x: type(typelib.marshaller(NoInit)).__name__, lambda: None))
    ops.append(Op("encode(NoInit(1))", "noinit", "encode", lambda x: typelib.encode(x, t=NoInit), lambda: NoInit(1)))
    # mapping KEYS that are equal but not the same (equal instants, 1 == 1.0 == True): each call converts its own key
    ma("m({dt+00:00:1})", "temporal", lambda: dict[datetime.datetime, int], lambda: {d1: 1})
    ma("m({dt+02:00:1})", "temporal", lambda: dict[datetime.datetime, int], lambda: {d2: 1})
    ma("m({1:'x'},dict[str,str])", "num", lambda: dict[str, str], lambda: {1: "x"})
    ma("m({1.0:'x'},dict[str,str])", "num", lambda: dict[str, str], lambda: {1.0: "x"})
    ma("m({True:'x'},dict[str,str])", "num", lambda: dict[str, str], lambda: {True: "x"})
    # values that are EQUAL (== and hash) but print differently, alone and inside a frozen (hashable) dataclass
    import decimal as _d

    FrozenP = m["FrozenP"]
    ma("m(Decimal('1.50'))", "decimal", _d.Decimal, lambda: _d.Decimal("1.50"))
    ma("m(Decimal('1.5'))", "decimal", _d.Decimal, lambda: _d.Decimal("1.5"))
    ma("m(Decimal('-0'))", "decimal", _d.Decimal, lambda: _d.Decimal("-0"))
    ma("m(Decimal('0'))", "decimal", _d.Decimal, lambda: _d.Decimal("0"))
    ma("m({Decimal('1.50'):1})", "decimal", lambda: dict[_d.Decimal, int], lambda: {_d.Decimal("1.50"): 1})
    ma("m({Decimal('1.5'):1})", "decimal", lambda: dict[_d.Decimal, int], lambda: {_d.Decimal("1.5"): 1})
    ma("m(FrozenP('1.50',1))", "decimal", FrozenP, lambda: FrozenP(_d.Decimal("1.50"), 1))
    ma("m(FrozenP('1.5',True))", "decimal", FrozenP, lambda: FrozenP(_d.Decimal("1.5"), True))
    um("u(Decimal,'1.50')", "decimal", _d.Decimal, lambda: "1.50")
    um("u(Decimal,'1.5')", "decimal", _d.Decimal, lambda: "1.5")
    # variadic, fixed and empty tuples (one origin, three routine classes) and bool / int (one routine class, two primitives)
    um("u(tuple[int,...],['1','2','3'])", "tuple", lambda: tuple[int, ...], lambda: ["1", "2", "3"])
    um("u(tuple[str,int],['1','2'])", "tuple", lambda: tuple[str, int], lambda: ["1", "2"])
    um("u(tuple[int],['1'])", "tuple", lambda: tuple[int], lambda: ["1"])
    um("u(tuple[()],[])", "tuple", lambda: tuple[()], lambda: [])
    ma("m((1,'2'),tuple[str,int])", "tuple", lambda: tuple[str, int], lambda: (1, "2"))
    ma("m((1,2),tuple[str,...])", "tuple", lambda: tuple[str, ...], lambda: (1, 2))
    um("u(list[int],['1','2'])", "tuple", lambda: list[int], lambda: ["1", "2"])
    # empty inputs of mutable container targets (a routine must not hand out one shared empty result)
    um("u(list[int],[])", "tuple", lambda: list[int], lambda: [])
    um("u(list[int],'[]')", "tuple", lambda: list[int], lambda: "[]")
    um("u(set[int],[])", "tuple", lambda: set[int], lambda: [])
    um("u(dict[str,int],{})", "tuple", lambda: dict[str, int], lambda: {})
    ma("m(True,bool)", "num", bool, lambda: True)
    ma("m(5,int)", "num", int, lambda: 5)
    ma("m(True,int)", "num", int, lambda: True)
    ma("m(1,bool)", "num", bool, lambda: 1)
    ma("m(2.0,float)", "num", float, lambda: 2.0)
    # one bare name that is a bytes-like type in module A and a class in module B, through the top-level entry points
    ops.append(Op("A:encode(b'x','Payload')", "refs", "encode", lambda x: a["call1"](typelib.encode, x, t="Payload"), lambda: b"x"))
    ops.append(Op("B:encode(Payload(7),'Payload')", "refs", "encode", lambda x: b["call1"](typelib.encode, x, t="Payload"), lambda: b["Payload"](7)))
    ops.append(Op("A:decode('Payload',b'x')", "refs", "decode", lambda x: a["call1"](typelib.decode, "Payload", x), lambda: b"x"))
    ops.append(Op("B:decode('Payload',json)", "refs", "decode", lambda x: b["call1"](typelib.decode, "Payload", x), lambda: b'{"n": "7"}'))
    # (w10) bare `list` / `dict[str, list]` targets of marshal (the output never IS the input), one text tried against two temporal types
    # (the first rejects it), the X | None spelling next to Optional[X]
    ma("m([1,2],list)", "json", list, lambda: [1, 2])
    ma("m({'k':[1]},dict[str,list])", "json", lambda: dict[str, list], lambda: {"k": [1]})
    um("u(timedelta,'2021-03-04')", "temporal", datetime.timedelta, lambda: "2021-03-04")
    um("u(date,'2021-03-04')", "temporal", datetime.date, lambda: "2021-03-04")
    um("u(date|timedelta,'P1DT2H')", "temporal", lambda: U[datetime.date, datetime.timedelta], lambda: "P1DT2H")
    um("u(timedelta,'P1DT2H')", "temporal", datetime.timedelta, lambda: "P1DT2H")
    um("u(str|None,None)", "union1", lambda: str | None, lambda: None)
    um("u(bool|None,None)", "union1", lambda: bool | None, lambda: None)
    um("u(Optional[bool],None)", "union1", lambda: typing.Optional[bool], lambda: None)
    ops.append(Op("build-codec(list[int])", "json", "build", lambda x: type(typelib.codec(list[int])).__name__, lambda: None))
    ops.append(Op("ENV:mutate-results", "env", "env", None))
    ops.append(Op("ENV:mutate-inputs", "env", "env", None))
    ops.append(Op("ENV:clear-caches", "env", "env", None))
    return ops


SENT = "<<mutated>>"


def deep_mutate(x, seen=None, depth=0):
    """idempotent deep mutation of every reachable mutable container / instance"""
    if seen is None:
        seen = set()
    if id(x) in seen or depth > 30:
        return
    seen.add(id(x))
    if isinstance(x, list):
        for e in list(x):
            deep_mutate(e, seen, depth + 1)
        if not x or x[-1] != SENT:
            x.append(SENT)
    elif isinstance(x, dict):
        for e in list(x.values()):
            deep_mutate(e, seen, depth + 1)
        x[SENT] = SENT
    elif isinstance(x, set):
        x.add(SENT)
    elif isinstance(x, collections.deque):
        if not x or x[-1] != SENT:
            x.append(SENT)
    elif isinstance(x, tuple):
        for e in x:
            deep_mutate(e, seen, depth + 1)
    elif dataclasses.is_dataclass(x) and not isinstance(x, type):
        for f in dataclasses.fields(x):
            v = getattr(x, f.name, None)
            deep_mutate(v, seen, depth + 1)
            try:
                if not isinstance(v, (list, dict, set)):
                    object.__setattr__(x, f.name, SENT)
            except Exception:  # noqa: BLE001
                pass


def containers(x, acc=None, depth=0):
    if acc is None:
        acc = {}
    if depth > 30 or id(x) in acc:
        return acc
    if isinstance(x, (list, dict, set, collections.deque)) or (dataclasses.is_dataclass(x) and not isinstance(x, type)):
        acc[id(x)] = x
    if isinstance(x, dict):
        for v in x.values():
            containers(v, acc, depth + 1)
    elif isinstance(x, (list, tuple, set, frozenset, collections.deque)):
        for v in x:
            containers(v, acc, depth + 1)
    elif dataclasses.is_dataclass(x) and not isinstance(x, type):
        for f in dataclasses.fields(x):
            containers(getattr(x, f.name, None), acc, depth + 1)
    return acc


_COLD: dict[int, str] = {}


def cold_outcome(i):
    """canonical outcome of operation i run alone in the cold state (cached per process)"""
    if i not in _COLD:
        op = alphabet()[i]
        cold.clear_all()
        x = op.mk_input()
        o = call(op.fn, x)
        _COLD[i] = json.dumps(canon(o), default=repr)
    return _COLD[i]


def precompute_cold():
    for i, op in enumerate(alphabet()):
        if op.kind != "env":
            cold_outcome(i)


def run_history(seq, res, judge_from=0):
    """Run the operation sequence from the cold state; judge every operation at position >= judge_from.
    Returns list of (position, mode, detail) faults."""
    ops = alphabet()
    if len(_COLD) < sum(1 for o in ops if o.kind != "env"):
        precompute_cold()  # never clear caches in the middle of a history
    cold.clear_all()
    results, inputs_, faults = [], [], []
    marshalled = []  # (position, result) of the marshal operations
    for pos, i in enumerate(seq):
        op = ops[i]
        if op.kind == "env":
            if op.name == "ENV:mutate-results":
                for r in results:
                    deep_mutate(r)
            elif op.name == "ENV:mutate-inputs":
                # what a marshal call returned is settled: mutating the value it was given afterwards does not reach it
                before = [(j, json.dumps(canon(r), default=repr)) for j, r in marshalled]
                for _, x in inputs_:
                    deep_mutate(x)
                for (j, snap0), (_, r) in zip(before, marshalled):
                    if pos >= judge_from and json.dumps(canon(r), default=repr) != snap0:
                        faults.append((pos, "result-changed-by-input-mutation", f"the result of {ops[seq[j]].name} (position {j}) changed when the input of that call was mutated afterwards"))
                        break
            else:
                cold.clear_all()
            continue
        x = op.mk_input()
        snap = json.dumps(canon(x), default=repr)
        o = call(op.fn, x)
        if pos >= judge_from:
            res.evals += 1
            got = json.dumps(canon(o), default=repr)
            if got != cold_outcome(i):
                faults.append((pos, "outcome-differs", f"{op.name} -> {short(o.val if o.ok else o.exc, 80)} after the history, but alone in the cold state -> {cold_outcome(i)[:120]}"))
            if json.dumps(canon(x), default=repr) != snap:
                faults.append((pos, "input-mutated", f"{op.name} modified its input"))
            if o.ok:
                mine = containers(o.val)
                own_in = containers(x)
                for r in results:
                    if set(mine) & set(containers(r)):
                        faults.append((pos, "shared-with-earlier-result", f"{op.name} returned a container shared with an earlier result"))
                        break
                for j, xin in inputs_:
                    shared = (set(mine) - set(own_in)) & set(containers(xin))
                    if shared:
                        faults.append((pos, "shared-with-another-call's-input", f"{op.name} returned a container that belongs to another call's input"))
                        break
        if o.ok:
            results.append(o.val)
            if op.kind == "marshal":
                marshalled.append((pos, o.val))
        inputs_.append((pos, x))
    return faults


def minimise(seq, pos, mode):
    """delta-removal of operations before `pos` while the same fault persists at the (shifted) probe"""
    seq = list(seq)
    probe = seq[pos]
    prefix = seq[:pos]
    changed = True
    from ..kernel.runner import Result

    while changed:
        changed = False
        for k in range(len(prefix)):
            cand = prefix[:k] + prefix[k + 1 :]
            fs = run_history(cand + [probe], Result(), judge_from=len(cand))
            if any(f[1] == mode for f in fs):
                prefix = cand
                changed = True
                break
    return prefix, probe


def opsig(i):
    op = alphabet()[i]
    return f"{op.family}:{op.kind}"


FAM_CAP = {"quick": 6, "thorough": 7}  # operations of one family used in the deeper family-local histories
# full: every sequence of that length; related: the probe (last operation) shares its family with an earlier operation of the
# sequence or an environment move precedes it; local: sequences over one family + environment moves
DEPTHS = {
    "quick": {"full": 2, "related": 3, "local": 5},
    "thorough": {"full": 3, "related": 3, "local": 6},  # (related depth 4 over ~125 operations would be 2.4 x 10^8 indices)
}


@functools.lru_cache(maxsize=None)
def blocks(tier):
    """The history space as blocks (operation indices, length, mode): all sequences of that length over those operations that
    the mode admits. Never materialised: a unit is a range of mixed-radix indices of one block (see seq_at)."""
    ops = alphabet()
    allops = tuple(range(len(ops)))
    D = DEPTHS[tier]
    out = [(allops, k, "full") for k in range(1, D["full"] + 1)]
    out += [(allops, k, "related") for k in range(D["full"] + 1, D["related"] + 1)]
    env = [i for i in allops if ops[i].kind == "env"]
    for f in sorted({o.family for o in ops if o.family != "env"}):
        fam = [i for i in allops if ops[i].family == f][: FAM_CAP[tier]]
        out += [(tuple(fam + env), k, "local") for k in range(D["related"] + 1, D["local"] + 1)]
    return out


def seq_at(block, idx):
    loc, k = block[0], block[1]
    n = len(loc)
    s = []
    for _ in range(k):
        idx, d = divmod(idx, n)
        s.append(loc[d])
    return tuple(reversed(s))


def admitted(s, ops, mode):
    last = ops[s[-1]]
    if last.kind == "env":
        return False  # the last operation is the probe
    if mode == "related":
        return any(ops[i].family == last.family or ops[i].kind == "env" for i in s[:-1])
    if mode == "local":
        # skip sequences with two consecutive identical env moves (idempotent)
        return not any(a == b and ops[a].kind == "env" for a, b in zip(s, s[1:]))
    return True


def sequences(tier, unit=None):
    """Generator over the admitted sequences of one unit (or of the whole tier)."""
    ops = alphabet()
    us = [unit] if unit is not None else [u for u in units(tier) if u[0] == "h"]
    for _, bi, a, b in us:
        block = blocks(tier)[bi]
        for idx in range(a, b):
            s = seq_at(block, idx)
            if admitted(s, ops, block[2]):
                yield s


STEP = 4000


def units(tier):
    us = []
    for bi, (loc, k, _mode) in enumerate(blocks(tier)):
        n = len(loc) ** k
        us += [("h", bi, a, min(n, a + STEP)) for a in range(0, n, STEP)]
    return us + [("fresh", i, i + 1) for i in range(len(alphabet())) if alphabet()[i].kind != "env"]


def meta(tier):
    ops = alphabet()
    D = DEPTHS[tier]
    return {
        "rule": f"operation alphabet of {len(ops)} operations in colliding families (both member orders of a union; 1/1.0/True/'1'/b'1'; equal instants with different offsets; JSON text yielding "
        "mutable results as str and bytes; a cyclic class via class and container root; one bare name from two modules; base / derived class instances; an enum whose member values collide as text; "
        "one structured routine fed mappings, instances and subclass instances; builds) plus the environment moves mutate-results, mutate-inputs, clear-caches; "
        f"EVERY sequence of length <= {D['full']} over the whole alphabet, every sequence of length <= {D['related']} whose probe (last operation) has an operation of its own family or an environment move before it, "
        f"and every family-local sequence (family + environment moves) up to length {D['local']} (the first {FAM_CAP[tier]} operations of a family) is replayed from the cold state and "
        "EVERY operation in it is judged: canonical outcome == outcome of that operation alone in the cold state, input unchanged, result containers disjoint from earlier results and other calls' inputs, and what a marshal call returned does not change when the value it was given is mutated afterwards; "
        "additionally every operation's cold outcome is compared with its outcome in a freshly spawned interpreter; states are identified with histories (cache contents cannot be hashed); "
        "non-trivial = the operation returned; distinct by (history)",
        "bounds": {"alphabet": [o.name for o in ops], "full_depth": D["full"], "related_depth": D["related"], "family_depth": D["local"], "family_ops_in_deeper_histories": FAM_CAP[tier]},
        "assumptions": ["cold = every typelib cache cleared + typing's own alias caches cleared; cold == fresh process is itself checked"],
        "exhaustive": True,
    }


def run_unit(unit, tier, res):
    world()
    kind = unit[0]
    if kind == "fresh":
        run_fresh(unit[1], res)
        return
    ops = alphabet()
    last = None
    for s in sequences(tier, unit):
        last = s
        faults = run_history(s, res)
        res.programs += 1
        res.states.add(h64(s))
        res.outcomes.add(h64(s, bool(faults)))
        res.nontrivial.add(h64(s))
        done = set()
        for pos, mode, detail in faults:
            if (pos, mode) in done:
                continue
            done.add((pos, mode))
            prefix, probe = minimise(s, pos, mode)
            culprits = sorted({ops[i].family if ops[i].kind != "env" else ops[i].name for i in prefix}) or ["<none>"]
            res.violation(f"C12/{mode}/probe={opsig(probe)}/after={'+'.join(culprits)}",
                          f"{detail}; minimal history: {[ops[i].name for i in prefix]} then {ops[probe].name}",
                          {"kind": "h", "seq": list(prefix) + [probe], "names": [ops[i].name for i in prefix] + [ops[probe].name]})
    if len(res.samples) < 2 and last is not None:
        res.samples.append({"history": [ops[i].name for i in last]})


def run_fresh(i, res):
    """cold (caches cleared) == fresh process, for operation i"""
    op = alphabet()[i]
    env = dict(os.environ)
    p = subprocess.run([sys.executable, "-c", f"import sys; sys.path.insert(0, {ROOT!r});\n"
                        f"import os\nsrc=os.environ.get('TLMC_SRC')\nif src: sys.path.insert(0, src)\n"
                        f"from tlmc.checks import c12; c12.world(); print('OUT=' + c12.cold_outcome({i}))"],
                       capture_output=True, text=True, env=env, cwd=ROOT, timeout=300)
    res.evals += 1
    res.programs += 1
    out = [line[4:] for line in p.stdout.splitlines() if line.startswith("OUT=")]
    here = cold_outcome(i)
    res.outcomes.add(h64("fresh", i, here))
    res.states.add(h64("fresh", i))
    if not out or out[0] != here:
        res.violation(f"C12/cold-vs-fresh-process/probe={opsig(i)}", f"{op.name}: cache-cleared outcome {here[:120]} but a fresh interpreter gives {(out[0] if out else p.stderr[-200:])[:120]}",
                      {"kind": "fresh", "i": i})


def replay(case, tier, res):
    world()
    if case["kind"] == "fresh":
        run_fresh(case["i"], res)
        return
    ops = alphabet()
    s = case["seq"]
    faults = run_history(s, res)
    for pos, mode, detail in faults:
        prefix, probe = minimise(s, pos, mode)
        culprits = sorted({ops[i].family if ops[i].kind != "env" else ops[i].name for i in prefix}) or ["<none>"]
        res.violation(f"C12/{mode}/probe={opsig(probe)}/after={'+'.join(culprits)}", detail, case)
