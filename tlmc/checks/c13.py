"""C13 - already-valid values pass through unmarshal unchanged; unmarshal is idempotent."""
from __future__ import annotations

from ..kernel.canon import chash, short
from ..kernel.guard import call
from ..kernel.runner import h64
from ..refmodel.same import same
from ..universe import inputs
from . import _eval as E

ID = "C13"
SETS = {
    "quick": ["U1L_all", "R2K", "P:P0q", "P:P4q", "P:P6q", "P:P7q"],
    "thorough": ["U1L_all", "U2K", "P:P0", "P:P4", "P:P6", "P:P7"],
}
WR = {"quick": (2, 2), "thorough": (2, 3)}
STEP = 40


def units(tier):
    return E.ranges(SETS[tier], STEP) + [("bytes-literals", 0, 1)]


def run_bytes_literals(res):
    """Literal types with bytes members (excluded from the term sets because bytes never reach the JSON checks), compiled patterns, bytes enumerations, nested self-referential classes."""
    import typing

    import typelib

    from ..kernel import cold

    import re

    cases = [
        (re.Pattern, [re.compile("a+", re.I), re.compile("a", re.M | re.S), re.compile(b"a+"), re.compile(b"x", re.I)]),
        (list[re.Pattern], [[re.compile("a", re.I), re.compile(b"b")]]),
        (typing.Literal[b"ab"], [b"ab"]),
        (typing.Literal[b"ab", "ab"], [b"ab", "ab"]),
        (typing.Literal[b"1", "1", 1], [b"1", "1", 1]),
        (list[typing.Literal[b"x", "y"]], [[b"x", "y"], []]),
        (typing.Optional[typing.Literal[b"null"]], [b"null", None]),
        (dict[str, typing.Literal[b"a", 2]], [{"k": b"a", "j": 2}]),
    ]
    import enum

    class EBytes(bytes, enum.Enum):  # members ARE bytes instances
        P = b"\x89PNG"
        G = b"GIF8"
        N = b"null"
        E = b""

    members = list(EBytes)
    cases += [
        (EBytes, members),
        (list[EBytes], [members, []]),
        (typing.Optional[EBytes], members + [None]),
        (dict[EBytes, int], [{m: i for i, m in enumerate(members)}]),
        (tuple[EBytes, str], [(EBytes.G, "x")]),
    ]
    # a self-referential class NESTED in a class, next to a module-level class that shares its short name
    from ..universe import prelude

    nm = prelude.mkmod("tlg_c13_nested", "import dataclasses, typing\nclass Tree:\n    @dataclasses.dataclass\n    class Node:\n        val: str\n        kids: list['Tree.Node'] = dataclasses.field(default_factory=list)\n"
                                         "        nxt: typing.Optional['Tree.Node'] = None\n@dataclasses.dataclass\nclass Node:\n    val: str = ''\n    nxt: typing.Optional['Node'] = None\n"
                                         "@dataclasses.dataclass\nclass Forest:\n    trees: dict[str, Tree.Node]\n    first: Node\n").__dict__
    TN, MN, FO = nm["Tree"].Node, nm["Node"], nm["Forest"]
    deep = TN("1", kids=[TN("2", kids=[TN("null")]), TN("3")], nxt=TN("4"))
    cases += [
        (TN, [deep, TN("x")]),
        (list[TN], [[deep], []]),
        (FO, [FO({"a": deep}, MN("m", MN("n")))]),
        (typing.Optional[MN], [MN("m", MN("n")), None]),
    ]
    for T_, vals in cases:
        cold.clear_all()
        res.programs += 1
        for v in vals:
            o = call(typelib.unmarshal, T_, v)
            res.evals += 1
            res.outcomes.add(h64("bytes-literal", repr(T_), repr(v), "ok" if o.ok else o.excname))
            if o.ok:
                res.nontrivial.add(h64("bytes-literal", repr(T_), repr(v)))
            if not o.ok or not same(o.val, v):
                res.violation(f"C13/pass/bytes-literal/{'raises:' + o.excname if not o.ok else ('class' if type(o.val) is not type(v) else 'value')}",
                              f"valid value {v!r} of {T_!r} does not pass through unmarshal unchanged: {short(o.val if o.ok else o.exc, 80)}", {"set": "bytes-literals"})


def meta(tier):
    return {
        "rule": "every union-free / Optional-only term of the named sets x (a) every valid value of V(T; w, r): unmarshal(T, v) same-as v; "
        "(b) every x of X0 + wire renderings of V(T): if y = unmarshal(T, x) returns then unmarshal(T, y) same-as y; "
        "non-trivial = the (first) call returned; distinct by canonical (T, input, outcome)",
        "bounds": {"term_sets": SETS[tier], "w_r": WR[tier], "x0": "universe/inputs.py x0() (~130 objects)"},
        "assumptions": ["cold state per program", "valid values are of exactly the annotated classes"],
        "exhaustive": True,
    }


def eligible(term):
    return not term.has_union and not term.has_bytes


def _pass(u, ann, v):
    o = call(u, v)
    if not o.ok:
        return "raises:" + o.excname, o
    if same(o.val, v):
        return None, o
    return ("class" if type(o.val) is not type(v) else "value"), o


def run_term(setname, i, term, tier, res, only=None):
    if not eligible(term):
        res.skipped += 1
        return
    w, r = WR[tier]
    prog = E.Prog(term)
    try:
        res.programs += 1
        bu = prog.unmarshaller()
        if not bu.ok:
            E.report_build_failure(ID, prog, bu, res, setname, i, "unmarshaller")
            return
        u, ns = bu.val, prog.ns
        vals = E.values_capped(term, ns, w, r, res)
        # (a) pass-through
        for vi, v in enumerate(vals):
            if only is not None and only != ("v", vi):
                continue
            mode, o = _pass(u, prog.ann, v)
            res.evals += 1
            key = h64("pt", term.src, chash(v), mode or "ok")
            res.outcomes.add(key)
            if o.ok:
                res.nontrivial.add(key)
            if mode is None:
                continue

            def fails(t, x):
                _, _, ut = E.routines_for(t, ns)
                if not ut.ok:
                    return "build"
                return _pass(ut.val, None, x)[0]

            tmin, vmin, mmin = E.localize(ns, term, v, fails) or (term, v, mode)
            res.violation(
                f"C13/pass/{tmin.sig()}/{mmin}/{E.feature(vmin)}",
                f"valid value {short(vmin, 100)} of {tmin.src} does not pass through unmarshal unchanged: {mmin}; got {short(o.val if o.ok else o.exc, 100)} (found in {term.src})",
                {"set": setname, "i": i, "only": ["v", vi], "T": term.src, "value": short(v, 200)},
            )
        # (b) idempotence over X0 and wire renderings
        pool = [(lab, f) for lab, f in inputs.x0(ns)]
        for vi, v in enumerate(vals[:60]):
            wv = call(term.wire, ns, v)
            if wv.ok:
                for rn, rv in inputs.renderings(wv.val):
                    pool.append((f"wire{vi}:{rn}", (lambda rv: lambda: rv)(rv)))
        for xi, (lab, f) in enumerate(pool):
            if only is not None and only != ("x", xi):
                continue
            x = f()
            y = call(u, x)
            res.evals += 1
            key = h64("idem", term.src, lab, "ok" if y.ok else y.excname)
            res.outcomes.add(key)
            if not y.ok:
                continue
            res.nontrivial.add(key)
            snap = chash(y.val)
            z = call(u, y.val)
            if z.ok and same(z.val, y.val) and chash(z.val) == snap:
                continue
            mode = ("raises:" + z.excname) if not z.ok else ("class" if type(z.val) is not type(y.val) else "value")
            # localise on the *result* y when it is a valid value of T, else blame T itself
            tmin, ymin = term, y.val
            if term.conforms(ns, y.val):

                def fails(t, q):
                    _, _, ut = E.routines_for(t, ns)
                    if not ut.ok:
                        return "build"
                    o2 = call(ut.val, q)
                    if not o2.ok:
                        return "raises"
                    return None if same(o2.val, q) else "value"

                loc = E.localize(ns, term, y.val, fails)
                if loc:
                    tmin, ymin, _ = loc
            res.violation(
                f"C13/idem/{tmin.sig()}/{mode}/{E.feature(ymin)}",
                f"unmarshal({term.src}, y) != y for y = unmarshal(T, {short(x, 60)}) = {short(y.val, 100)}: second call gives {short(z.val if z.ok else z.exc, 100)}",
                {"set": setname, "i": i, "only": ["x", xi], "T": term.src, "input": lab},
            )
        if len(res.samples) < 3:
            res.samples.append({"T": term.src, "n_values": len(vals), "n_inputs": len(pool)})
    finally:
        prog.close()


def run_unit(unit, tier, res):
    if unit[0] == "bytes-literals":
        run_bytes_literals(res)
        return
    s, a, b = unit
    for off, term in enumerate(E.unit_terms(unit)):
        run_term(s, a + off, term, tier, res)


def replay(case, tier, res):
    if case["set"] == "bytes-literals":
        run_bytes_literals(res)
        return
    term = E.term_set(case["set"])[case["i"]]
    only = tuple(case["only"]) if case.get("only") else None
    run_term(case["set"], case["i"], term, tier, res, only=only)
