"""C11 - aliases, NewTypes, qualifiers and string references are transparent (wrapped program == unwrapped program)."""
from __future__ import annotations

import functools
import itertools
import typing

import typelib

from ..kernel import cold
from ..kernel.canon import short
from ..kernel.guard import call, timed
from ..kernel.runner import h64
from ..refmodel.same import same
from ..universe import inputs, prelude
from ..universe import terms as T
from . import _eval as E

ID = "C11"
INNER = ("newtype", "alias", "stralias")
OUTER = ("newtype", "alias", "stralias", "final", "classvar", "strref", "fwdref")
POSITIONS = ("root", "list", "dictval", "tuple", "union", "field")
MAXCHAIN = {"quick": 2, "thorough": 3}
STEP = 1
MAXTASKS = 8


@functools.lru_cache(maxsize=None)
def bases(tier):
    ks = T.leaves(T.K)
    d1 = [t for t in T.compose1(T.leaves(T.K4)) if t.kind != "union"]
    extra = d1[::7] if tier == "quick" else d1
    flav = [T.LEAVES[n] for n in ("DCslots", "DCfrozen", "TDnr", "PC", "SC")]
    return ks + flav + extra + [T.BYTES_LEAVES["bytes"], T.BYTES_LEAVES["bytearray"]]


@functools.lru_cache(maxsize=None)
def chains(tier):
    out = []
    for n in range(1, MAXCHAIN[tier] + 1):
        for inner in itertools.product(INNER, repeat=n - 1):
            for o in OUTER:
                out.append(tuple(inner) + (o,))
    if MAXCHAIN[tier] < 3:
        # a handful of length-3 chains (alternating alias / NewType) also in the quick tier
        out += [("alias", "newtype", "alias"), ("newtype", "alias", "newtype"), ("stralias", "newtype", "alias"), ("alias", "newtype", "final")]
    return out


def legal(chain, pos):
    o = chain[-1]
    if o == "classvar" and pos != "root":
        return False
    if o == "final" and pos not in ("root", "field"):
        return False
    return True


def units(tier):
    n = len(bases(tier))
    return [("b", a, min(n, a + STEP)) for a in range(0, n, STEP)] + [("special", 0, 1)]


def meta(tier):
    return {
        "rule": f"every base type ({len(bases(tier))}: K, the class flavours, depth-1 composites over K4) x every wrapper chain of length <= {MAXCHAIN[tier]} "
        "(inner: NewType / value alias / string-valued alias; outermost: those + Final / ClassVar / string reference / ForwardRef(module)) x positions "
        f"{POSITIONS} (Final at root and fields, ClassVar at root only) x both module styles; string roots issued from the defining module at call depth 1-3, "
        "from another module with a qualified name and as ForwardRef(module=...); oracle: wrapped and unwrapped marshaller / unmarshaller / codec give same results or both raise "
        "on the wire renderings of the base values and 40 rejected inputs; non-trivial = the unwrapped routine returned; distinct by (program, input, outcome)",
        "bounds": {"max_chain": MAXCHAIN[tier], "bases": len(bases(tier)), "chains": len(chains(tier))},
        "assumptions": ["cold state per program", "exception classes are not compared"],
        "exhaustive": True,
    }


def program_source(base, chain, pos, future):
    """module source defining B (base), W<k> (wrappers), ROOT (wrapped at position) and PLAIN (unwrapped at position)."""
    lines = []
    if future:
        lines.append("from __future__ import annotations")
    lines.append(T.HEADER)
    lines.append(f"B = {base.src}")
    prev = "B"
    for k, w in enumerate(chain):
        name = f"W{k}"
        if w == "newtype":
            lines.append(f'{name} = typing.NewType("{name}", {prev})')
        elif w == "alias":
            lines.append(f'{name} = typing.TypeAliasType("{name}", {prev})')
        elif w == "stralias":
            lines.append(f'{name} = typing.TypeAliasType("{name}", "{prev}")')
        elif w == "final":
            lines.append(f"{name} = typing.Final[{prev}]")
        elif w == "classvar":
            lines.append(f"{name} = typing.ClassVar[{prev}]")
        elif w == "strref":
            lines.append(f'{name} = "{prev}"')
        elif w == "fwdref":
            lines.append(f'{name} = typing.ForwardRef("{prev}", module=__name__)')
        prev = name
    wexpr, pexpr = prev, "B"
    last = chain[-1]

    def at(e):
        return {
            "root": e,
            "list": f"list[{e}]",
            "dictval": f"dict[str, {e}]",
            "tuple": f"tuple[{e}, int]",
            "union": f"typing.Union[{e}, None]",
        }[pos]

    if pos == "field":
        # annotations are written as expressions; under `from __future__ import annotations` they are strings referring to the names above
        if last in ("strref", "fwdref"):
            wann = f'"{chain_prev_name(chain)}"' if last == "strref" else f'typing.ForwardRef("{chain_prev_name(chain)}", module=__name__)'
        elif last == "final":
            wann = f"typing.Final[{chain_prev_name(chain)}]"
        else:
            wann = wexpr
        lines.append(f"@dataclasses.dataclass\nclass HolderW:\n    f: {wann}\n    n: int = 0\n")
        lines.append("@dataclasses.dataclass\nclass HolderP:\n    f: B\n    n: int = 0\n")
        lines.append("ROOT = HolderW\nPLAIN = HolderP")
    else:
        if last == "strref" and pos != "root":
            e = f'"{chain_prev_name(chain)}"'
        elif last == "fwdref" and pos != "root":
            e = f'typing.ForwardRef("{chain_prev_name(chain)}", module=__name__)'
        else:
            e = wexpr
        lines.append(f"ROOT = {at(e)}")
        lines.append(f"PLAIN = {at(pexpr)}")
    return "\n".join(lines) + "\n"


def chain_prev_name(chain):
    return "B" if len(chain) == 1 else f"W{len(chain) - 2}"


def plain_term(base, pos):
    L = T.LEAVES
    if pos in ("root", "field"):
        return base
    if pos == "list":
        return T.Seq("list", base)
    if pos == "dictval":
        return T.Map("dict", L["str"], base)
    if pos == "tuple":
        return T.FTuple("tuple", [base, L["int"]])
    if pos == "union":
        return T.Optional(base, "typing.Union")
    raise KeyError(pos)


_n = [0]
REJECTED = None


def rejected(ns):
    # one-shot iterators and bare object()s print with their address: two runs can never be compared
    pool = [p for p in inputs.x0(ns) if not p[0].startswith(("cont:gen", "cont:iter")) and p[0] != "obj:object"]
    return pool[::3][:40]


def equiv(name, fw, fp, x_factory, res, case, sigbase, proj=None):
    xw, xp = x_factory(), x_factory()
    ow, op = call(fw, xw), call(fp, xp)
    res.evals += 2
    a, b = ow.val, op.val
    if proj and ow.ok and op.ok:
        a, b = proj(a), proj(b)
    res.outcomes.add(h64(sigbase, name, case.get("label", ""), "ok" if op.ok else "raises"))
    if op.ok:
        res.nontrivial.add(h64(sigbase, name, case.get("label", "")))
    if ow.ok != op.ok:
        mode = f"wrapped-raises:{ow.excname}" if op.ok else "wrapped-accepts-what-plain-rejects"
        res.violation(f"{sigbase}/{name}/{mode}", f"{name}: wrapped -> {short(ow.val if ow.ok else ow.exc, 100)}; unwrapped -> {short(op.val if op.ok else op.exc, 100)}; input {short(x_factory(), 80)}; {case['desc']}", case)
        return False
    if ow.ok and not same(a, b):
        res.violation(f"{sigbase}/{name}/differs", f"{name}: wrapped -> {short(a, 100)}; unwrapped -> {short(b, 100)}; input {short(x_factory(), 80)}; {case['desc']}", case)
        return False
    return True


def run_program(bi, base, chain, pos, future, tier, res, only_origin=None):
    src = program_source(base, chain, pos, future)
    cold.clear_all()
    _n[0] += 1
    modname = f"tlg_c11_{_n[0]}"
    desc = f"base={base.src} chain={'>'.join(chain)} pos={pos} style={'future' if future else 'eager'}"
    case = {"kind": "b", "bi": bi, "chain": list(chain), "pos": pos, "future": future, "desc": desc, "module": src}
    lo = call(prelude.mkmod, modname, src)
    if not lo.ok:
        prelude.dropmod(modname)
        res.skipped += 1
        res.hit("python-rejects-the-program:" + lo.excname)
        return
    ns = lo.val.__dict__
    res.programs += 1
    sigbase = f"C11/{pos}/{'>'.join(chain)}"
    try:
        root, plain = ns["ROOT"], ns["PLAIN"]
        last = chain[-1]
        origins = [("direct", lambda f, r=root: f(r))]
        if pos == "root" and last == "strref":
            nm = chain_prev_name(chain)
            origins = [
                ("call1", lambda f, nm=nm: ns["call1"](f, nm)),
                ("call2", lambda f, nm=nm: ns["call2"](f, nm)),
                ("call3", lambda f, nm=nm: ns["call3"](f, nm)),
                ("qualified", lambda f, nm=nm: f(f"{modname}.{nm}")),
            ]
        pterm = plain_term(base, pos)
        proj = (lambda o: o.f) if pos == "field" else None
        for oname, get in origins:
            if only_origin is not None and oname != only_origin:
                continue
            cold.clear_all()
            c2 = dict(case, origin=oname)
            bw = [timed(E.BUILD_LIMIT, get, f) for f in (typelib.unmarshaller, typelib.marshaller, typelib.codec)]
            bp = [timed(E.BUILD_LIMIT, f, plain) for f in (typelib.unmarshaller, typelib.marshaller, typelib.codec)]
            res.evals += 6
            if not all(b.ok for b in bp):
                res.skipped += 1
                res.hit("plain-program-cannot-be-built")
                continue
            bad = next((b for b in bw if not b.ok), None)
            if bad is not None:
                inner = "inner=none" if len(chain) == 1 else "inner=wrapped"
                res.violation(f"C11/{pos}/outer={chain[-1]},{inner}/build/{oname}/{'no-termination' if bad.timeout else bad.excname}", f"the wrapped program cannot be built ({bad!r}) but the unwrapped one can; {desc}", c2)
                continue
            uw, mw, cw = (b.val for b in bw)
            up, mp, cp = (b.val for b in bp)
            # inputs: wire renderings of the position's values + rejected pool
            vals = pterm.values(ns)[:12]
            if pos == "field":
                xs = []
                for vi, v in enumerate(vals):
                    w = call(pterm.wire, ns, v)
                    if w.ok:
                        xs.append((f"wire{vi}", (lambda w=w.val: {"f": w, "n": "3"})))
                        if inputs.jsonable(w.val):
                            import json

                            xs.append((f"json{vi}", (lambda w=w.val: json.dumps({"f": w, "n": 3}))))
                for lab, f in rejected(ns):
                    xs.append((lab, (lambda f=f: {"f": f()})))
            else:
                xs = []
                for vi, v in enumerate(vals):
                    w = call(pterm.wire, ns, v)
                    if w.ok:
                        for rn, rv in inputs.renderings(w.val):
                            xs.append((f"wire{vi}:{rn}", (lambda rv=rv: rv)))
                xs += rejected(ns)
            for lab, fx in xs:
                equiv("unmarshal", uw, up, fx, res, dict(c2, label=lab), sigbase + "/" + oname, proj)
                equiv("decode", lambda x: cw.decode(x), lambda x: cp.decode(x), (lambda fx=fx: _as_bytes(fx())), res, dict(c2, label=lab), sigbase + "/" + oname, proj)
            # marshal / encode on valid values (for the field position: holder instances)
            for vi, v in enumerate(vals):
                if pos == "field":
                    mk_w = (lambda v=v: ns["HolderW"](f=v))
                    mk_p = (lambda v=v: ns["HolderP"](f=v))
                    ow, op = call(mw, mk_w()), call(mp, mk_p())
                    ew, ep = call(cw.encode, mk_w()), call(cp.encode, mk_p())
                else:
                    ow, op = call(mw, v), call(mp, v)
                    ew, ep = call(cw.encode, v), call(cp.encode, v)
                res.evals += 4
                for nm, a, b in (("marshal", ow, op), ("encode", ew, ep)):
                    if a.ok != b.ok or (a.ok and not same(a.val, b.val)):
                        res.violation(f"{sigbase}/{oname}/{nm}/{'differs' if a.ok == b.ok else ('wrapped-raises:' + str(a.excname) if b.ok else 'wrapped-accepts')}",
                                      f"{nm}({short(v, 80)}): wrapped -> {short(a.val if a.ok else a.exc, 100)}; unwrapped -> {short(b.val if b.ok else b.exc, 100)}; {desc}", dict(c2, label=f"value{vi}"))
        if len(res.samples) < 2:
            res.samples.append({"desc": desc, "module": src[-400:]})
    finally:
        prelude.dropmod(modname)


def _as_bytes(x):
    import json

    if isinstance(x, (bytes, bytearray, memoryview)):
        return x
    if isinstance(x, str):
        return x.encode("utf-8", "surrogatepass")
    try:
        return json.dumps(x).encode()
    except (TypeError, ValueError):
        return b"\xff<not json>"


SPECIAL = '''
import dataclasses, typing
class NTp(typing.NamedTuple):
    a: int
    b: str = "x"
N1 = typing.NewType("N1", NTp)
@dataclasses.dataclass
class TwoPaths:
    f: N1
    g: typing.Final[N1] = None
@dataclasses.dataclass
class TwoPathsPlain:
    f: NTp
    g: NTp = None
A1 = typing.TypeAliasType("A1", list[int])
@dataclasses.dataclass
class AliasTwice:
    x: A1
    y: list[A1]
    z: dict[str, A1]
@dataclasses.dataclass
class AliasTwicePlain:
    x: list[int]
    y: list[list[int]]
    z: dict[str, list[int]]
def call1(f, *a, **k):
    return f(*a, **k)
'''
OTHER_A = "import dataclasses\n@dataclasses.dataclass\nclass Thing:\n    x: int\ndef call1(f, *a, **k):\n    return f(*a, **k)\n"
OTHER_B = "import dataclasses\n@dataclasses.dataclass\nclass Thing:\n    x: str\ndef call1(f, *a, **k):\n    return f(*a, **k)\n"


def run_special(res):
    cold.clear_all()
    ns = prelude.mkmod("tlg_c11_special", SPECIAL).__dict__
    res.programs += 1
    case = {"kind": "special", "desc": "two paths to one class; alias used at three positions"}
    for W, P, x in ((ns["TwoPaths"], ns["TwoPathsPlain"], {"f": {"a": "1", "b": 2}, "g": {"a": "3", "b": 4}}),
                    (ns["AliasTwice"], ns["AliasTwicePlain"], {"x": ["1"], "y": [["2"]], "z": {"k": ["3"]}})):
        cold.clear_all()
        ow, op = call(typelib.unmarshal, W, x), call(typelib.unmarshal, P, x)
        res.evals += 2
        res.outcomes.add(h64("special", W.__name__, "ok" if ow.ok else ow.excname))
        res.nontrivial.add(h64("special", W.__name__))
        import dataclasses

        fa = [getattr(ow.val, f.name) for f in dataclasses.fields(W)] if ow.ok else None
        fb = [getattr(op.val, f.name) for f in dataclasses.fields(P)] if op.ok else None
        if ow.ok != op.ok or (ow.ok and not same(fa, fb)):
            res.violation(f"C11/special/{W.__name__}/{'wrapped-raises:' + str(ow.excname) if not ow.ok else 'differs'}",
                          f"unmarshal({W.__name__}, {x}) -> {short(ow.val if ow.ok else ow.exc, 120)}; unwrapped twin -> {short(op.val if op.ok else op.exc, 120)}", case)
    # a bare name issued from two different modules (first caller must not win)
    cold.clear_all()
    a = prelude.mkmod("tlg_c11_oa", OTHER_A).__dict__
    b = prelude.mkmod("tlg_c11_ob", OTHER_B).__dict__
    ra = call(a["call1"], typelib.unmarshal, "Thing", {"x": "1"})
    rb = call(b["call1"], typelib.unmarshal, "Thing", {"x": "1"})
    res.evals += 2
    ok = ra.ok and rb.ok and type(ra.val) is a["Thing"] and type(rb.val) is b["Thing"] and ra.val.x == 1 and rb.val.x == "1"
    res.outcomes.add(h64("special", "two-modules", ok))
    if not ok:
        res.violation("C11/special/bare-name-from-two-modules/first-caller-wins",
                      f"unmarshal('Thing', ...) from module A -> {short(ra.val if ra.ok else ra.exc, 80)}, then from module B -> {short(rb.val if rb.ok else rb.exc, 80)} (each module defines its own Thing)",
                      {"kind": "special", "desc": "bare name resolved from two modules in one process"})
    # qualified references from another module: top-level class, class nested in a class, module-level alias
    cold.clear_all()
    q = prelude.mkmod("tlg_c11_q", "import dataclasses\nclass Canvas:\n    @dataclasses.dataclass\n    class Pixel:\n        x: int\n@dataclasses.dataclass\nclass Top:\n    x: int\nAliasTop = Top\n").__dict__
    o = call(typelib.unmarshal, "tlg_c11_q.Top | tlg_c11_q.Canvas.Pixel | None", {"x": "1"})
    res.evals += 1
    if not (o.ok and same(o.val, q["Top"](1))):
        res.violation("C11/special/qualified-reference/union-of-two-qualified-names/" + ("raises:" + o.excname if not o.ok else "differs"),
                      f"unmarshal('tlg_c11_q.Top | tlg_c11_q.Canvas.Pixel | None', ...) -> {short(o.val if o.ok else o.exc, 100)}", {"kind": "special", "desc": "qualified string references"})
    for ref, cls in (("tlg_c11_q.Top", q["Top"]), ("tlg_c11_q.Canvas.Pixel", q["Canvas"].Pixel), ("tlg_c11_q.AliasTop", q["Top"])):
        for fn_name, fn in (("unmarshal", lambda r: typelib.unmarshal(r, {"x": "1"})), ("marshal", lambda r, cls=cls: typelib.marshal(cls(1), t=r))):
            cold.clear_all()
            o = call(fn, ref)
            res.evals += 1
            res.outcomes.add(h64("special", "qualified", ref, fn_name, "ok" if o.ok else o.excname))
            good = o.ok and (same(o.val, cls(1)) if fn_name == "unmarshal" else same(o.val, {"x": 1}))
            if not good:
                kind = "nested-class" if "Canvas" in ref else ("alias" if "Alias" in ref else "top-level-class")
                res.violation(f"C11/special/qualified-reference/{kind}/{fn_name}/{'raises:' + o.excname if not o.ok else 'differs'}",
                              f"{fn_name} via the qualified string {ref!r} from another module -> {short(o.val if o.ok else o.exc, 100)}", {"kind": "special", "desc": "qualified string references"})
    # a string reference issued through a helper of ANOTHER module, naming objects the issuing module binds but does not define:
    # a plain generic alias (dict[str, UID] reports no module of its own) and a NewType imported under another name
    cold.clear_all()
    prelude.mkmod("tlg_c11_defs", "import typing\nUserId = typing.NewType('UserId', int)\n")
    prelude.mkmod("tlg_c11_loader", "import typelib\ndef load(ref, payload):\n    return _load(ref, payload)\ndef _load(ref, payload):\n    return typelib.unmarshal(ref, payload)\n"
                                    "def dump(ref, value):\n    return typelib.marshal(value, t=ref)\ndef build(ref):\n    return typelib.codec(ref)\n")
    user = prelude.mkmod("tlg_c11_user", "import typing\nimport tlg_c11_loader as loader\nfrom tlg_c11_defs import UserId as UID\nScores = dict[str, UID]\nMaybeScores = typing.Optional[Scores]\n"
                                         "def load(ref, payload):\n    return loader.load(ref, payload)\ndef dump(ref, value):\n    return loader.dump(ref, value)\n"
                                         "def roundtrip(ref, value):\n    c = loader.build(ref)\n    return c.decode(c.encode(value))\n").__dict__
    for label, fn, want in (
        ("load('Scores')", lambda: user["load"]("Scores", {"a": "1", "b": 2.0}), {"a": 1, "b": 2}),
        ("load('MaybeScores')", lambda: user["load"]("MaybeScores", {"a": "1"}), {"a": 1}),
        ("load('UID')", lambda: user["load"]("UID", "7"), 7),
        ("dump('Scores')", lambda: user["dump"]("Scores", {"a": 1}), {"a": 1}),
        ("codec('Scores')", lambda: user["roundtrip"]("Scores", {"a": 1}), {"a": 1}),
    ):
        cold.clear_all()
        o = call(fn)
        res.evals += 1
        res.outcomes.add(h64("special", "via-helper", label, "ok" if o.ok else o.excname))
        if not (o.ok and same(o.val, want)):
            res.violation(f"C11/special/reference-via-helper-module/{label.split('(')[0]}/{'raises:' + o.excname if not o.ok else 'differs'}",
                          f"{label} issued by a module that binds the name (to a plain alias / an import under another name) through a helper of another module -> {short(o.val if o.ok else o.exc, 100)}; expected {want!r}",
                          {"kind": "special", "desc": "string reference through a helper module"})
    # a qualifier reached through a TEXTUAL carrier: a string reference to a name bound to ClassVar[...] / Final[...], a string alias spelling one
    cold.clear_all()
    qm = prelude.mkmod("tlg_c11_qualtext", "import typing\nUserId = typing.NewType('UserId', int)\nCounter = typing.ClassVar[UserId]\nFrozen = typing.Final[UserId]\n"
                                           "CA = typing.TypeAliasType('CA', 'typing.ClassVar[int]')\nFA = typing.TypeAliasType('FA', 'typing.Final[int]')\n"
                                           "def call1(f, *a, **k):\n    return f(*a, **k)\n").__dict__
    for label, fn in (
        ("strref->ClassVar", lambda: qm["call1"](typelib.unmarshal, "Counter", "5")), ("strref->Final", lambda: qm["call1"](typelib.unmarshal, "Frozen", "5")),
        ("stralias->ClassVar", lambda: typelib.unmarshal(qm["CA"], "5")), ("stralias->Final", lambda: typelib.unmarshal(qm["FA"], "5")),
        ("marshal:strref->ClassVar", lambda: qm["call1"](typelib.marshal, 5, t="Counter")),
        ("codec:strref->ClassVar", lambda: qm["call1"](lambda: typelib.codec("Counter").decode(b"5"))),
    ):
        cold.clear_all()
        o = call(fn)
        res.evals += 1
        res.outcomes.add(h64("special", "qualifier-text", label, "ok" if o.ok else o.excname))
        if not (o.ok and same(o.val, 5)):
            res.violation(f"C11/special/qualifier-through-text/{label}/{'raises:' + o.excname if not o.ok else 'differs'}",
                          f"{label}: -> {short(o.val if o.ok else o.exc, 100)}; the unwrapped twin (int) gives 5", {"kind": "special", "desc": "ClassVar / Final behind a string reference or a string alias"})
    # a string-valued alias whose text is a COMPOSITE holding a dotted name; a calling module whose own name starts with the library's
    cold.clear_all()
    import decimal as _dec

    dm = prelude.mkmod("tlg_c11_dotted", "import typing, decimal\nPrices = typing.TypeAliasType('Prices', 'dict[str, decimal.Decimal]')\nNPrices = typing.NewType('NPrices', Prices)\n").__dict__
    tm = prelude.mkmod("typelib_models_tlg", "import typing\nUserIds = list[int]\nfrom decimal import Decimal as Money\ndef call1(f, *a, **k):\n    return f(*a, **k)\n").__dict__
    for label, fn, want in (
        ("stralias:dotted-composite", lambda: typelib.unmarshal(dm["Prices"], {"a": "1.5"}), {"a": _dec.Decimal("1.5")}),
        ("newtype>stralias:dotted-composite", lambda: typelib.unmarshal(dm["NPrices"], {"a": "1.5"}), {"a": _dec.Decimal("1.5")}),
        ("marshal:stralias:dotted-composite", lambda: typelib.marshal({"a": _dec.Decimal("1.5")}, t=dm["Prices"]), {"a": "1.5"}),
        ("strref-from-module-named-like-the-library:plain-alias", lambda: tm["call1"](typelib.unmarshal, "UserIds", ["1", "2"]), [1, 2]),
        ("strref-from-module-named-like-the-library:renamed-import", lambda: tm["call1"](typelib.unmarshal, "Money", "1.5"), _dec.Decimal("1.5")),
    ):
        cold.clear_all()
        o = call(fn)
        res.evals += 1
        res.outcomes.add(h64("special", "dotted", label, "ok" if o.ok else o.excname))
        if not (o.ok and same(o.val, want)):
            res.violation(f"C11/special/{label}/{'raises:' + o.excname if not o.ok else 'differs'}",
                          f"{label}: -> {short(o.val if o.ok else o.exc, 100)}; the unwrapped twin gives {want!r}", {"kind": "special", "desc": "dotted composite alias text / library-like module name"})
    prelude.dropmod("typelib_models_tlg")
    # Final[T] on a field of a PLAIN annotated class that also has a class-level default: the field is a field, both directions
    cold.clear_all()
    fm = prelude.mkmod("tlg_c11_finalplain", "import typing, decimal\nclass W:\n    a: typing.Final[decimal.Decimal] = decimal.Decimal(0)\n    b: str = 'x'\n    def __init__(self, a=decimal.Decimal(0), b='x'):\n        self.a, self.b = a, b\n"
                                             "class P:\n    a: decimal.Decimal = decimal.Decimal(0)\n    b: str = 'x'\n    def __init__(self, a=decimal.Decimal(0), b='x'):\n        self.a, self.b = a, b\n").__dict__
    import decimal

    for fn_name in ("marshal", "encode"):
        ow = call(getattr(typelib, fn_name), fm["W"](decimal.Decimal("1.5"), "y"), t=fm["W"])
        op = call(getattr(typelib, fn_name), fm["P"](decimal.Decimal("1.5"), "y"), t=fm["P"])
        res.evals += 2
        res.outcomes.add(h64("special", "final-plain", fn_name, "ok" if ow.ok else ow.excname))
        if ow.ok != op.ok or (ow.ok and not same(ow.val, op.val)):
            res.violation(f"C11/special/final-field-of-plain-class-with-default/{fn_name}/{'wrapped-raises:' + str(ow.excname) if not ow.ok else 'differs'}",
                          f"{fn_name}(W(Decimal('1.5'), 'y')) with `a: Final[Decimal] = Decimal(0)` -> {short(ow.val if ow.ok else ow.exc, 100)}; twin with `a: Decimal = Decimal(0)` -> {short(op.val if op.ok else op.exc, 100)}",
                          {"kind": "special", "desc": "Final on a plain-class field with a class-level default"})
    ow = call(typelib.unmarshal, fm["W"], {"a": "1.5", "b": "y"})
    op = call(typelib.unmarshal, fm["P"], {"a": "1.5", "b": "y"})
    res.evals += 2
    if ow.ok != op.ok or (ow.ok and not same((ow.val.a, ow.val.b), (op.val.a, op.val.b))):
        res.violation(f"C11/special/final-field-of-plain-class-with-default/unmarshal/{'wrapped-raises:' + str(ow.excname) if not ow.ok else 'differs'}",
                      f"unmarshal(W, ...) -> {short(vars(ow.val) if ow.ok else ow.exc, 100)}; twin -> {short(vars(op.val) if op.ok else op.exc, 100)}", {"kind": "special", "desc": "Final on a plain-class field with a class-level default"})
    # (w10) a class PRODUCED by a factory of another module (its __module__ is the factory's module, which does not bind it), named by a string
    # from the module that does bind it; names of the caller that library modules bind too (T, Codec); string aliases whose text starts with "Literal"
    cold.clear_all()
    prelude.mkmod("tlg_c11_kit", "import dataclasses\ndef model(name, **fields):\n    return dataclasses.make_dataclass(name, list(fields.items()))\n")
    km = prelude.mkmod("tlg_c11_kituser", "import dataclasses, typing, tlg_c11_kit\nfrom typing import Literal\nPoint = tlg_c11_kit.model('Point', x=int, y=int)\nPointId = typing.NewType('PointId', Point)\n"
                                          "@dataclasses.dataclass\nclass Codec:\n    name: str\n    bitrate: int\nT = typing.NewType('T', int)\nSamples = typing.TypeAliasType('Samples', 'list[T]')\n"
                                          "@dataclasses.dataclass\nclass LiteralExpr:\n    value: int\nMode = typing.TypeAliasType('Mode', \"Literal['r', 'w']\")\nExpr = typing.TypeAliasType('Expr', 'LiteralExpr | None')\n"
                                          "@dataclasses.dataclass\nclass Open:\n    path: str\n    mode: Mode = 'r'\n    expr: Expr = None\n"
                                          "def call1(f, *a, **k):\n    return f(*a, **k)\n").__dict__
    c1 = km["call1"]
    Point, KCodec, LE, Open = km["Point"], km["Codec"], km["LiteralExpr"], km["Open"]
    raw = b'{"name": "opus", "bitrate": "96"}'
    rows = (
        ("factory-made-class:unmarshal", lambda: c1(typelib.unmarshal, "Point", {"x": "1", "y": "2"}), Point(1, 2)),
        ("factory-made-class:newtype", lambda: c1(typelib.unmarshal, "PointId", {"x": "1", "y": "2"}), Point(1, 2)),
        ("factory-made-class:marshal", lambda: c1(typelib.marshal, Point(1, 2), t="Point"), {"x": 1, "y": 2}),
        ("factory-made-class:codec", lambda: c1(lambda: typelib.codec("Point").decode(b'{"x": 1, "y": "2"}')), Point(1, 2)),
        ("name-also-bound-in-library:T:unmarshal", lambda: c1(typelib.unmarshal, "T", "5"), 5),
        ("name-also-bound-in-library:T:alias-text", lambda: c1(typelib.unmarshal, "Samples", ["1", "2"]), [1, 2]),
        ("name-also-bound-in-library:T:marshal", lambda: c1(typelib.marshal, "7", t="T"), 7),
        ("name-also-bound-in-library:Codec:decode", lambda: c1(typelib.decode, "Codec", raw), KCodec("opus", 96)),
        ("name-also-bound-in-library:Codec:codec", lambda: c1(lambda: typelib.codec("Codec").decode(raw)), KCodec("opus", 96)),
        ("name-also-bound-in-library:Codec:encode", lambda: c1(typelib.encode, KCodec("opus", 96), t="Codec"), typelib.encode(KCodec("opus", 96), t=KCodec)),
        ("alias-text-starting-with-Literal:root", lambda: typelib.unmarshal(km["Mode"], "w"), "w"),
        ("alias-text-starting-with-Literal:list", lambda: typelib.unmarshal(list[km["Mode"]], ["r", b"w"]), ["r", "w"]),
        ("alias-text-starting-with-Literal:field", lambda: typelib.unmarshal(Open, {"path": 1, "mode": "w", "expr": {"value": "3"}}), Open("1", "w", LE(3))),
        ("alias-text-starting-with-Literal:class-name", lambda: typelib.unmarshal(km["Expr"], {"value": "3"}), LE(3)),
        ("alias-text-starting-with-Literal:class-name-none", lambda: typelib.unmarshal(km["Expr"], None), None),
        ("alias-text-starting-with-Literal:marshal", lambda: typelib.marshal(Open("p", "w", LE(3))), {"path": "p", "mode": "w", "expr": {"value": 3}}),
    )
    for label, fn, want in rows:
        cold.clear_all()
        o = call(fn)
        res.evals += 1
        res.outcomes.add(h64("special", "w10", label, "ok" if o.ok else o.excname))
        if not (o.ok and same(o.val, want)):
            res.violation(f"C11/special/{label}/{'raises:' + o.excname if not o.ok else 'differs'}",
                          f"{label}: -> {short(o.val if o.ok else o.exc, 100)}; the unwrapped twin gives {want!r}", {"kind": "special", "desc": "factory-made class / names shared with library modules / Literal-prefixed alias text"})
    cold.clear_all()
    om = call(typelib.unmarshal, km["Mode"], "x")
    res.evals += 1
    if om.ok or not isinstance(om.exc, ValueError):
        res.violation("C11/special/alias-text-starting-with-Literal:nonmember/" + ("accepted" if om.ok else "raises:" + om.excname),
                      f"unmarshal(Mode, 'x') -> {short(om.val if om.ok else om.exc, 100)}; Literal['r', 'w'] itself rejects with ValueError", {"kind": "special", "desc": "Literal-prefixed alias text"})
    res.samples.append({"special": "TwoPaths (NewType and Final[NewType]), AliasTwice, bare name from two modules, qualified references (top-level / nested / alias)"})


def run_unit(unit, tier, res):
    prelude.prelude()
    if unit[0] == "special":
        run_special(res)
        return
    _, a, b = unit
    for bi in range(a, b):
        base = bases(tier)[bi]
        for chain in chains(tier):
            for pos in POSITIONS:
                if not legal(chain, pos):
                    continue
                for future in (False, True):
                    if future and pos != "field" and chain[-1] not in ("stralias", "strref", "fwdref"):
                        continue  # without class-level annotations the module style changes nothing
                    run_program(bi, base, chain, pos, future, tier, res)


def replay(case, tier, res):
    prelude.prelude()
    if case["kind"] == "special":
        run_special(res)
        return
    run_program(case["bi"], bases(tier)[case["bi"]], tuple(case["chain"]), case["pos"], case["future"], tier, res, only_origin=case.get("origin"))
