"""C06 - marshalled output is plain JSON-compatible data, freshly built, deterministic; Literal non-members rejected."""
from __future__ import annotations

import collections
import json

from ..kernel.canon import canon, chash, short
from ..kernel.guard import call
from ..kernel.runner import h64
from ..refmodel.same import same
from . import _eval as E

ID = "C06"
SETS = {
    "quick": ["U1L_all", "U1K3", "R2K", "P:P0q", "P:P1q", "P:P3q", "P:P4q", "P:P6q", "P:P7q"],
    "thorough": ["U1L_all", "U1K3", "U2K", "S3K4", "P:P0", "P:P1", "P:P3", "P:P4", "P:P6", "P:P7"],
}
WR = {"quick": (2, 2), "thorough": (2, 3)}
STEP = 40
PLAIN = (type(None), bool, int, float, str, list, dict)
PRIM = (type(None), bool, int, float, str)


def units(tier):
    return E.ranges(SETS[tier], STEP) + [("bare-containers", 0, 1)]


def run_bare(res):
    """unsubscripted (and partly subscripted) container targets: list, dict, tuple, set, dict[str, list], a dataclass with a bare `list` field"""
    import dataclasses
    import typing

    import typelib

    from ..kernel import cold

    @dataclasses.dataclass
    class Bag:
        items: list
        index: dict = dataclasses.field(default_factory=dict)

    # (name, type, value, typed depth): members of an unsubscripted container are untyped (Any) and pass through by identity (C15);
    # the containers down to the typed depth are built by the routine and must be fresh
    cases = [
        ("list", list, lambda: [1, [2], {"k": [3]}], 1), ("list-empty", list, lambda: [], 1), ("dict", dict, lambda: {"a": [1], "b": {"c": [2]}}, 1),
        ("dict[str,list]", dict[str, list], lambda: {"k": [1, [2]]}, 2), ("list[list]", list[list], lambda: [[1], [2, [3]]], 2), ("list[dict]", list[dict], lambda: [{"a": [1]}], 2),
        ("tuple", tuple, lambda: ([1], {"a": [2]}), 1), ("set", set, lambda: {1, 2}, 1), ("Bag", Bag, lambda: Bag([1, [2]], {"k": [3]}), 2),
        ("typing.List", typing.List, lambda: [1, [2]], 1), ("typing.Dict", typing.Dict, lambda: {"a": [1]}, 1), ("Optional[list]", typing.Optional[list], lambda: [[1]], 1),
        ("Sequence", collections.abc.Sequence, lambda: [1, [2]], 1), ("Mapping", collections.abc.Mapping, lambda: {"a": [1]}, 1),
    ]

    def upto(x, d, acc=None):
        acc = {} if acc is None else acc
        if d <= 0:
            return acc
        if isinstance(x, (list, dict, set)):
            acc[id(x)] = x
        kids = list(x.values()) if isinstance(x, dict) else list(x) if isinstance(x, (list, tuple, set)) else [getattr(x, f.name) for f in dataclasses.fields(x)] if dataclasses.is_dataclass(x) else []
        for k in kids:
            upto(k, d - 1, acc)
        return acc

    for name, T_, mk, depth in cases:
        cold.clear_all()
        res.programs += 1
        v = mk()
        before = chash(v)
        o1 = call(typelib.marshal, v, t=T_)
        o2 = call(typelib.marshal, v, t=T_)
        res.evals += 2
        res.outcomes.add(h64("bare", name, "ok" if o1.ok else o1.excname))
        viol = None
        if not o1.ok:
            viol = ("no-output", f"raises {o1.exc!r}")
        else:
            res.nontrivial.add(h64("bare", name))
            b = bad_node(o1.val)
            if b:
                viol = ("closure", f"non-plain node at {b[0]}: {b[1]}")
            elif not call(json.dumps, o1.val).ok:
                viol = ("json", "json.dumps rejects the output")
            elif not o2.ok or not same(o2.val, o1.val):
                viol = ("determinism", f"second call gives {short(o2.val if o2.ok else o2.exc, 80)}")
            elif set(upto(o1.val, depth)) & set(containers(v)):
                viol = ("fresh-vs-input", "a container the routine builds is a container of the input value")
            elif set(upto(o1.val, depth)) & set(upto(o2.val, depth)):
                viol = ("fresh-vs-second-call", "two calls share a container the routine builds")
            elif chash(v) != before:
                viol = ("input-mutated", "the input value was modified")
        if viol:
            res.violation(f"C06/{viol[0]}/bare-container:{name}", f"marshal({short(v, 80)}, t={name}): {viol[1]}; output {short(o1.val if o1.ok else o1.exc, 100)}", {"set": "bare-containers"})


def meta(tier):
    return {
        "rule": "every term (no bytes-like members) of the named sets x every value of V(T; w, r) plus subclass-instance variants "
        "(IntEnum/bool/int-subclass for int, str subclass, float subclass, pendulum temporals, OrderedDict/defaultdict for dict, "
        "deque/tuple for abstract sequences); clauses: closure (exact builtin classes, primitive keys), json.dumps accepts, "
        "determinism, freshness (no shared mutable container with v or with a second call), v unchanged, Literal non-members raise ValueError; "
        "non-trivial = marshal returned; distinct by canonical (T, v, outcome)",
        "bounds": {"term_sets": SETS[tier], "w_r": WR[tier]},
        "assumptions": ["cold state per program"],
        "exhaustive": True,
    }


def bad_node(x, path="$"):
    """First node violating closure, as (path, description) - or None."""
    t = type(x)
    if t not in PLAIN:
        return path, f"{t.__module__}.{t.__qualname__}"
    if t is list:
        for i, e in enumerate(x):
            b = bad_node(e, f"{path}[{i}]")
            if b:
                return b
    elif t is dict:
        for k, e in x.items():
            if type(k) not in PRIM:
                return f"{path}.<key>", f"key {type(k).__module__}.{type(k).__qualname__}"
            b = bad_node(e, f"{path}[{k!r}]")
            if b:
                return b
    return None


def containers(x, acc=None, depth=0):
    """ids of mutable containers reachable from x (through containers and instance attributes)."""
    if acc is None:
        acc = {}
    if depth > 50:
        return acc
    if isinstance(x, (list, dict, set, collections.deque, bytearray)):
        if id(x) in acc:
            return acc
        acc[id(x)] = x
    if isinstance(x, dict):
        for k, v in x.items():
            containers(k, acc, depth + 1)
            containers(v, acc, depth + 1)
    elif isinstance(x, (list, tuple, set, frozenset, collections.deque)):
        for v in x:
            containers(v, acc, depth + 1)
    elif hasattr(x, "__dict__") and not isinstance(x, type):
        for v in vars(x).values():
            containers(v, acc, depth + 1)
    elif hasattr(type(x), "__slots__") and not isinstance(x, (str, bytes, int, float)):
        for s in getattr(type(x), "__slots__", ()):
            if isinstance(s, str) and hasattr(x, s):
                containers(getattr(x, s), acc, depth + 1)
    return acc


def subclass_variants(term, ns, v):
    """Valid subclass-instance variants of a value of a *leaf* term (DESIGN C06 space)."""
    name = getattr(term, "name", None)
    out = []
    if name == "int" and type(v) is int:
        out.append(ns["IntSub"](v))
        if v in (1, 2):
            out.append(ns["EIntEnum"](v))
        if v in (0, 1):
            out.append(bool(v))
    elif name == "str" and type(v) is str:
        out.append(ns["StrSub"](v))
    elif name == "float" and type(v) is float:
        out.append(ns["FloatSub"](v))
    elif name == "datetime":
        import pendulum

        out.append(pendulum.instance(v))
    elif name == "timedelta" and abs(v.days) < 10**6:
        import pendulum

        out.append(pendulum.duration(days=v.days, seconds=v.seconds, microseconds=v.microseconds))
    elif name == "date":
        import pendulum

        out.append(pendulum.Date(v.year, v.month, v.day))
    return out


def container_variants(term, ns, v):
    if term.kind == "dict" and type(v) is dict:
        yield collections.OrderedDict(v)
        d = collections.defaultdict(list)
        d.update(v)
        yield d
        # a subclass instance in KEY position
        if len(v) == 1:
            (k, x), = v.items()
            for sk in subclass_variants(term.args[0], ns, k):
                try:
                    yield {sk: x}
                except TypeError:
                    pass
    if term.kind == "list" and term.abc is not list and type(v) is list:
        yield tuple(v)
        yield collections.deque(v)


def nonmembers(lit):
    """values of the same leaf kinds that are not members; membership is typed (typing distinguishes Literal[1] from
    Literal[True]): 1, 1.0 and True are three different candidates"""
    cands = [3, 0, 1, 2, "z", "", "2", "a", 2.5, 1.0, 0.0, False, True, None, [1], {"a": 1}, {1}, bytearray(b"a")]
    return [c for c in cands if not any(type(c) is type(m) and c == m for m in lit.members)]


def judge(prog, term, v, res, case, label="v"):
    ns = prog.ns
    m = prog.marshaller().val
    before = chash(v)
    o1 = call(m, v)
    res.evals += 1
    key = h64(term.src, label, before, "ok" if o1.ok else o1.excname)
    res.outcomes.add(key)
    if not o1.ok:
        if label == "v":  # a valid value of exactly the annotated classes must marshal (also C01); subclass variants may be refused
            def fails(t, x):
                _, mt, _ = E.routines_for(t, ns)
                if not mt.ok:
                    return "build"
                return None if call(mt.val, x).ok else "raises"

            tmin, vmin, _ = E.localize(ns, term, v, fails) or (term, v, None)
            res.violation(f"C06/no-output/{tmin.sig()}/raises:{o1.excname}/{E.feature(vmin)}",
                          f"marshal({short(vmin, 80)}, t={tmin.src}) raises {o1.exc!r} for a valid value: there is no JSON-only output at all (found in {term.src})", case)
        return
    res.nontrivial.add(key)
    out = o1.val
    viol = None
    b = bad_node(out)
    if b:
        viol = ("closure", f"non-plain node at {b[0]}: {b[1]}")
    if viol is None:
        j = call(json.dumps, out)
        if not j.ok:
            viol = ("json", f"json.dumps rejects the output: {j.excname}")
    if viol is None:
        o2 = call(m, v)
        res.evals += 1
        if not o2.ok or not same(o2.val, out):
            viol = ("determinism", f"second call gives {short(o2.val if o2.ok else o2.exc, 80)}")
        else:
            c1, c2, cv = containers(out), containers(o2.val), containers(v)
            if set(c1) & set(cv):
                viol = ("fresh-vs-input", "output shares a mutable container with the input value")
            elif set(c1) & set(c2):
                viol = ("fresh-vs-second-call", "two calls share a mutable container")
    if viol is None and chash(v) != before:
        viol = ("input-mutated", "the input value was modified")
    if viol is None and label == "v" and term.depth == 0 and getattr(term, "name", "") in ("datetime", "time"):
        # "is the same on every call": also right after an equal instant with another UTC offset was marshalled
        import datetime as _dt

        for off in (0, 60, -330):
            tzz = _dt.timezone(_dt.timedelta(minutes=off))
            try:
                twin = v.astimezone(tzz) if isinstance(v, _dt.datetime) else _dt.datetime.combine(_dt.date(2020, 1, 15), v).astimezone(tzz).timetz()
            except (OverflowError, ValueError):
                continue
            if twin != v or twin.utcoffset() == v.utcoffset():
                continue
            from ..kernel import cold as _cold

            _cold.clear_all()  # the twin must be the first of the two to be formatted
            call(m, twin)
            o3 = call(m, v)
            res.evals += 2
            if not o3.ok or not same(o3.val, out):
                viol = ("determinism-after-equal-twin", f"after marshalling the equal value {twin!r} the same call gives {short(o3.val if o3.ok else o3.exc, 60)}")
                break
    if viol is None:
        return
    clause, why = viol

    def fails(t, x):
        _, mt, _ = E.routines_for(t, ns)
        if not mt.ok:
            return None
        q = call(mt.val, x)
        if not q.ok:
            return None
        if clause == "closure":
            return "closure" if bad_node(q.val) else None
        if clause == "json":
            return None if call(json.dumps, q.val).ok else "json"
        if clause == "fresh-vs-input":
            return "alias" if set(containers(q.val)) & set(containers(x)) else None
        return None

    loc = E.localize(ns, term, v, fails) if label == "v" else None
    tmin, vmin = (loc[0], loc[1]) if loc else (term, v)
    bn = bad_node(out)
    detail = bn[1] if (clause == "closure" and bn) else clause
    res.violation(
        f"C06/{clause}/{tmin.sig()}/{detail}" + ("" if label == "v" else f"/{label}"),
        f"marshal({short(vmin, 80)}, t={tmin.src}): {why}; output {short(out, 100)} (found in {term.src})",
        case,
    )


def run_term(setname, i, term, tier, res, only_vi=None):
    if term.has_bytes:
        res.skipped += 1
        return
    w, r = WR[tier]
    prog = E.Prog(term)
    try:
        res.programs += 1
        bm = prog.marshaller()
        if not bm.ok:
            E.report_build_failure(ID, prog, bm, res, setname, i, "marshaller")
            return
        ns = prog.ns
        vals = E.values_capped(term, ns, w, r, res)
        for vi, v in enumerate(vals):
            if only_vi is not None and vi != only_vi:
                continue
            case = {"set": setname, "i": i, "vi": vi, "T": term.src, "value": short(v, 200)}
            judge(prog, term, v, res, case)
            if term.depth == 0:
                for k, sv in enumerate(subclass_variants(term, ns, v)):
                    judge(prog, term, sv, res, case, label=f"subclass:{type(sv).__name__}")
            elif term.depth <= 1:
                for cv in container_variants(term, ns, v):
                    judge(prog, term, cv, res, case, label=f"container:{type(cv).__name__}")
                # subclass instances at member positions of depth-1 containers
                if term.kind in ("list", "vtuple") and len(v) == 1:
                    a = term.args[0]
                    for sv in subclass_variants(a, ns, next(iter(v))):
                        judge(prog, term, type(v)([sv]), res, case, label=f"member-subclass:{type(sv).__name__}")
        # second pass ("is the same on every call"): after every other value of this program went through the routine
        if only_vi is None and (term.has_union or term.has_opt) and term.depth <= 1:
            import typelib

            from ..kernel import cold as _cold

            warm = {}
            for vi, v in enumerate(vals):  # the routine has by now seen every value of the program
                o = call(bm.val, v)
                if o.ok:
                    warm[vi] = o.val
            for vi in sorted(warm):
                _cold.clear_all()
                fresh = call(typelib.marshaller, prog.ann)
                o = call(fresh.val, vals[vi]) if fresh.ok else fresh
                res.evals += 1
                if not o.ok or not same(o.val, warm[vi]):
                    res.violation(f"C06/determinism-across-calls/{E.shallow_kind(term)}",
                                  f"marshal({short(vals[vi], 60)}, t={term.src}) gives {short(o.val if o.ok else o.exc, 60)} from a freshly built routine but "
                                  f"{short(warm[vi], 60)} from the routine that has marshalled the program's other values",
                                  {"set": setname, "i": i, "vi": None, "T": term.src})
                    break
        # Literal positions: non-members must raise ValueError
        if term.kind == "literal":
            for nm in nonmembers(term):
                o = call(bm.val, nm)
                res.evals += 1
                res.outcomes.add(h64(term.src, "nonmember", repr(nm), "ok" if o.ok else o.excname))
                if o.ok or not isinstance(o.exc, ValueError):
                    res.violation(f"C06/literal-nonmember/{term.sig()}/{'emitted' if o.ok else 'raises:' + o.excname}",
                                  f"marshal({nm!r}, t={term.src}) should raise ValueError, got {o!r}",
                                  {"set": setname, "i": i, "vi": None, "T": term.src})
        elif term.depth == 1 and term.args and term.args[0].kind == "literal" and term.kind in ("list", "optional"):
            lit = term.args[0]
            for nm in nonmembers(lit):
                if nm is None and term.kind == "optional":
                    continue
                x = [nm] if term.kind == "list" else nm
                o = call(bm.val, x)
                res.evals += 1
                if o.ok or not isinstance(o.exc, ValueError):
                    res.violation(f"C06/literal-nonmember/{term.sig()}/{'emitted' if o.ok else 'raises:' + o.excname}",
                                  f"marshal({x!r}, t={term.src}) should raise ValueError, got {o!r}",
                                  {"set": setname, "i": i, "vi": None, "T": term.src})
        if len(res.samples) < 3 and vals:
            res.samples.append({"T": term.src, "v": short(vals[-1], 100), "n_values": len(vals)})
    finally:
        prog.close()


def run_unit(unit, tier, res):
    if unit[0] == "bare-containers":
        run_bare(res)
        return
    s, a, b = unit
    for off, term in enumerate(E.unit_terms(unit)):
        run_term(s, a + off, term, tier, res)


def replay(case, tier, res):
    if case.get("set") == "bare-containers":
        run_bare(res)
        return
    term = E.term_set(case["set"])[case["i"]]
    run_term(case["set"], case["i"], term, tier, res, only_vi=case.get("vi"))
