"""C08 - union members are tried in declared order, None always honoured; ValueError iff every member rejects."""
from __future__ import annotations

import functools
import itertools

import typelib

from ..kernel import cold
from ..kernel.canon import short
from ..kernel.guard import Out, call, timed
from ..kernel.runner import h64
from ..refmodel.same import same
from ..universe import inputs, prelude
from ..universe import terms as T
from . import _eval as E

ID = "C08"
MAXLEN = {"quick": 3, "thorough": 4}
STEP = 30
NW = 4  # wire renderings of the first NW values of every member


@functools.lru_cache(maxsize=None)
def pool():
    lit = T.LiteralLeaf("Lita1", 'Literal["a", 1]', ["a", 1])
    L = T.LEAVES
    return [L["int"], L["str"], L["float"], L["Decimal"], L["date"], L["datetime"], L["UUID"], T.Seq("list", L["int"]),
            T.Map("dict", L["str"], L["int"]), L["DC"], L["EStr"], lit]


@functools.lru_cache(maxsize=None)
def unions(maxlen):
    P = pool()
    out = []
    for n in range(2, maxlen + 1):
        for ms in itertools.permutations(P, n):
            for none_at in [None] + list(range(n + 1)):
                out.append(T.Union("typing.Union", list(ms), none_at=none_at))
                if n == 2:
                    out.append(T.Union("|", list(ms), none_at=none_at))
    # a member that itself admits None (a Literal holding None) in a union that does NOT declare None: both orders with every pool member
    litn = T.LiteralLeaf("LitaN", 'Literal["a", None]', ["a", None])
    for m in P:
        out.append(T.Union("typing.Union", [m, litn]))
        out.append(T.Union("typing.Union", [litn, m]))
    # Optional spellings of single members
    for m in P:
        for sp in ("typing.Optional", "typing.Union", "|", "None|"):
            out.append(T.Optional(m, sp))
    # members related by inheritance (bool is an int; DCwide extends DC with defaults for every field) and a bytes member
    # (the text member before it rejects undecodable bytes with a UnicodeDecodeError): every pair and triple over the small pool holding one of them
    S, X = small_pool()
    for n in (2, 3):
        for ms in itertools.permutations(S + X, n):
            if not any(m in X for m in ms):
                continue
            for none_at in [None] + list(range(n + 1)):
                out.append(T.Union("typing.Union", list(ms), none_at=none_at))
    return out


@functools.lru_cache(maxsize=None)
def small_pool():
    L = T.LEAVES
    wide = T.LEAVES.get("DCwide")
    return [L["int"], L["str"], L["float"], L["DC"]], [L["bool"], T.BYTES_LEAVES["bytes"]] + ([wide] if wide is not None else [])


@functools.lru_cache(maxsize=None)
def pairs():
    """both member orders of one union inside ONE annotation: tuple[Union[A, B], Union[B, A]]"""
    P = pool()
    out = []
    for a, b in itertools.permutations(P, 2):
        out.append(T.FTuple("tuple", [T.Union("typing.Union", [a, b]), T.Union("typing.Union", [b, a])]))
    return out


def units(tier):
    n = len(unions(MAXLEN[tier]))
    out = [("u", a, min(n, a + STEP)) for a in range(0, n, STEP)]
    m = len(pairs())
    out += [("p", a, min(m, a + STEP)) for a in range(0, m, STEP)]
    return out


def meta(tier):
    return {
        "rule": f"every ordered member tuple of length 2..{MAXLEN[tier]} over the 12-type pool (int, str, float, Decimal, date, datetime, UUID, list[int], dict[str,int], DC, EStr, Literal['a',1]), "
        "None absent or at every position, typing.Union (and X|Y for pairs), all Optional spellings of each member, plus both member orders inside one annotation, plus every pair and triple over {int, str, float, DC, bool, bytes} holding bool or bytes (members related by inheritance; rejection by UnicodeDecodeError); "
        "x every input of X0 (one-shot iterators excluded: trying a member consumes them) + wire renderings of the members' values (unmarshal) and every member value + foreign objects (marshal); "
        "oracle = reference union computed from the independently built member routines in declared order (None member first for x is None; any Exception = rejection; all reject -> ValueError); "
        "non-trivial = some member accepts; distinct by (union, input, outcome)",
        "bounds": {"max_members": MAXLEN[tier], "pool": [t.src for t in pool()]},
        "assumptions": ["cold state per program", "time-of-day-only inputs are evaluated by union and reference within the same second (re-execution guards the midnight roll-over)"],
        "exhaustive": True,
    }


def input_pool(ns):
    pl = list(inputs.x0(ns))
    pl.append(("prim:huge-int", lambda: 10**400))
    pl.append(("prim:huge-float-text", lambda: "1e400"))
    for m in pool() + small_pool()[1]:
        for vi, v in enumerate(m.values(ns)[:NW]):
            w = m.wire(ns, v)
            for rn, rv in inputs.renderings(w):
                pl.append((f"wire:{m.sig()}#{vi}:{rn}", (lambda rv: lambda: rv)(rv)))
    return pl


def value_pool(ns):
    pl = []
    for m in pool() + small_pool()[1]:
        for vi in range(min(4, len(m.values(ns)))):
            pl.append((f"val:{m.sig()}#{vi}", (lambda m, vi: lambda: m.values(ns)[vi])(m, vi)))
    pl.append(("val:None", lambda: None))
    pl.append(("val:object", lambda: object()))
    pl.append(("val:Unrelated", lambda: ns["Unrelated"]()))
    pl.append(("val:time", lambda: T.TIMES[0]))
    # values on which a member routine fails with an unusual error class (OverflowError, RecursionError ...)
    pl.append(("val:inf", lambda: float("inf")))
    pl.append(("val:nan", lambda: float("nan")))
    pl.append(("val:huge-int", lambda: 10**400))
    return pl


def _deep(n):
    x = []
    for _ in range(n):
        x = [x]
    return x


def reference(uterm, routines, x, idx):
    """routines: list of (marshaller, unmarshaller) per declared member (None member excluded).
    The same input object is handed to every member (inputs are never one-shot iterators here)."""
    if uterm.none_at is not None and x is None:
        return Out(True, None), "none"
    for j, pair in enumerate(routines):
        o = call(pair[idx], x)
        if o.ok:
            return o, f"member{j}"
    return Out(False, exc=ValueError("every member rejects")), "all-reject"


def one_shot(label):
    return label.startswith(("cont:gen", "cont:iter"))


def in_class(label):
    if label.startswith("wire:"):
        return "wire:" + label.split(":")[1].split("#")[0] + ":" + label.rsplit(":", 1)[1]
    if label.startswith("val:"):
        return "value:" + label[4:].split("#")[0]
    return inputs.input_class(label)


def ushape(u):
    parts = [m.sig() for m in u.members]
    if u.none_at is not None:
        parts.insert(u.none_at, "None")
    return ("|" if u.spelling == "|" else "U") + "[" + ",".join(parts) + "]"


def actual_order(uterm, ns, ann):
    """The member order the annotation object really has (typing may hand back an equal union created earlier
    with another order); None if it cannot be matched to the declared members."""
    import typing

    args = list(typing.get_args(ann))
    members = list(uterm.members)
    anns = [m.ann(ns) for m in members]
    order, none_at = [], None
    for pos, a in enumerate(args):
        if a is type(None):
            none_at = pos
            continue
        hit = [i for i, x in enumerate(anns) if x == a and i not in order]
        if not hit:
            return None
        order.append(hit[0])
    if len(order) != len(members):
        return None
    if order == list(range(len(members))) and none_at == uterm.none_at:
        return uterm
    return T.Union(uterm.spelling if uterm.spelling != "typing.Optional" else "typing.Union", [members[i] for i in order], none_at=none_at)


def judge_union(uterm, ns, res, case, only=None):
    ann = uterm.ann(ns)
    real = actual_order(uterm, ns, ann)
    if real is None:
        res.skipped += 1
        return
    if real is not uterm:
        res.hit("annotation-object-has-another-member-order-than-its-source")
        uterm = real
    bu = timed(E.BUILD_LIMIT, typelib.unmarshaller, ann)
    bm = timed(E.BUILD_LIMIT, typelib.marshaller, ann)
    res.evals += 2
    if not (bu.ok and bm.ok):
        bad = bu if not bu.ok else bm
        res.violation(f"C08/build/{'none@%s' % uterm.none_at if uterm.none_at is not None else 'nonone'}/{bad.excname}", f"cannot build routines for {uterm.src}: {bad!r}", case)
        return
    routines = []
    for m in uterm.members:
        _, mm, mu = E.routines_for(m, ns)
        if not (mm.ok and mu.ok):
            return
        routines.append((mm.val, mu.val))
    nonepos = "nonone" if uterm.none_at is None else ("none-last" if uterm.none_at == len(uterm.members) else "none-first" if uterm.none_at == 0 else "none-middle")
    for direction, idx, routine, pl in (("unmarshal", 1, bu.val, input_pool(ns)), ("marshal", 0, bm.val, value_pool(ns))):
        for lab, f in pl:
            if only is not None and only != [direction, lab]:
                continue
            if one_shot(lab):
                continue  # "the first member that accepts x" is ill-defined when trying a member consumes x
            x = f()
            got = call(routine, x)
            exp, which = reference(uterm, routines, x, idx)
            res.evals += 1
            res.outcomes.add(h64(uterm.src, direction, lab, which, "ok" if got.ok else got.excname))
            if which != "all-reject":
                res.nontrivial.add(h64(uterm.src, direction, lab))
            res.hit(f"{direction}:{which if which in ('none', 'all-reject') else 'member'}")
            mode = None
            if exp.ok:
                if not got.ok:
                    mode = f"raises:{got.excname}-but-{which}-accepts"
                elif not same(got.val, exp.val):
                    # which member (if any) produced what we got?
                    who = "no-member"
                    for j, pair in enumerate(routines):
                        o = call(pair[idx], x)
                        if o.ok and same(o.val, got.val):
                            who = f"member{j}"
                            break
                    if got.val is None and uterm.none_at is not None:
                        who = "none"
                    mode = f"took-{who}-instead-of-{which}"
            else:
                if got.ok:
                    mode = "accepted-but-all-members-reject"
                elif not isinstance(got.exc, ValueError):
                    mode = f"raises:{got.excname}-instead-of-ValueError"
            if mode is None:
                continue
            res.violation(f"C08/{direction}/n={len(uterm.members)}/{nonepos}/{mode}/{in_class(lab)}",
                          f"{direction} with {uterm.src} of {short(f(), 80)}: got {short(got.val if got.ok else got.exc, 80)}, reference ({which}) {short(exp.val if exp.ok else 'ValueError', 80)}",
                          dict(case, only=[direction, lab]))


def judge_pair(term, ns, res, case):
    """tuple[Union[A, B], Union[B, A]]: each position follows its own declared order."""
    ann = term.ann(ns)
    bu = timed(E.BUILD_LIMIT, typelib.unmarshaller, ann)
    res.evals += 1
    if not bu.ok:
        res.violation(f"C08/both-orders/build/{bu.excname}", f"cannot build {term.src}: {bu!r}", case)
        return
    u1, u2 = term.args
    a, b = u1.members
    _, _, ua = E.routines_for(a, ns)
    _, _, ub = E.routines_for(b, ns)
    if not (ua.ok and ub.ok):
        return
    for lab, f in input_pool(ns):
        if one_shot(lab):
            continue
        x = f()
        e1, w1 = reference(u1, [(None, ua.val), (None, ub.val)], x, 1)
        e2, w2 = reference(u2, [(None, ub.val), (None, ua.val)], x, 1)
        got = call(bu.val, [x, x])
        res.evals += 1
        res.outcomes.add(h64(term.src, lab, w1, w2, "ok" if got.ok else got.excname))
        if e1.ok and e2.ok:
            res.nontrivial.add(h64(term.src, lab))
            if not got.ok or not (isinstance(got.val, tuple) and len(got.val) == 2 and same(got.val[0], e1.val) and same(got.val[1], e2.val)):
                res.violation("C08/both-orders-in-one-annotation/" + ("raises" if not got.ok else "one-routine-serves-both-orders"),
                              f"unmarshal({term.src}, [x, x]) with x={short(f(), 60)}: got {short(got.val if got.ok else got.exc, 80)}, expected ({short(e1.val, 40)}, {short(e2.val, 40)})",
                              dict(case, label=lab))
        elif got.ok:
            res.violation("C08/both-orders-in-one-annotation/accepted-but-a-position-rejects", f"unmarshal({term.src}, [x, x]) with x={short(f(), 60)} returned {short(got.val, 80)}", dict(case, label=lab))


def run_unit(unit, tier, res):
    kind, a, b = unit
    ns = prelude.prelude().__dict__
    for i in range(a, b):
        cold.clear_all()
        res.programs += 1
        if kind == "u":
            u = unions(MAXLEN[tier])[i]
            judge_union(u, ns, res, {"kind": "u", "i": i, "T": u.src})
            if len(res.samples) < 2:
                res.samples.append({"union": u.src})
        else:
            t = pairs()[i]
            judge_pair(t, ns, res, {"kind": "p", "i": i, "T": t.src})


def replay(case, tier, res):
    ns = prelude.prelude().__dict__
    cold.clear_all()
    if case["kind"] == "u":
        judge_union(unions(MAXLEN[tier])[case["i"]], ns, res, case, only=case.get("only"))
    else:
        judge_pair(pairs()[case["i"]], ns, res, case)
