"""C14 - text-like inputs are interchangeable (str / bytes / bytearray / memoryview ro+rw); JSON / literal text == decoded value."""
from __future__ import annotations

import ast
import json

from typelib import serdes

from ..kernel import cold
from ..kernel.canon import chash, short
from ..kernel.guard import call
from ..kernel.runner import h64
from ..refmodel.same import same
from ..universe import inputs, prelude
from ..universe import terms as T
from . import _eval as E

ID = "C14"
SETS = {"quick": ["U1L"], "thorough": ["U1L_all", "R2K", "P:P0q"]}
WR = {"quick": (2, 2), "thorough": (2, 2)}
STEP = 40
EXTRA = ["[1", "{'a':1}", "1,", "{", "]", '{"a": 1', "[1, 2", "nul", "tru", "+1", "1e", "0x", "é", "日本", "a\tb", "a\nb", "\x00", "\x1f", " ", " ",
         "1.0", "-0", "1e5", "-1.5E-3", "01", "1.", ".5", "Infinity", "NaN", "-Infinity", "true", "false", "True", "False", "None", "null",
         '"quoted"', "'quoted'", "b'x'", "[]", "{}", "()", "[[]]", '{"a": {"b": [1, null]}}', "[1, 2, 3]", "(1,)", "{1, 2}", "1 + 1", "__import__('os')",
         "{[1]: 2}", "{{}}", "{[1, 2]}", "{{1: 2}: 3}", "{(1, [2]): 3}", "[1, 2", "(1, 2", "1 if 2 else 3", "[x for x in y]", "f'{a}'", "0o17", "1j", "b'\\xff'",
         "\u0661\u0662", "\uff11\uff12", " 12 ", "1_000", "12345678123456781234567812345678", "0123456789abcdef0123456789abcdef", "\ufeffx", "\ufeff12", "\ufeff[1]", "x\ufeff", "2020-01-01T00:00:00+00:00", "2020-01-01 00:00:00", "00:00", "P1D", "PT", "-P1D", "12345678-1234-1234-1234-123456789012", "a/b", "a+", "\\d"]


def units(tier):
    return E.ranges(SETS[tier], STEP) + [("serdes", 0, 1), ("bare", 0, 1)]


BARE_TARGETS = ["list", "dict", "tuple", "set", "frozenset", "typing.List", "typing.Dict", "typing.Tuple", "typing.Set", "typing.Sequence", "typing.MutableSequence",
                "typing.Iterable", "typing.Collection", "typing.Mapping", "typing.MutableMapping", "collections.abc.Sequence", "collections.abc.Iterable",
                "collections.abc.Collection", "collections.abc.Mapping", "collections.deque", "typing.Deque"]
BARE_TEXTS = ["[1, 2]", '{"a": 1}', '["a", [1]]', "abc", "", "1", "null", "(1, 2)", "{'a': 1}", "[]", "{}", "a,b", " [1] "]


def run_bare(res):
    """(4) unsubscripted concrete and abstract containers as targets (their members pass through, the CARRIER still has to be decoded)"""
    import collections
    import collections.abc
    import typing

    import typelib

    ns = {"typing": typing, "collections": collections}
    for tsrc in BARE_TARGETS:
        T_ = eval(tsrc, dict(ns))  # noqa: S307 - fixed table
        cold.clear_all()
        res.programs += 1
        bu = call(typelib.unmarshaller, T_)
        if not bu.ok:
            res.violation(f"C14/bare/{tsrc}/build:{bu.excname}", f"unmarshaller({tsrc}) cannot be built: {bu!r}", {"kind": "bare"})
            continue
        for s in BARE_TEXTS:
            outs = [(c, call(bu.val, inputs.carry(s, c))) for c in inputs.CARRIERS]
            res.evals += len(outs)
            base = outs[0][1]
            key = h64("bare", tsrc, s, "ok" if base.ok else base.excname)
            res.outcomes.add(key)
            if base.ok:
                res.nontrivial.add(key)
            for c, o in outs[1:]:
                if not ((o.ok == base.ok) and (not o.ok or same(o.val, base.val))):
                    what = "raises:" + o.excname if (base.ok and not o.ok) else ("accepts" if not base.ok else "differs")
                    res.violation(f"C14/bare/{tsrc}/{c}-{what}/{E.text_feature(s)}",
                                  f"unmarshal({tsrc}, {s!r}) as str -> {short(base.val if base.ok else base.exc, 80)} but as {c} -> {short(o.val if o.ok else o.exc, 80)}", {"kind": "bare"})
                    break


def meta(tier):
    return {
        "rule": "every term without bytes-like members of the named sets x every string of A(str) + wire texts of V(T) + malformed JSON + control / non-ASCII / look-alike strings "
        "x the six carriers (str, bytes, bytearray, read-only and writable memoryview, memoryview of a slice of a larger buffer): the outcomes are pairwise same or all raise; for collection / mapping / structured T and every wire value m, json.dumps(m) and repr(m) (in every carrier) "
        "give the same result as m itself (or all raise); serdes.load / strload / decode against json.loads, literal_eval and identity; "
        "non-trivial = at least one carrier returned; distinct by (T, string, outcome)",
        "bounds": {"term_sets": SETS[tier], "w_r": WR[tier], "extra_strings": len(EXTRA)},
        "assumptions": ["cold state per program", "strict JSON only (finite numbers, ints within 64 bit) for the json.loads comparison"],
        "exhaustive": True,
    }


def strings_for(term, ns, vals):
    out, seen = [], set()
    for s in T.STRS + EXTRA:
        if s not in seen:
            seen.add(s)
            out.append(("s", s))
    for vi, v in enumerate(vals[:40]):
        w = call(term.wire, ns, v)
        if not w.ok:
            continue
        if isinstance(w.val, str):
            if w.val not in seen:
                seen.add(w.val)
                out.append((f"wiretext{vi}", w.val))
        elif inputs.jsonable(w.val):
            j = json.dumps(w.val)
            if j not in seen:
                seen.add(j)
                out.append((f"wirejson{vi}", j))
    return out


def run_term(setname, i, term, tier, res, only=None):
    if term.has_bytes:
        res.skipped += 1
        return
    prog = E.Prog(term)
    try:
        res.programs += 1
        bu = prog.unmarshaller()
        if not bu.ok:
            E.report_build_failure(ID, prog, bu, res, setname, i, "unmarshaller")
            return
        u, ns = bu.val, prog.ns
        vals = E.values_capped(term, ns, *WR[tier], res)
        # (1) carriers
        for lab, s in strings_for(term, ns, vals):
            if only is not None and only != ["carriers", lab, s]:
                continue
            outs = []
            for c in inputs.CARRIERS:
                try:
                    x = inputs.carry(s, c)
                except UnicodeEncodeError:
                    outs = None
                    break
                outs.append((c, call(u, x)))
            if outs is None:
                continue
            res.evals += len(outs)
            base = outs[0][1]
            key = h64(term.src, s, "ok" if base.ok else base.excname)
            res.outcomes.add(key)
            if any(o.ok for _, o in outs):
                res.nontrivial.add(key)
            for c, o in outs[1:]:
                agree = (o.ok == base.ok) and (not o.ok or same(o.val, base.val))
                if not agree:
                    what = "raises:" + o.excname if (base.ok and not o.ok) else ("accepts" if not base.ok else "differs")
                    res.violation(f"C14/carriers/{E.shallow_kind(term)}/{c}-{what}/{E.text_feature(s)}",
                                  f"unmarshal({term.src}, {s!r}) as str -> {short(base.val if base.ok else base.exc, 80)} but as {c} -> {short(o.val if o.ok else o.exc, 80)}",
                                  {"set": setname, "i": i, "only": ["carriers", lab, s], "T": term.src})
                    break
        # (2) JSON / literal text of a wire value == the decoded value
        if term.kind not in ("leaf", "literal", "optional", "union") or term.kind == "struct":
            for vi, v in enumerate(vals[:30]):
                w = call(term.wire, ns, v)
                if not w.ok:
                    continue
                m = w.val
                if only is not None and (only[0] != "text" or only[1] != vi):
                    continue
                direct = call(u, m)
                texts = [(rn, rv) for rn, rv in inputs.renderings(m) if rn != "wire"]
                # JSON cannot carry every wire value faithfully (int keys become text): only texts that decode back to m itself
                texts = [(rn, rv) for rn, rv in texts if rn != "json" or same(json.loads(rv), m)]
                texts += [("json-ws", " \n" + rv + "\n ") for rn, rv in texts if rn == "json"]
                for rn, text in texts:
                    for c in inputs.CARRIERS:
                        o = call(u, inputs.carry(text, c))
                        res.evals += 1
                        agree = (o.ok == direct.ok) and (not o.ok or same(o.val, direct.val))
                        res.outcomes.add(h64(term.src, "text", rn, c, vi, "ok" if o.ok else o.excname))
                        if not agree:
                            what = "raises:" + o.excname if (direct.ok and not o.ok) else ("accepts" if not direct.ok else "differs")
                            res.violation(f"C14/text-equals-decoded/{E.shallow_kind(term)}/{rn}/{c}-{what}",
                                          f"unmarshal({term.src}, {text!r} as {c}) -> {short(o.val if o.ok else o.exc, 80)} but the decoded value {short(m, 60)} -> {short(direct.val if direct.ok else direct.exc, 80)}",
                                          {"set": setname, "i": i, "only": ["text", vi], "T": term.src})
                            break
        if len(res.samples) < 2:
            res.samples.append({"T": term.src, "strings": len(strings_for(term, ns, vals))})
    finally:
        prog.close()


def _scramble(x, _d=0):
    """change every mutable container reachable from x in place"""
    if _d > 6:
        return
    if isinstance(x, list):
        for e in x:
            _scramble(e, _d + 1)
        x.append("scrambled")
    elif isinstance(x, dict):
        for e in list(x.values()):
            _scramble(e, _d + 1)
        x["scrambled"] = True
    elif isinstance(x, set):
        x.add("scrambled")
    elif isinstance(x, tuple):
        for e in x:
            _scramble(e, _d + 1)


def run_serdes(res):
    """(3) serdes.load / strload / decode."""
    cold.clear_all()
    ns = prelude.prelude().__dict__
    res.programs += 1
    case = {"kind": "serdes"}
    # JSON text of pool values
    pool = [None, True, False, 0, 1, -1, 2**63 - 1, -(2**63), 1.5, -2.5, 1e22, 5e-324, "", "a", "é", "\x00", '"', "null", [], {}, [1, "a", None], {"a": 1}, {"a": {"b": [1, 2.5, None, True]}},
            [[]], [{}], {"k": []}, ["1", "true"], {"1": 1}, [1e16, 0.1], {"é": "日本"}]
    # RFC 8259 allows insignificant whitespace around the value (and between tokens: indent=)
    texts = []
    for v in pool:
        j = json.dumps(v)
        texts += [j, " " + j, "\n" + j + "\n", "\t" + j, "\r\n" + j, j + " ", json.dumps(v, indent=1), json.dumps(v, separators=(",", ":"))]
    texts = list(dict.fromkeys(texts))
    for text in texts:
        want = json.loads(text)
        for c in inputs.CARRIERS:
            for fn_name, fn in (("load", serdes.load), ("strload", serdes.strload)):
                cold.clear_all()
                o = call(fn, inputs.carry(text, c))
                res.evals += 1
                res.outcomes.add(h64("json", text, c, fn_name, "ok" if o.ok else o.excname))
                if o.ok:
                    res.nontrivial.add(h64("json", text, fn_name))
                if not o.ok or not same(o.val, want):
                    res.violation(f"C14/serdes/{fn_name}/json-text/{c}/{'raises:' + o.excname if not o.ok else 'differs'}",
                                  f"serdes.{fn_name}({text!r} as {c}) -> {short(o.val if o.ok else o.exc, 80)}; json.loads gives {short(want, 60)}", case)
    # what is returned belongs to the caller: changing it in place must not change what the same text decodes to next time
    lits = [([1, 2], [3]), {"a": [1]}, [(1, [2])], {1: {2: [3]}}, ({"k": []}, 1), [[], {}], ({1, 2}, [3])]
    for text, ref in [(repr(v), ast.literal_eval) for v in lits] + [("[1, 2], [3]", ast.literal_eval)] + [(json.dumps(v), json.loads) for v in pool if isinstance(v, (list, dict))]:
        want = ref(text)
        for c in inputs.CARRIERS:
            for fn_name, fn in (("load", serdes.load), ("strload", serdes.strload)):
                cold.clear_all()
                o1 = call(fn, inputs.carry(text, c))
                if o1.ok:
                    _scramble(o1.val)
                o2 = call(fn, inputs.carry(text, c))
                res.evals += 2
                res.outcomes.add(h64("reload", text, c, fn_name, "ok" if o2.ok else o2.excname))
                if not o2.ok or not same(o2.val, want):
                    res.violation(f"C14/serdes/{fn_name}/result-changed-in-place-then-reloaded/{type(want).__name__}/{c}",
                                  f"serdes.{fn_name}({text!r} as {c}) after the first result was changed in place -> {short(o2.val if o2.ok else o2.exc, 80)}; expected {short(want, 60)}", case)
    # text that is neither JSON nor a Python literal
    for s in T.STRS + EXTRA:
        isjson = call(json.loads, s).ok
        islit = call(ast.literal_eval, s).ok
        if isjson or islit:
            continue
        for c in inputs.CARRIERS:
            for fn_name, fn in (("load", serdes.load), ("strload", serdes.strload)):
                cold.clear_all()
                o = call(fn, inputs.carry(s, c))
                res.evals += 1
                res.outcomes.add(h64("plain", s, c, fn_name, "ok" if o.ok else o.excname))
                if not o.ok or not (type(o.val) is str and o.val == s):
                    res.violation(f"C14/serdes/{fn_name}/plain-text/{c}/{'raises:' + o.excname if not o.ok else 'differs'}",
                                  f"serdes.{fn_name}({s!r} as {c}) -> {short(o.val if o.ok else o.exc, 80)}; expected the text unchanged as str", case)
    # non-text inputs: identity
    for lab, f in inputs.x0(ns):
        x = f()
        if isinstance(x, (str, bytes, bytearray, memoryview)):
            continue
        o = call(serdes.load, x)
        d = call(serdes.decode, x)
        res.evals += 2
        if not (o.ok and o.val is x):
            res.violation(f"C14/serdes/load/non-text/{inputs.input_class(lab)}", f"serdes.load({short(x, 60)}) -> {o!r}; expected the object itself", case)
        if not (d.ok and d.val is x):
            res.violation(f"C14/serdes/decode/non-text/{inputs.input_class(lab)}", f"serdes.decode({short(x, 60)}) -> {d!r}; expected the object itself", case)
    for s in ["", "a", "é", "1", "null", "\x00"]:
        for c in inputs.CARRIERS:
            d = call(serdes.decode, inputs.carry(s, c))
            res.evals += 1
            if not (d.ok and type(d.val) is str and d.val == s):
                res.violation(f"C14/serdes/decode/{c}", f"serdes.decode({s!r} as {c}) -> {d!r}", case)
    res.samples.append({"serdes": "load/strload/decode clauses", "json_values": len(pool), "json_texts": len(texts)})


def run_unit(unit, tier, res):
    if unit[0] == "serdes":
        run_serdes(res)
        return
    if unit[0] == "bare":
        run_bare(res)
        return
    s, a, b = unit
    for off, term in enumerate(E.unit_terms(unit)):
        run_term(s, a + off, term, tier, res)


def replay(case, tier, res):
    if case.get("kind") == "serdes":
        run_serdes(res)
        return
    if case.get("kind") == "bare":
        run_bare(res)
        return
    term = E.term_set(case["set"])[case["i"]]
    run_term(case["set"], case["i"], term, tier, res, only=case.get("only"))
