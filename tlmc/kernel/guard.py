"""Run one operation of the real code under a wall-clock limit; classify the outcome."""
from __future__ import annotations

import signal
import warnings


class WallLimit(BaseException):
    pass


def _alarm(signum, frame):
    raise WallLimit()


signal.signal(signal.SIGALRM, _alarm)


class Out:
    """Outcome of one guarded operation."""

    __slots__ = ("ok", "val", "exc", "timeout")

    def __init__(self, ok, val=None, exc=None, timeout=False):
        self.ok = ok
        self.val = val
        self.exc = exc
        self.timeout = timeout

    @property
    def excname(self):
        return type(self.exc).__name__ if self.exc is not None else None

    def __repr__(self):
        if self.ok:
            return f"Out(ok, {self.val!r})"
        if self.timeout:
            return "Out(TIMEOUT)"
        return f"Out(raises {self.excname}: {str(self.exc)[:80]})"


def call(f, *a, **k) -> Out:
    """Plain guarded call (no timer). Any Exception (RecursionError included) = 'raises'."""
    try:
        return Out(True, f(*a, **k))
    except Exception as e:  # noqa: BLE001
        return Out(False, exc=e)


def timed(limit_s: float, f, *a, **k) -> Out:
    """Guarded call with a wall-clock limit (non-termination detector)."""
    signal.setitimer(signal.ITIMER_REAL, limit_s)
    try:
        try:
            return Out(True, f(*a, **k))
        except Exception as e:  # noqa: BLE001
            return Out(False, exc=e)
        finally:
            signal.setitimer(signal.ITIMER_REAL, 0)
    except WallLimit:
        signal.setitimer(signal.ITIMER_REAL, 0)
        return Out(False, timeout=True)


warnings.simplefilter("ignore")
