"""canon(x): type-tagged, order-normalised, JSON-able canonical form (DESIGN §4.4).

Used for cross-process comparison, replay files, outcome hashing and state hashing.
"""
from __future__ import annotations

import collections
import dataclasses
import datetime
import decimal
import enum
import fractions
import pathlib
import re
import types
import uuid

from .guard import Out


def _tname(t):
    return getattr(t, "__qualname__", None) or repr(t)


def canon(x, _depth=0):  # noqa: C901
    if _depth > 400:
        return ["deep"]
    t = type(x)
    d = _depth + 1
    if x is None:
        return None
    if t is bool or t is int or t is str:
        return [t.__name__, x] if t is not str else x
    if t is float:
        return ["float", repr(x)]
    if isinstance(x, Out):
        if x.ok:
            return ["ok", canon(x.val, d)]
        if x.timeout:
            return ["timeout"]
        return ["exc", x.excname]
    if isinstance(x, enum.Enum):
        return ["enum", _tname(t), x.name]
    if isinstance(x, (bytes, bytearray)):
        return [t.__name__, x.hex()]
    if t is memoryview:
        return ["memoryview", x.tobytes().hex(), x.readonly]
    if isinstance(x, datetime.datetime):
        off = x.utcoffset()
        return ["dt", _tname(t), x.isoformat(), None if off is None else off.total_seconds(), x.fold]
    if isinstance(x, datetime.date):
        return ["date", _tname(t), x.isoformat()]
    if isinstance(x, datetime.time):
        off = x.utcoffset()
        return ["time", _tname(t), x.isoformat(), None if off is None else off.total_seconds(), x.fold]
    if isinstance(x, datetime.timedelta):
        return ["td", _tname(t), x.days, x.seconds, x.microseconds]
    if isinstance(x, decimal.Decimal):
        return ["dec", _tname(t), str(x)]
    if isinstance(x, fractions.Fraction):
        return ["frac", _tname(t), str(x)]
    if isinstance(x, uuid.UUID):
        return ["uuid", _tname(t), str(x)]
    if isinstance(x, pathlib.PurePath):
        return ["path", _tname(t), str(x)]
    if isinstance(x, re.Pattern):
        return ["re", x.pattern, x.flags]
    if isinstance(x, (int, float, str)):  # subclasses
        return ["sub", _tname(t), repr(x)]
    if isinstance(x, tuple) and hasattr(x, "_fields"):
        return ["nt", _tname(t), [[f, canon(v, d)] for f, v in zip(x._fields, x)]]
    if isinstance(x, (list, tuple, collections.deque)):
        return [t.__name__ if t in (list, tuple) else _tname(t), [canon(v, d) for v in x]]
    if isinstance(x, (set, frozenset)):
        return [_tname(t), sorted((canon(v, d) for v in x), key=repr)]
    if isinstance(x, (dict, types.MappingProxyType)):
        return [_tname(t), [[canon(k, d), canon(v, d)] for k, v in x.items()]]
    if dataclasses.is_dataclass(x) and not isinstance(x, type):
        return ["obj", _tname(t), [[f.name, canon(getattr(x, f.name, "<unset>"), d)] for f in dataclasses.fields(x)]]
    if isinstance(x, type):
        return ["type", _tname(x)]
    if isinstance(x, BaseException):
        return ["exc", _tname(t)]
    slots = [s for c in t.__mro__ for s in getattr(c, "__slots__", ()) if isinstance(s, str) and not s.startswith("__")]
    if hasattr(x, "__dict__") or slots:
        fields = dict(getattr(x, "__dict__", {}))
        for s in slots:
            if hasattr(x, s):
                fields[s] = getattr(x, s)
        if isinstance(x, (types.GeneratorType,)):
            return ["generator"]
        return ["obj", _tname(t), [[k, canon(v, d)] for k, v in sorted(fields.items()) if not k.startswith("__")]]
    if isinstance(x, types.GeneratorType) or hasattr(x, "__next__"):
        return ["iterator", _tname(t)]
    return ["repr", _tname(t), repr(x)[:200]]


def chash(x) -> int:
    import hashlib
    import json

    s = json.dumps(canon(x), sort_keys=False, default=repr, ensure_ascii=True)
    return int.from_bytes(hashlib.blake2b(s.encode(), digest_size=8).digest(), "big")


def short(x, n=160) -> str:
    try:
        r = repr(x)
    except Exception as e:  # noqa: BLE001 - e.g. RecursionError on a very deep value
        r = f"<unprintable {type(x).__name__}: {type(e).__name__}>"
    return r if len(r) <= n else r[: n - 3] + "..."
