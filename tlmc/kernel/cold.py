"""Cold state G0: clear every memo cache of the library (DESIGN §2)."""
from __future__ import annotations

import sys

_CACHES: list | None = None
_NMODS = -1


def _import_all():
    import typelib  # noqa: F401
    import typelib.api  # noqa: F401
    import typelib.binding  # noqa: F401
    import typelib.codecs  # noqa: F401
    import typelib.ctx  # noqa: F401
    import typelib.graph  # noqa: F401
    import typelib.marshals  # noqa: F401
    import typelib.py.classes  # noqa: F401
    import typelib.py.future  # noqa: F401
    import typelib.py.inspection  # noqa: F401
    import typelib.py.refs  # noqa: F401
    import typelib.serdes  # noqa: F401
    import typelib.unmarshals  # noqa: F401


def find_caches(refresh: bool = False) -> list:
    """Every object with cache_clear/cache_info reachable as an attribute of a loaded typelib module.
    Recomputed whenever the set of loaded typelib modules changed (never trust a list computed too early)."""
    global _CACHES, _NMODS
    _import_all()
    mods = [(n, m) for n, m in list(sys.modules.items()) if (n == "typelib" or n.startswith("typelib.")) and m is not None]
    if _CACHES is None or refresh or len(mods) != _NMODS:
        seen: dict[int, object] = {}
        for _, mod in mods:
            for v in list(vars(mod).values()):
                if hasattr(v, "cache_clear") and hasattr(v, "cache_info"):
                    seen[id(v)] = v
        _CACHES = list(seen.values())
        _NMODS = len(mods)
        assert len(_CACHES) >= 40, f"only {len(_CACHES)} typelib caches found - the cold state would not be cold"
    return _CACHES


def clear_all() -> int:
    """Clear all typelib memo caches, the slotted() re-entrancy guard and typing's own alias caches."""
    cs = find_caches()
    for c in cs:
        c.cache_clear()
    from typelib.py import classes

    classes._stack.clear()
    # typing's own generic-alias caches are keyed by ==, and Union equality ignores member order: without this,
    # `(A | B) | None` may come back in the member order of an earlier `(B | A) | None` of the same process.
    import typing

    for f in getattr(typing, "_cleanups", ()):
        f()
    return len(cs)
