"""Cold state G0: clear every memo cache of the library (DESIGN §2)."""
from __future__ import annotations

import sys

_CACHES: list | None = None


def find_caches(refresh: bool = False) -> list:
    global _CACHES
    if _CACHES is None or refresh:
        seen: dict[int, object] = {}
        for modname, mod in list(sys.modules.items()):
            if modname == "typelib" or modname.startswith("typelib."):
                for v in list(vars(mod).values()):
                    if hasattr(v, "cache_clear") and hasattr(v, "cache_info"):
                        seen[id(v)] = v
        _CACHES = list(seen.values())
    return _CACHES


def clear_all() -> int:
    """Clear all typelib memo caches and the slotted() re-entrancy guard."""
    cs = find_caches()
    for c in cs:
        c.cache_clear()
    from typelib.py import classes

    classes._stack.clear()
    # typing's own generic-alias caches are keyed by ==, and Union equality ignores member order: without this,
    # `(A | B) | None` may come back in the member order of an earlier `(B | A) | None` of the same process.
    import typing

    for f in getattr(typing, "_cleanups", ()):
        f()
    return len(cs)
