"""Parallel deterministic driver: shards units, merges results, applies the findings protocol,
re-executes candidate violations in fresh interpreters, writes evidence (DESIGN §4.2, §4.5, §4.6, §5)."""
from __future__ import annotations

import hashlib
import importlib
import json
import multiprocessing as mp
import os
import subprocess
import sys
import time
import traceback

ROOT = os.path.dirname(os.path.dirname(os.path.dirname(os.path.abspath(__file__))))
_OUT = os.environ.get("TLMC_OUT") or ROOT  # scratch runs (seeded-defect evaluation) write elsewhere
EVIDENCE_DIR = os.path.join(_OUT, "evidence")
REPLAY_DIR = os.path.join(_OUT, "replays")
FINDINGS = os.path.join(ROOT, "known_findings.json")
MAX_REEXEC = 12  # distinct new signatures re-executed in fresh interpreters per run


class Result:
    """Merged counters of a set of units."""

    def __init__(self):
        self.evals = 0  # operations executed on the real code and judged
        self.programs = 0
        self.outcomes: set[int] = set()  # hashes of distinct canonical (case, outcome)
        self.nontrivial: set[int] = set()  # hashes of distinct non-trivial cases
        self.states: set[int] = set()  # hashes of distinct explored states
        self._viol: dict[str, list[dict]] = {}
        self.cov: dict[str, int] = {}
        self.samples: list = []
        self.caps: list[str] = []
        self.skipped = 0

    def hit(self, key: str, n: int = 1):
        self.cov[key] = self.cov.get(key, 0) + n

    @property
    def violations(self) -> list[dict]:
        return [v for vs in self._viol.values() for v in vs]

    def violation(self, sig: str, what: str, case):
        # keep at most 3 witnesses per signature
        vs = self._viol.setdefault(sig, [])
        if len(vs) < 3:
            vs.append({"sig": sig, "what": what, "case": case})
        self.hit("viol:" + sig)

    def merge(self, o: "Result"):
        self.evals += o.evals
        self.programs += o.programs
        self.outcomes |= o.outcomes
        self.nontrivial |= o.nontrivial
        self.states |= o.states
        for sig, ovs in o._viol.items():
            vs = self._viol.setdefault(sig, [])
            vs.extend(ovs[: 3 - len(vs)])
        for k, n in o.cov.items():
            self.cov[k] = self.cov.get(k, 0) + n
        if len(self.samples) < 12:
            self.samples.extend(o.samples[: 12 - len(self.samples)])
        self.caps.extend(c for c in o.caps if c not in self.caps)
        self.skipped += o.skipped


def h64(*parts) -> int:
    s = "\x1f".join(p if isinstance(p, str) else repr(p) for p in parts)
    return int.from_bytes(hashlib.blake2b(s.encode("utf-8", "surrogatepass"), digest_size=8).digest(), "big")


_CHECK = None
_TIER = None


def _load(check_id: str):
    return importlib.import_module(f"tlmc.checks.{check_id.lower()}")


def _init_worker(check_id, tier):
    global _CHECK, _TIER
    _CHECK = _load(check_id)
    _TIER = tier
    if hasattr(_CHECK, "init_worker"):
        _CHECK.init_worker(tier)


def _work(chunk):
    res = Result()
    try:
        for unit in chunk:
            _CHECK.run_unit(unit, _TIER, res)
    except BaseException:  # noqa: BLE001 - harness error, must be loud
        return ("ERR", traceback.format_exc())
    return ("OK", res)


def _chunks(units, n_chunks, seed):
    # deterministic strided sharding; the seed only rotates the assignment
    n = len(units)
    if n == 0:
        return []
    n_chunks = max(1, min(n_chunks, n))
    rot = seed % n_chunks
    out = [[] for _ in range(n_chunks)]
    for i, u in enumerate(units):
        out[(i + rot) % n_chunks].append(u)
    return out


def load_findings(prop: str):
    try:
        with open(FINDINGS) as f:
            data = json.load(f)
    except FileNotFoundError:
        return {}, {}
    openf, fixed = {}, {}
    for e in data.get("findings", []):
        if e.get("property") != prop:
            continue
        (openf if e.get("status") == "open" else fixed)[e["signature"]] = e
    return openf, fixed


def write_replay(prop, tier, v):
    d = os.path.join(REPLAY_DIR, prop)
    os.makedirs(d, exist_ok=True)
    name = hashlib.blake2b(v["sig"].encode(), digest_size=6).hexdigest()
    path = os.path.join(d, f"{name}.json")
    with open(path, "w") as f:
        json.dump({"property": prop, "tier": tier, "signature": v["sig"], "what": v["what"], "case": v["case"]}, f, indent=1, default=repr)
    return path


def reexec(path) -> list[set]:
    """Replay twice in fresh interpreters; return the signature sets observed."""
    outs = []
    for _ in range(2):
        p = subprocess.run(
            [sys.executable, "-m", "tlmc", "replay", path, "--quiet"],
            cwd=ROOT,
            capture_output=True,
            text=True,
            timeout=600,
        )
        sigs = {line.split("SIG=", 1)[1].strip() for line in p.stdout.splitlines() if line.startswith("SIG=")}
        if p.returncode not in (0, 1):
            sigs.add("<replay-error rc=%d: %s>" % (p.returncode, p.stderr.strip()[-300:]))
        outs.append(sigs)
    return outs


def replay_file(path, quiet=False) -> int:
    with open(path) as f:
        data = json.load(f)
    check = _load(data["property"])
    if hasattr(check, "init_worker"):
        check.init_worker(data.get("tier", "quick"))
    res = Result()
    check.replay(data["case"], data.get("tier", "quick"), res)
    sigs = sorted({v["sig"] for v in res.violations})
    for s in sigs:
        print("SIG=" + s)
    if not quiet:
        for v in res.violations:
            print("  ", v["what"])
        print("expected signature:", data["signature"], "->", "REPRODUCED" if data["signature"] in sigs else "not reproduced")
    return 1 if sigs else 0


def run_check(check_id: str, tier: str, seed: int, workers: int | None = None) -> int:
    t0 = time.time()
    check = _load(check_id)
    prop = check.ID
    workers = workers or int(os.environ.get("TLMC_WORKERS", "0")) or os.cpu_count() or 4
    if hasattr(check, "init_worker"):
        check.init_worker(tier)
    units = list(check.units(tier))
    total = Result()
    if workers == 1 or len(units) <= 1:
        for u in units:
            check.run_unit(u, tier, total)
    else:
        per = getattr(check, "CHUNKS_PER_WORKER", 8)
        chunks = _chunks(units, workers * per, seed)
        ctx = mp.get_context("fork")
        with ctx.Pool(workers, initializer=_init_worker, initargs=(check_id, tier), maxtasksperchild=getattr(check, "MAXTASKS", 16)) as pool:
            for status, payload in pool.imap_unordered(_work, chunks):
                if status == "ERR":
                    print(f"HARNESS-ERROR property={prop}\n{payload}", file=sys.stderr)
                    pool.terminate()
                    return 2
                total.merge(payload)

    # ---- findings protocol
    import shutil

    shutil.rmtree(os.path.join(REPLAY_DIR, prop), ignore_errors=True)
    openf, fixed = load_findings(prop)
    by_sig: dict[str, list[dict]] = {}
    for v in total.violations:
        by_sig.setdefault(v["sig"], []).append(v)
    known_hit, new_sigs = [], []
    for sig in sorted(by_sig):
        if sig in openf:
            known_hit.append(sig)
        else:
            new_sigs.append(sig)
    unreproduced, confirmed = [], []
    for sig in new_sigs[:MAX_REEXEC]:
        v = by_sig[sig][0]
        path = write_replay(prop, tier, v)
        if os.environ.get("TLMC_NO_REEXEC"):
            confirmed.append((sig, path, v))
            continue
        outs = reexec(path)
        if all(sig in o for o in outs):
            confirmed.append((sig, path, v))
        else:
            unreproduced.append({"sig": sig, "replay": path, "observed": [sorted(o) for o in outs]})
    for sig in new_sigs[MAX_REEXEC:]:
        v = by_sig[sig][0]
        confirmed.append((sig, write_replay(prop, tier, v), v))  # beyond the re-exec budget: report as is

    for sig in known_hit:
        print(f"KNOWN-FINDING: property={prop} {openf[sig].get('what', sig)} [{sig}]")
    for sig, path, v in confirmed:
        note = " (signature previously recorded as FIXED - regression)" if sig in fixed else ""
        print(f"VIOLATION property={prop} replay={path}")
        print(f"    signature: {sig}{note}")
        print(f"    what: {v['what']}")
    for u in unreproduced:
        print(f"UNREPRODUCED candidate property={prop} sig={u['sig']} replay={u['replay']} (not counted as a violation)")

    wall = time.time() - t0
    meta = check.meta(tier) if hasattr(check, "meta") else {}
    # "states": explicit-state checks (STATEFUL = True) count distinct explored states/histories; the
    # enumeration checks count distinct canonical (program, input, outcome) cases
    states = len(total.states) if getattr(check, "STATEFUL", False) and total.states else len(total.outcomes)
    cov = {
        "states": max(states, 0),
        "transitions": total.evals,
        "traces_validated_against_impl": total.evals,
        "evaluations": total.evals,
        "distinct_nontrivial": len(total.nontrivial) if total.nontrivial else len(total.outcomes),
        "distinct_outcomes": len(total.outcomes),
        "explicit_states": len(total.states),
        "programs": total.programs,
        "rule": meta.get("rule", ""),
        "samples": total.samples[:12] or ["<no samples recorded>"],
        "exhaustive": bool(meta.get("exhaustive", True)) and not total.caps,
        "caps_hit": total.caps,
        "bounds": meta.get("bounds", {}),
        "units": len(units),
        "workers": workers,
        "skipped": total.skipped,
        "coverage_tables": {k: v for k, v in sorted(total.cov.items()) if not k.startswith("viol:")},
        "violation_signature_counts": {k[5:]: v for k, v in sorted(total.cov.items()) if k.startswith("viol:")},
        "known_findings_hit": known_hit,
        "stale_open_findings": sorted(set(openf) - set(known_hit)),
        "unreproduced": unreproduced,
        "explanation": meta.get("explanation", ""),
    }
    ev = {
        "property_id": prop,
        "tier": tier,
        "seed": seed,
        "level": "model_checking",
        "coverage": cov,
        "assumptions": meta.get("assumptions", []),
        "wall_s": round(wall, 2),
        "violations": len(confirmed),
    }
    os.makedirs(EVIDENCE_DIR, exist_ok=True)
    with open(os.path.join(EVIDENCE_DIR, f"{prop}.json"), "w") as f:
        json.dump(ev, f, indent=1, default=repr)
    print(
        f"{prop} tier={tier} seed={seed} units={len(units)} programs={total.programs} executions={total.evals} "
        f"states={states} distinct_outcomes={len(total.outcomes)} known={len(known_hit)} new={len(confirmed)} "
        f"unreproduced={len(unreproduced)} caps={total.caps} wall={wall:.1f}s"
    )
    return 1 if confirmed else 0
