"""python -m tlmc check C07 [--tier quick|thorough] | replay <file> | list"""
from __future__ import annotations

import os
import sys


def _bootstrap():
    """Own the ambient nondeterminism before anything is imported (DESIGN §2.1)."""
    seed = int(os.environ.get("VERIF_SEED", "0") or 0)
    want = str(seed % (2**32))
    if os.environ.get("PYTHONHASHSEED") != want or os.environ.get("TZ") != "UTC":
        env = dict(os.environ)
        env["PYTHONHASHSEED"] = want
        env["TZ"] = "UTC"
        env["PYTHONDONTWRITEBYTECODE"] = "1"
        os.execve(sys.executable, [sys.executable, "-m", "tlmc", *sys.argv[1:]], env)
    src = os.environ.get("TLMC_SRC")
    if src:
        sys.path.insert(0, src)
    import time

    time.tzset()
    import warnings

    warnings.simplefilter("ignore")
    sys.setrecursionlimit(1000)
    return seed


def main(argv):
    seed = _bootstrap()
    from tlmc.kernel import runner

    if not argv:
        print(__doc__)
        return 2
    cmd = argv[0]
    if cmd == "check":
        cid = argv[1]
        tier = os.environ.get("VERIF_TIER") or "quick"
        if "--tier" in argv:
            tier = argv[argv.index("--tier") + 1]
        workers = None
        if "--workers" in argv:
            workers = int(argv[argv.index("--workers") + 1])
        return runner.run_check(cid, tier, seed, workers)
    if cmd == "replay":
        return runner.replay_file(argv[1], quiet="--quiet" in argv)
    if cmd == "list":
        d = os.path.join(os.path.dirname(__file__), "checks")
        print(" ".join(sorted(f[:-3].upper() for f in os.listdir(d) if f.startswith("c") and f.endswith(".py"))))
        return 0
    print(__doc__)
    return 2


if __name__ == "__main__":
    sys.exit(main(sys.argv[1:]))
