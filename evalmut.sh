#!/bin/bash
# usage: evalmut.sh <patch.diff> <demo.py|-> <name> <check ids...>
# Applies the patch in a scratch worktree of /repo HEAD, runs the repository suite, the demo, and the given quick checks
# against the patched tree (TLMC_SRC), writing evidence/replays under a scratch directory. Removes the worktree afterwards.
patch=$(realpath $1); demo=$2; [ "$demo" != "-" ] && demo=$(realpath $demo); name=$3; shift 3
wt=/tmp/ev/$name; out=/tmp/ev/out-$name
rm -rf $out; mkdir -p /tmp/ev $out
git -C /repo worktree remove --force $wt 2>/dev/null
git -C /repo worktree add -q --detach $wt HEAD || exit 9
if ! git -C $wt apply $patch 2>$out/apply.err; then echo "RESULT $name APPLY-FAILED $(head -1 $out/apply.err)"; git -C /repo worktree remove --force $wt; exit 8; fi
suite=$(cd $wt && PYTHONPATH=$wt/src /venv/bin/python -m pytest -q -p no:cacheprovider --timeout=900 2>&1 | tail -1)
demo_rc=-
if [ "$demo" != "-" ]; then (cd $wt && PYTHONPATH=$wt/src timeout 120 /venv/bin/python $demo >$out/demo.log 2>&1); demo_rc=$?; fi
res=""
for c in "$@"; do
  o=$(cd /verif && TLMC_SRC=$wt/src TLMC_OUT=$out TLMC_NO_REEXEC=1 timeout 1500 /venv/bin/python -m tlmc check $c 2>&1)
  rc=$?
  nsig=$(echo "$o" | grep -c "^VIOLATION")
  first=$(echo "$o" | grep -m1 "signature:" | sed 's/ *signature: //')
  res="$res | $c rc=$rc viol=$nsig ${first}"
done
echo "RESULT $name suite=[$suite] demo_rc=$demo_rc $res"
git -C /repo worktree remove --force $wt
