import datetime, decimal, enum, typing, dataclasses, uuid, warnings, traceback, collections, inspect, collections.abc as cabc
warnings.simplefilter("ignore")
import typelib
from typelib import serdes, graph, binding
from typelib.py import inspection, refs, compat

def t(label, f):
    try:
        print(label, "=>", repr(f()))
    except RecursionError as e:
        print(label, "=> EXC RecursionError")
    except Exception as e:
        print(label, "=> EXC", type(e).__name__, e)

T = typing.TypeVar("T")
class Box(typing.Generic[T]):
    v: T
    def __init__(self, v: T): self.v = v
class NoHints:
    def __init__(self, a, b=1): self.a=a; self.b=b
# C15
for ann in [list[typing.Any], typing.Any, object, list, dict, tuple, set, typing.List, typing.Dict, T,
            typing.Callable[[int], str], typing.Callable, type[int], Box[int], Box, NoHints,
            tuple[tuple[int, ...], tuple[int, ...]], dict[str, typing.Any], tuple[typing.Any, ...], list[T],
            typing.Optional[typing.Any], list[object], dict[str, list[typing.Any]], cabc.Iterator[int], typing.Iterable[int],
            typing.Sequence[int], typing.Mapping[str, int], collections.deque[int], frozenset[int], collections.OrderedDict[str,int],
            collections.defaultdict[str,int], typing.Union[int, typing.Any], list[typing.Callable[[int], str]], type, typing.Type[int]]:
    t(f"unmarshaller {ann}", lambda: type(typelib.unmarshaller(ann)).__name__)
    t(f"marshaller {ann}", lambda: type(typelib.marshaller(ann)).__name__)
t("list[Any] call", lambda: typelib.unmarshal(list[typing.Any], "[1, \"a\"]"))
t("Box[int] call", lambda: typelib.unmarshal(Box[int], {"v": "1"}).v)
t("defaultdict call", lambda: typelib.unmarshal(collections.defaultdict[str,int], {"v": "1"}))
t("Iterator call", lambda: list(typelib.unmarshal(cabc.Iterator[int], ["1"])))
