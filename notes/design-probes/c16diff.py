import sys, types, typing, warnings, time, collections
warnings.simplefilter("ignore")
from typelib import ctx
from typelib.py import refs, inspection, compat
src = '''
import typing
class B0: pass
class B1: pass
NT0 = typing.NewType("NT0", B0); NT1 = typing.NewType("NT1", B1)
AL0 = typing.TypeAliasType("AL0", B0); AL1 = typing.TypeAliasType("AL1", B1)
SAL0 = typing.TypeAliasType("SAL0", "B0"); SAL1 = typing.TypeAliasType("SAL1", "B1")
FIN0 = typing.Final[B0]; FIN1 = typing.Final[B1]
FR0 = typing.ForwardRef("B0", module="tlvgen_c16"); FR1 = typing.ForwardRef("B1", module="tlvgen_c16")
'''
m = types.ModuleType("tlvgen_c16"); sys.modules["tlvgen_c16"] = m; exec(src, m.__dict__)
names = ["B0","NT0","AL0","SAL0","FIN0","FR0","B1","NT1","AL1","SAL1","FIN1","FR1"]
keys = [getattr(m, n) for n in names]
# reference model: independent unwrap & naming
def ref_unwrap(k):
    while True:
        if typing.get_origin(k) in (typing.Final, typing.ClassVar): k = typing.get_args(k)[0]; continue
        if isinstance(k, typing.TypeAliasType):
            v = k.__value__
            if isinstance(v, str): return typing.ForwardRef(v, module=k.__module__)
            k = v; continue
        if hasattr(k, "__supertype__"): k = k.__supertype__; continue
        return k
def ref_name(k):
    # forward reference naming the type
    if isinstance(k, type): return typing.ForwardRef(k.__qualname__, module=k.__module__)
    return None
def model_lookup(store, k):
    if k in store: return store[k]
    if isinstance(k, typing.ForwardRef): raise KeyError
    u = ref_unwrap(k)
    if u in store: return store[u]
    r = ref_name(k)
    if r is not None and r in store: return store[r]
    raise KeyError
seen=set(); frontier=collections.deque([()]); n=0; mism=[]
def build(hist):
    c = ctx.TypeContext(); store = {}
    for op, ki in hist:
        k = keys[ki]
        if op == "ins": c[k] = names[ki]; store[k] = names[ki]
        else:
            try: c[k]
            except KeyError: pass
    return c, store
maxd = int(sys.argv[1])
while frontier:
    h = frontier.popleft()
    c, store = build(h)
    # observe all lookups on fresh copies
    for ki, k in enumerate(keys):
        c2, _ = build(h)
        try: got = ("ok", c2[k])
        except KeyError: got = ("KeyError",)
        except Exception as e: got = ("EXC", type(e).__name__)
        try: exp = ("ok", model_lookup(store, k))
        except KeyError: exp = ("KeyError",)
        n += 1
        if got != exp: mism.append((h, names[ki], got, exp))
    if len(h) >= maxd: continue
    for ki in range(len(keys)):
        if keys[ki] not in store:
            frontier.append(h + (("ins", ki),))
        frontier.append(h + (("get", ki),))
print("lookups checked", n, "mismatches", len(mism))
for x in mism[:10]: print(x)
