import datetime, decimal, enum, typing, dataclasses, uuid, warnings, collections, inspect, collections.abc as cabc, types, fractions, pathlib, re, numbers, time, json, sys
warnings.simplefilter("ignore")
import typelib
from typelib import serdes, graph, codecs
from typelib.py import inspection as I, refs, compat
def t(label, f):
    try:
        r = f()
        print(label, "=>", r if isinstance(r, str) else repr(r))
    except RecursionError as e:
        print(label, "=> EXC RecursionError")
    except Exception as e:
        print(label, "=> EXC", type(e).__name__, str(e)[:200])

@dataclasses.dataclass
class D:
    a: int
    b: typing.Optional[str] = None
# C11 wrappers
NT = typing.NewType("NT", D)
AL = compat.TypeAliasType("AL", D)
SAL = compat.TypeAliasType("SAL", "D")
LAL = compat.TypeAliasType("LAL", list[D])
SLAL = compat.TypeAliasType("SLAL", "list[D]")
NT2 = typing.NewType("NT2", AL)
AL2 = compat.TypeAliasType("AL2", NT)
inp = {"a": "1", "b": 2}
for W in [D, NT, AL, SAL, NT2, AL2, typing.Final[D], typing.ClassVar[D], "D", refs.forwardref("D", module="__main__"), typing.Final[NT], typing.Final[AL]]:
    t(f"root {W}", lambda: typelib.unmarshal(W, inp))
    t(f"root marshal {W}", lambda: typelib.marshal(D(1,"x"), t=W))
for W in [D, NT, AL, SAL, NT2, AL2, "D"]:
    t(f"list[{W}]", lambda: typelib.unmarshal(list[W], [inp]))
    t(f"dict[str,{W}]", lambda: typelib.unmarshal(dict[str, W], {"k": inp}))
    t(f"tuple[{W}, int]", lambda: typelib.unmarshal(tuple[W, int], [inp, "3"]))
    t(f"Optional[{W}]", lambda: typelib.unmarshal(typing.Optional[W], inp))
    t(f"Union[int, {W}]", lambda: typelib.unmarshal(typing.Union[int, W], inp))
for W in [LAL, SLAL]:
    t(f"{W}", lambda: typelib.unmarshal(W, [inp]))
    t(f"dict[str,{W}]", lambda: typelib.unmarshal(dict[str, W], {"k": [inp]}))
def mkfield(W):
    ns = {"W": W, "typing": typing}
    @dataclasses.dataclass
    class H:
        f: W
        g: typing.Final[W] = None
    return H
for W in [D, NT, AL, SAL, NT2, AL2, LAL, SLAL]:
    t(f"field {W}", lambda: typelib.unmarshal(mkfield(W), {"f": inp if W not in (LAL, SLAL) else [inp], "g": inp if W not in (LAL, SLAL) else [inp]}))
