import itertools
def count(n, kinds=5, require_cycle=True):
    links = [(t,k) for t in range(n) for k in range(kinds)]
    per_node = [(l,) for l in links] + [(a,b) for a in links for b in links]
    tot=0
    for combo in itertools.product(per_node, repeat=n):
        if sum(len(c) for c in combo) > n+1: continue
        adj = {i:{t for t,_ in combo[i]} for i in range(n)}
        # reachability from 0
        seen={0}; st=[0]
        while st:
            x=st.pop()
            for y in adj[x]:
                if y not in seen: seen.add(y); st.append(y)
        if len(seen)<n: continue
        if require_cycle:
            # every node has >=1 out-link, finite graph => there is a cycle reachable from 0
            pass
        tot+=1
    return tot
for n in (1,2,3): print(n, count(n))
