import datetime, decimal, enum, typing, dataclasses, uuid, warnings, traceback
warnings.simplefilter("ignore")
import typelib
from typelib import serdes, graph

def t(label, f):
    try:
        print(label, "=>", repr(f()))
    except Exception as e:
        print(label, "=> EXC", type(e).__name__, e)

# C01: timedelta >= 7 days
td = datetime.timedelta(days=8, seconds=1)
t("td iso", lambda: serdes.isoformat(td))
t("td rt", lambda: typelib.unmarshal(datetime.timedelta, typelib.marshal(td)))
t("td neg", lambda: (serdes.isoformat(datetime.timedelta(seconds=-1)), typelib.unmarshal(datetime.timedelta, typelib.marshal(datetime.timedelta(seconds=-1)))))
t("td zero", lambda: (serdes.isoformat(datetime.timedelta(0)), ))
t("td zero rt", lambda: typelib.unmarshal(datetime.timedelta, serdes.isoformat(datetime.timedelta(0))))
t("td us", lambda: (serdes.isoformat(datetime.timedelta(microseconds=5)), typelib.unmarshal(datetime.timedelta, serdes.isoformat(datetime.timedelta(microseconds=5)))))
t("td 59.999999", lambda: (serdes.isoformat(datetime.timedelta(seconds=59, microseconds=999999)), typelib.unmarshal(datetime.timedelta, serdes.isoformat(datetime.timedelta(seconds=59, microseconds=999999)))))
# aware time
tm = datetime.time(12, 30, tzinfo=datetime.timezone(datetime.timedelta(hours=5)))
t("time rt", lambda: typelib.unmarshal(datetime.time, typelib.marshal(tm)))
dtm = datetime.datetime(2020,1,2,3,4,5,6, tzinfo=datetime.timezone(datetime.timedelta(hours=5, minutes=30)))
t("dt rt", lambda: (typelib.unmarshal(datetime.datetime, typelib.marshal(dtm)), typelib.unmarshal(datetime.datetime, typelib.marshal(dtm)).utcoffset()))
t("dt rt class", lambda: type(typelib.unmarshal(datetime.datetime, typelib.marshal(dtm))))
t("dt naive", lambda: typelib.unmarshal(datetime.datetime, typelib.marshal(datetime.datetime(2020,1,1))))
t("date rt", lambda: typelib.unmarshal(datetime.date, typelib.marshal(datetime.date(1,1,1))))
t("date max", lambda: typelib.unmarshal(datetime.date, typelib.marshal(datetime.date(9999,12,31))))
class SE(str, enum.Enum):
    a = "1"
    b = "x"
class IE(enum.IntEnum):
    a = 1
t("strenum rt", lambda: typelib.unmarshal(SE, typelib.marshal(SE.a)))
t("strenum passthrough", lambda: typelib.unmarshal(SE, SE.a))
t("intenum rt", lambda: typelib.unmarshal(IE, typelib.marshal(IE.a)))
# C03
t("tuple arity", lambda: typelib.unmarshal(tuple[int, str], [1]))
class TD(typing.TypedDict):
    a: int
t("typeddict empty", lambda: typelib.unmarshal(TD, {}))
@dataclasses.dataclass
class Node:
    kids: list["Node"] = dataclasses.field(default_factory=list)
    v: int = 0
t("list[Node] root", lambda: typelib.unmarshal(list[Node], [{"kids": [{"v": "3"}], "v": "1"}]))
t("Node root", lambda: typelib.unmarshal(Node, {"kids": [{"v": "3", "kids":[{"v":"4"}]}], "v": "1"}))
t("graph list[Node]", lambda: graph.static_order(list[Node]))
t("graph Node", lambda: graph.static_order(Node))
# C08
t("Union[None,int,str] None", lambda: typelib.unmarshal(typing.Union[None, int, str], None))
t("Decimal|str", lambda: typelib.unmarshal(decimal.Decimal | str, "abc"))
t("Optional[int] None", lambda: typelib.unmarshal(typing.Optional[int], None))
t("int|None|str None", lambda: typelib.unmarshal(typing.Union[int, None, str], None))
# C12
t("Union[int,str] then Union[str,int]", lambda: (typelib.unmarshal(typing.Union[int, str], "1"), typelib.unmarshal(typing.Union[str, int], "1")))
a = typelib.unmarshal(list[int], "[1,2]")
a.append(3)
t("cached list", lambda: typelib.unmarshal(list[int], "[1,2]"))
d1 = datetime.datetime(2020,1,1,12,tzinfo=datetime.timezone.utc)
d2 = d1.astimezone(datetime.timezone(datetime.timedelta(hours=2)))
t("isoformat cache", lambda: (serdes.isoformat(d1), serdes.isoformat(d2)))
# C14
t("bytearray list", lambda: typelib.unmarshal(list[int], bytearray(b"[1,2]")))
t("memoryview list", lambda: typelib.unmarshal(list[int], memoryview(b"[1,2]")))
t("memoryview(bytearray) list", lambda: typelib.unmarshal(list[int], memoryview(bytearray(b"[1,2]"))))
