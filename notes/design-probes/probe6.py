import datetime, decimal, enum, typing, dataclasses, uuid, warnings, traceback, collections, inspect, collections.abc as cabc, types, pickle, copy
warnings.simplefilter("ignore")
import typelib
from typelib import serdes, graph, binding, ctx
from typelib.py import inspection, refs, compat, classes, future

def t(label, f):
    try:
        r = f()
        print(label, "=>", r if isinstance(r, str) else repr(r))
    except RecursionError as e:
        print(label, "=> EXC RecursionError")
    except Exception as e:
        print(label, "=> EXC", type(e).__name__, e)

# C19
@classes.slotted
@dataclasses.dataclass(frozen=True)
class F:
    a: int
    b: list = dataclasses.field(default_factory=list)
    c: str = "x"
t("F", lambda: (F(1), F(1) == F(1), F.__slots__, hasattr(F(1), "__dict__")))
t("F pickle", lambda: pickle.loads(pickle.dumps(F(1, [2], "y"))))
t("F copy", lambda: copy.deepcopy(F(1, [2], "y")))
@classes.slotted
@dataclasses.dataclass
class P:
    a: int = 1
@classes.slotted
@dataclasses.dataclass
class Ch(P):
    b: int = 2
t("Ch", lambda: (Ch(), Ch.__slots__, hasattr(Ch(), "__dict__"), pickle.loads(pickle.dumps(Ch(3,4)))))
@dataclasses.dataclass
class UP:
    a: int = 1
def mk():
    @classes.slotted
    @dataclasses.dataclass
    class Ch2(UP):
        b: int = 2
    return Ch2
t("Ch2 (unslotted base)", mk)
t("stack after fail", lambda: classes._stack)
t("Ch2 again", mk)
def mk2():
    @classes.slotted(weakref=False)
    @dataclasses.dataclass
    class Ch2(UP):
        b: int = 2
    return Ch2, Ch2.__slots__, Ch2(1,2)
t("Ch2 weakref=False", mk2)
classes._stack.clear()
t("Ch2 weakref=False", mk2)
@classes.slotted(weakref=False)
@dataclasses.dataclass(order=True, unsafe_hash=True)
class O:
    a: int
t("O", lambda: (O(1) < O(2), hash(O(1)), O.__slots__, repr(O(1)), pickle.loads(pickle.dumps(O(1)))))
@classes.slotted(weakref=False)
@dataclasses.dataclass(frozen=True)
class FD:
    a: int = 3
    b: int = dataclasses.field(default=4)
t("FD defaults", lambda: (FD(), FD.__slots__, pickle.loads(pickle.dumps(FD(5)))))
@classes.slotted(weakref=False)
@dataclasses.dataclass(frozen=True)
class FCh(FD):
    c: int = 9
t("FCh", lambda: (FCh(), FCh.__slots__, pickle.loads(pickle.dumps(FCh(5,6,7))), copy.copy(FCh(1,2,3))))
# C20
for s in ["str | int", "dict[str, int]", "Literal['a|b']", "list[int | None]", "(int | str) | None", "int | (str | None)", "Callable[[int | str], dict[str, int]]", "tuple[int, ...]", "a.b.c[int]", "1 + 2", "f(x | y)", "list", "x.list", "Annotated[int | str, 'a|b']", "'int | str'", "int|str|float|None", "typing.Optional[int|str]", "dict[str, list[int] | None]", "[int | str]", "Callable[[int | str, list[int]], None]", "Callable[..., int | None]"]:
    t(f"transform {s!r}", lambda: future.transform(s))
