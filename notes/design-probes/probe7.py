import datetime, decimal, enum, typing, dataclasses, uuid, warnings, collections, inspect, collections.abc as cabc, types, fractions, pathlib, re, numbers
warnings.simplefilter("ignore")
import typelib
from typelib.py import inspection as I, refs, compat

T = typing.TypeVar("T")
class MyStr(str): pass
class MyList(list): pass
class MyDict(dict): pass
class MyDate(datetime.date): pass
@dataclasses.dataclass
class DC: a: int
class NT(typing.NamedTuple): a: int
class TD(typing.TypedDict): a: int
class E(enum.Enum): a = 1
class IE(enum.IntEnum): a = 1
NTy = typing.NewType("NTy", int)
AL = compat.TypeAliasType("AL", list[int])
SAL = compat.TypeAliasType("SAL", "list[int]")
class G(typing.Generic[T]): pass
nt2 = collections.namedtuple("nt2", ["a"])

catalogue = [int, bool, float, str, bytes, bytearray, memoryview, list, set, frozenset, tuple, dict, type(None), None,
  datetime.datetime, datetime.date, datetime.time, datetime.timedelta, decimal.Decimal, fractions.Fraction, uuid.UUID, pathlib.Path, pathlib.PurePath, pathlib.PurePosixPath, re.Pattern,
  collections.deque, collections.defaultdict, collections.OrderedDict, collections.Counter, collections.ChainMap, types.MappingProxyType, range, complex, object,
  MyStr, MyList, MyDict, MyDate, DC, NT, nt2, TD, E, IE, NTy, AL, G, G[int],
  typing.List, typing.List[int], list[int], typing.Dict, typing.Dict[str,int], dict[str,int], typing.Set[int], set[int], typing.FrozenSet[int], frozenset[int], typing.Tuple, typing.Tuple[int,...], tuple[int,...], tuple[int,str], typing.Tuple[int,str], tuple[()],
  typing.Sequence, typing.Sequence[int], cabc.Sequence, cabc.Sequence[int], typing.MutableSequence[int], cabc.MutableSequence[int], typing.Collection[int], cabc.Collection[int], typing.Iterable[int], cabc.Iterable[int], typing.Iterator[int], cabc.Iterator[int], cabc.Generator[int,None,None],
  typing.AbstractSet[int], cabc.Set[int], typing.MutableSet[int], cabc.MutableSet[int], typing.Mapping[str,int], cabc.Mapping[str,int], typing.MutableMapping[str,int], cabc.MutableMapping[str,int], typing.Hashable, cabc.Hashable,
  typing.Deque[int], collections.deque[int], typing.DefaultDict[str,int], typing.OrderedDict[str,int], typing.Counter[str], typing.ChainMap[str,int], cabc.KeysView[int], cabc.ValuesView[int], cabc.ItemsView[str,int], cabc.Reversible[int], cabc.Container[int], cabc.Sized, cabc.ByteString,
  typing.Optional[int], typing.Union[int,str], int|str, int|None, typing.Literal[1,2], typing.Literal[1,None], typing.Final[int], typing.ClassVar[int], typing.Any, T, typing.Callable, typing.Callable[[int],str], cabc.Callable, type[int], typing.Type[int], typing.Annotated[int, "x"], typing.Pattern, typing.Pattern[str], re.Pattern[str],
]
preds = ["isbuiltintype","isstdlibtype","isbuiltinsubtype","isstdlibsubtype","isoptionaltype","isuniontype","isfinal","isliteral","isdatetype","isdatetimetype","istimetype","istimedeltatype","isdecimaltype","isfractiontype","isuuidtype","isiterabletype","isiteratortype","istupletype","issequencetype","iscollectiontype","issubscriptedcollectiontype","ismappingtype","isenumtype","isclassvartype","should_unwrap","isfromdictclass","isfrozendataclass","istypeddict","istypedtuple","isnamedtuple","isfixedtupletype","isforwardref","isabstract","istexttype","isstringtype","isbytestype","isnumbertype","isintegertype","isfloattype","isstructuredtype","isgeneric","issubscriptedgeneric","iscallable","isunresolvable","isnonetype","ispatterntype","ispathtype","istypealiastype","origin","args","name","qualname","unwrap","resolve_supertype"]
import sys
errs = collections.Counter()
for p in preds:
    f = getattr(I, p)
    for obj in catalogue:
        try:
            f(obj)
        except Exception as e:
            errs[p] += 1
            print(f"{p}({obj!r}) EXC {type(e).__name__}: {str(e)[:60]}")
print(errs)
