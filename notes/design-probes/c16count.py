import sys, types, typing, warnings, time, collections
warnings.simplefilter("ignore")
from typelib import ctx
from typelib.py import refs, inspection, compat
src = '''
import typing
class B0: pass
class B1: pass
class B2: pass
'''
m = types.ModuleType("tlvgen_c16"); sys.modules["tlvgen_c16"] = m; exec(src, m.__dict__)
def family(b, i):
    nt = typing.NewType(f"NT{i}", b); nt.__module__ = "tlvgen_c16"; setattr(m, f"NT{i}", nt)
    al = typing.TypeAliasType(f"AL{i}", b)
    sal = typing.TypeAliasType(f"SAL{i}", f"B{i}")
    # TypeAliasType __module__ is derived from caller frame; check
    fin = typing.Final[b]
    fr = refs.forwardref(f"B{i}", module="tlvgen_c16")
    return [b, nt, al, sal, fin, fr]
nb = int(sys.argv[1]); maxdepth = int(sys.argv[2])
keys = []
for i in range(nb): keys += family(getattr(m, f"B{i}"), i)
print([ (k, getattr(k, "__module__", None)) for k in keys[:6]])
print("unwrap:", [inspection.unwrap(k) for k in keys[:6]])
def snapshot(c): return frozenset((keys.index(k) if k in keys else repr(k), v) for k, v in dict.items(c))
def rebuild(snap):
    c = ctx.TypeContext()
    for ki, v in snap:
        dict.__setitem__(c, keys[ki] if isinstance(ki, int) else ki, v)
    return c
init = frozenset()
seen = {init}; frontier = collections.deque([(init, 0)]); trans = 0
t0 = time.time()
while frontier:
    s, d = frontier.popleft()
    if d >= maxdepth: continue
    for ki, k in enumerate(keys):
        # insert fresh (not model-stored: approximated by not in dict)
        c = rebuild(s)
        if k not in dict.keys(c):
            c[k] = f"v{ki}"; n = snapshot(c); trans += 1
            if n not in seen: seen.add(n); frontier.append((n, d+1))
        c = rebuild(s)
        try: c[k]
        except KeyError: pass
        n = snapshot(c); trans += 1
        if n not in seen: seen.add(n); frontier.append((n, d+1))
print("states", len(seen), "transitions", trans, "secs", time.time()-t0)
