from __future__ import annotations
import datetime, decimal, enum, typing, dataclasses, uuid, warnings, traceback, collections, inspect, collections.abc as cabc
warnings.simplefilter("ignore")
import typelib
from typelib import serdes, graph, binding
from typelib.py import inspection, refs, compat

def t(label, f):
    try:
        r = f()
        print(label, "=>", r if isinstance(r, str) else repr(r))
    except RecursionError as e:
        print(label, "=> EXC RecursionError")
    except Exception as e:
        print(label, "=> EXC", type(e).__name__, e)

def show(nodes):
    return "\n    " + "\n    ".join(f"{n.type!r} | u={n.unwrapped!r} var={n.var} cyc={n.cyclic}" for n in nodes)

class Outer:
    @dataclasses.dataclass
    class Inner:
        nxt: typing.Optional[Outer.Inner] = None
        v: int = 0

@dataclasses.dataclass
class A:
    b: typing.Optional[B] = None
@dataclasses.dataclass
class B:
    c: list[C] = dataclasses.field(default_factory=list)
@dataclasses.dataclass
class C:
    a: dict[str, A] = dataclasses.field(default_factory=dict)

@dataclasses.dataclass
class Shared:
    x: int
@dataclasses.dataclass
class Diamond:
    l: Shared
    r: Shared
    ls: list[Shared]
    rs: list[Shared]

t("Outer.Inner", lambda: show(graph.static_order(Outer.Inner)))
t("Outer.Inner um", lambda: typelib.unmarshal(Outer.Inner, {"nxt": {"nxt": None, "v": "2"}, "v": "1"}))
t("A", lambda: show(graph.static_order(A)))
t("A um", lambda: typelib.unmarshal(A, {"b": {"c": [{"a": {"k": {"b": None}}}]}}))
t("Diamond", lambda: show(graph.static_order(Diamond)))
t("Diamond um", lambda: typelib.unmarshal(Diamond, {"l": {"x": "1"}, "r": {"x": "2"}, "ls": [{"x": "3"}], "rs": [{"x": "4"}]}))
t("dict[str, A]", lambda: show(graph.static_order(dict[str, A])))
t("dict[str,A] um", lambda: typelib.unmarshal(dict[str, A], {"k": {"b": {"c": [{"a": {"k": {"b": None}}}]}}}))
t("tuple[A, ...] um", lambda: typelib.unmarshal(tuple[A, ...], [{"b": {"c": [{"a": {"k": {"b": None}}}]}}]))
t("Optional[A] um", lambda: typelib.unmarshal(typing.Optional[A], {"b": {"c": [{"a": {"k": {"b": None}}}]}}))
t("str A", lambda: show(graph.static_order("A")))
NT = typing.NewType("NT", A)
t("NewType A", lambda: show(graph.static_order(NT)))
RA = compat.TypeAliasType("RA", "dict[str, RA | int]")
t("RA", lambda: show(graph.static_order(RA)))
t("RA um", lambda: typelib.unmarshal(RA, {"a": {"b": "1"}, "c": "2"}))
LA = compat.TypeAliasType("LA", "list[LA]")
t("LA", lambda: show(graph.static_order(LA)))
t("LA um", lambda: typelib.unmarshal(LA, [[[]], []]))
# same list twice
t("tuple[list[int], list[int]]", lambda: show(graph.static_order(tuple[list[int], list[int]])))
t("dict[str, dict[str,int]] dup", lambda: show(graph.static_order(tuple[dict[str,int], dict[str,int], int])))
t("tuple[list[int], list[int]] um", lambda: typelib.unmarshal(tuple[list[int], list[int]], [["1"],["2"]]))
