import datetime, decimal, enum, typing, dataclasses, uuid, warnings, collections, inspect, types, fractions, pathlib, re, numbers, time, json, sys
warnings.simplefilter("ignore")
import typelib, pendulum
from typelib import serdes, graph, codecs
from typelib.py import inspection as I, refs, compat
def t(label, f):
    try:
        r = f()
        print(label, "=>", r if isinstance(r, str) else repr(r))
    except RecursionError as e:
        print(label, "=> EXC RecursionError")
    except Exception as e:
        print(label, "=> EXC", type(e).__name__, str(e)[:200])
um = typelib.unmarshal; ma = typelib.marshal
# C06
class IE(enum.IntEnum): a = 1
class MyStr(str): pass
t("marshal IntEnum as int", lambda: (ma(IE.a, t=int), type(ma(IE.a, t=int))))
t("marshal MyStr as str", lambda: type(ma(MyStr("x"), t=str)))
t("marshal Enum w/ tuple value", lambda: ma(enum.Enum("X", {"a": (1,2)}).a))
t("marshal IE", lambda: type(ma(IE.a)))
t("marshal float subclass", lambda: type(ma(pendulum.duration(seconds=1), t=datetime.timedelta)))
t("marshal pendulum dt", lambda: ma(pendulum.datetime(2020,1,1), t=datetime.datetime))
t("marshal pendulum duration 8d", lambda: ma(pendulum.duration(days=8), t=datetime.timedelta))
t("marshal tuple[int,...]", lambda: ma((1,2), t=tuple[int,...]))
t("marshal dict keys date", lambda: ma({datetime.date(2020,1,1): 1}, t=dict[datetime.date,int]))
t("marshal dict keys tuple", lambda: ma({(1,2): 1}, t=dict[tuple[int,int],int]))
t("marshal set", lambda: ma({1,2}, t=set[int]))
t("marshal Literal bad", lambda: ma(3, t=typing.Literal[1,2]))
t("marshal Literal ok", lambda: ma(2, t=typing.Literal[1,2]))
t("marshal OrderedDict", lambda: type(ma(collections.OrderedDict(a=1), t=dict[str,int])))
t("marshal bool in int", lambda: (ma(True, t=int), type(ma(True, t=int))))
t("marshal Union[int,str] 'a'", lambda: ma("a", t=typing.Union[int,str]))
t("marshal Union[int,str] '1'", lambda: ma("1", t=typing.Union[int,str]))
t("marshal Union[str,int] 1", lambda: ma(1, t=typing.Union[str,int]))
t("marshal Optional[date] None", lambda: ma(None, t=typing.Optional[datetime.date]))
t("marshal Union[None,int] 1", lambda: ma(1, t=typing.Union[None,int]))
t("marshal date|datetime", lambda: ma(datetime.date(2020,1,1), t=typing.Union[datetime.datetime, datetime.date]))
@dataclasses.dataclass
class D:
    xs: list[int]
    m: dict[str, list[int]]
d = D([1], {"a": [2]})
out = ma(d)
t("fresh", lambda: (out["xs"] is d.xs, out["m"] is d.m, out["m"]["a"] is d.m["a"]))
t("marshal list bare", lambda: (lambda x: ma(x, t=list) is x)([1,2]))
# C02
t("codec dt", lambda: typelib.codec(D).encode(d))
t("codec bytes", lambda: (typelib.codec(bytes).encode(b"\xff"), typelib.codec(bytes).decode(b"\xff")))
t("encode big int", lambda: typelib.encode(2**64, t=int))
t("encode dict int keys", lambda: typelib.encode({1: 2}, t=dict[int,int]))
t("encode custom", lambda: typelib.encode({1: 2}, t=dict[int,int], encoder=lambda v: json.dumps(v).encode()))
t("decode api", lambda: typelib.decode(D, b'{"xs":["1"],"m":{}}'))
t("codec custom", lambda: typelib.codec(D, encoder=lambda v: json.dumps(v).encode(), decoder=json.loads).encode(d))
t("codec set", lambda: typelib.codec(set[int]).decode(typelib.codec(set[int]).encode({1,2})))
t("codec Decimal key", lambda: typelib.codec(dict[str, decimal.Decimal]).decode(typelib.codec(dict[str, decimal.Decimal]).encode({"a": decimal.Decimal("1.10")})))
t("codec float nan", lambda: typelib.codec(float).encode(float("nan")))
t("codec str surrogate", lambda: typelib.codec(str).encode("\ud800"))
t("codec memoryview", lambda: typelib.codec(memoryview).encode(memoryview(b"x")))
t("codec bytearray", lambda: typelib.codec(bytearray).decode(b"x"))
t("codec list[bytes]", lambda: typelib.codec(list[bytes]).encode([b"x"]))
# C07 depth
@dataclasses.dataclass
class N:
    nxt: typing.Optional["N"] = None
    v: int = 0
def build(dp):
    x = None
    for i in range(dp): x = {"nxt": x, "v": str(i)}
    return x
for dp in (1, 5, 50, 150, 300):
    t(f"depth {dp}", lambda: (lambda r: (lambda c: c)(sum(1 for _ in iter(lambda: None, None)) if False else None))(um(N, build(dp))))
def depth(n):
    c=0
    while n is not None: c+=1; assert isinstance(n.v, int); n=n.nxt
    return c
for dp in (1, 5, 50, 150, 250):
    t(f"depth {dp}", lambda: depth(um(N, build(dp))))
    t(f"marshal depth {dp}", lambda: (lambda m: 1)(ma(um(N, build(dp)))))
print(sys.getrecursionlimit())
