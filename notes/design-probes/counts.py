import itertools
# C10: kind sequences up to 5 params
# order: PO* PK* (VP)? KO* (VK)?
def sigs(maxn):
    out = []
    for npo in range(0, maxn+1):
        for npk in range(0, maxn+1-npo):
            for vp in (0,1):
                for nko in range(0, maxn+1-npo-npk-vp):
                    for vk in (0,1):
                        n = npo+npk+vp+nko+vk
                        if n<=maxn: out.append((npo,npk,vp,nko,vk))
    return out
S = sigs(5)
print("kind-shapes <=5:", len(S))
rows = {(a>0,d>0,c>0,e>0,b>0) for a,b,c,d,e in S}
print("truth rows covered:", len(rows))
# call shapes: for each shape: number of pk passed positionally (prefix) 0..npk, each KO given/omitted(default), extras varargs 0..2 if vp, extras kwargs 0..2 if vk, trailing positional params with defaults omitted
tot=0
for (npo,npk,vp,nko,vk) in S:
    # defaults: choose number of trailing positional (po+pk) with defaults: 0..npo+npk ; KO each default or not: 2^nko
    npos = npo+npk
    for ndef in range(0, npos+1):
        for kodef in range(0, 2**nko):
            # calls
            c=0
            for pk_pos in range(0, npk+1):   # first pk_pos of pk passed positionally
                # omitted: trailing defaults can be omitted: choose how many of defaulted params omitted (those must not be passed) - simplified count
                for omit in range(0, ndef+1):
                    for ev in (range(0,3) if vp else (0,)):
                        if ev and pk_pos<npk: continue  # extras need all positional filled
                        for ek in (range(0,3) if vk else (0,)):
                            c+=1
            tot+=c
print("approx (signature-with-defaults, call) pairs:", tot)
