import datetime, decimal, enum, typing, dataclasses, uuid, warnings, traceback, collections, inspect, collections.abc as cabc, types, pickle, copy
warnings.simplefilter("ignore")
import typelib
from typelib import serdes, graph, binding, ctx
from typelib.py import inspection, refs, compat, classes, future

def t(label, f):
    try:
        r = f()
        print(label, "=>", r if isinstance(r, str) else repr(r))
    except RecursionError as e:
        print(label, "=> EXC RecursionError")
    except Exception as e:
        print(label, "=> EXC", type(e).__name__, e)

class NT(typing.NamedTuple):
    a: str
    b: int
# C13
t("NT 2char", lambda: typelib.unmarshal(NT, NT("ab", 1)))
t("NT 3char", lambda: typelib.unmarshal(NT, NT("abc", 1)))
t("str 'null'", lambda: typelib.unmarshal(str, "null"))
t("list[str] ['1']", lambda: typelib.unmarshal(list[str], ["1", "null", "[1]"]))
t("list[str] ['ab','cd']", lambda: typelib.unmarshal(list[str], ["ab", "cd"]))
t("list[tuple[int,int]]", lambda: typelib.unmarshal(list[tuple[int,int]], [(1,2),(3,4)]))
t("tuple[str,...] ('ab',)", lambda: typelib.unmarshal(tuple[str, ...], ("ab","cd")))
t("set[str] {'ab'}", lambda: typelib.unmarshal(set[str], {"ab"}))
t("dict[str,str]", lambda: typelib.unmarshal(dict[str,str], {"a": "1"}))
t("dict[int,str]", lambda: typelib.unmarshal(dict[int,str], {1: "1"}))
@dataclasses.dataclass
class D:
    s: str
    xs: list[str]
t("D", lambda: typelib.unmarshal(D, D("1", ["2"])))
t("list[list[str]] [['ab','cd']]", lambda: typelib.unmarshal(list[list[str]], [["ab","cd"]]))
t("list[list[int]] [[1,2]]", lambda: typelib.unmarshal(list[list[int]], [[1,2],[3,4]]))
t("list[list[int]] [[1,2,3]]", lambda: typelib.unmarshal(list[list[int]], [[1,2,3],[3,4]]))
t("list[str] marshal ab", lambda: typelib.marshal(["ab","cd"], t=list[str]))
t("list[list[int]] marshal", lambda: typelib.marshal([[1,2],[3,4]], t=list[list[int]]))
t("dict marshal of pairs?", lambda: typelib.marshal({"a": 1}, t=dict[str,int]))
# C18
t("iteritems gen empty", lambda: list(serdes.iteritems(iter([]))))
t("iteritems gen", lambda: list(serdes.iteritems(iter([1,2,3]))))
t("iteritems gen pairs", lambda: list(serdes.iteritems(iter([(1,2),(3,4)]))))
t("itervalues gen", lambda: list(serdes.itervalues(iter([1,2,3]))))
t("iteritems NT 2elt", lambda: list(serdes.iteritems(NT("ab", 1))))
t("iteritems list of 2-strs", lambda: list(serdes.iteritems(["ab", "cd"])))
t("itervalues list of 2-strs", lambda: list(serdes.itervalues(["ab", "cd"])))
t("iteritems str", lambda: list(serdes.iteritems("ab")))
t("iteritems set", lambda: list(serdes.iteritems({(1,2)})))
t("iteritems mappingproxy", lambda: list(serdes.iteritems(types.MappingProxyType({"a":1}))))
class PV:
    _p: int
    a: int
    c: typing.ClassVar[int] = 3
    def __init__(self): self._p=1; self.a=2
t("iteritems PV", lambda: list(serdes.iteritems(PV())))
class SL:
    __slots__=("a","_b")
    def __init__(self): self.a=1; self._b=2
t("iteritems SL", lambda: list(serdes.iteritems(SL())))
class VO:
    def __init__(self): self.a=1; self._b=2
t("iteritems VO", lambda: list(serdes.iteritems(VO())))
t("iteritems deque", lambda: list(serdes.iteritems(collections.deque([1,2]))))
t("iteritems [[1,2],[3,4,5]]", lambda: list(serdes.iteritems([[1,2],[3,4,5]])))
