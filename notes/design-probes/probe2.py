import datetime, decimal, enum, typing, dataclasses, uuid, warnings, traceback, collections, inspect
warnings.simplefilter("ignore")
import typelib
from typelib import serdes, graph, binding

def t(label, f):
    try:
        print(label, "=>", repr(f()))
    except Exception as e:
        print(label, "=> EXC", type(e).__name__, e)

# C10: distinct annotations
def f1(a: int, /, b: str, *args: float, c: decimal.Decimal, **kw: bool):
    return (a, b, args, c, kw)
t("all kinds", lambda: binding.bind(f1)("1", 2, "3.5", c="4", z="1"))
t("all kinds kw b", lambda: binding.bind(f1)("1", b=2, c="4", z="1"))
def f2(a: int, b: str): return (a, b)
t("posorkwd kw", lambda: binding.bind(f2)("1", b=2))
t("posorkwd kw2", lambda: binding.bind(f2)(b=2, a="1"))
def f3(a: int, *, c: str): return (a, c)
t("pk+kwonly", lambda: binding.bind(f3)("1", c=2))
def f4(a: int, *args: str, c: float): return (a, args, c)
t("pk+args+kwonly", lambda: binding.bind(f4)("1", 2, 3, c="4"))
def f5(a: int, *args: str, **kw: float): return (a, args, kw)
t("pk+args+kwargs", lambda: binding.bind(f5)("1", 2, 3, z="4"))
t("pk+args+kwargs a by kw", lambda: binding.bind(f5)(a="1", z="4"))
def f6(a: int, /, *, c: str): return (a, c)
t("po+kwonly", lambda: binding.bind(f6)("1", c=2))
def f7(a: int, /, b: str, **kw: float): return (a, b, kw)
t("po+pk+kwargs", lambda: binding.bind(f7)("1", b=2, z="3"))
t("po+pk+kwargs pos", lambda: binding.bind(f7)("1", 2, z="3"))
def f8(a: int, /, *, c: str, **kw: float): return (a, c, kw)
t("po+ko+kwargs", lambda: binding.bind(f8)("1", c=2, z="3"))
def f9(a, b: int): return (a, b)
t("unannotated", lambda: binding.bind(f9)("1", "2"))
def f10(*, c: str, **kw: float): return (c, kw)
t("ko+kwargs", lambda: binding.bind(f10)(c=2, z="3"))
def f11(a: int = 5, *args: str): return (a, args)
t("pk+args", lambda: binding.bind(f11)("1", 2, 3))
t("bad call", lambda: binding.bind(f2)("1"))
t("bad call2", lambda: binding.bind(f2)("1", 2, 3))
def f12(a: int, b: str, *, c: float, **kw: bool): return (a,b,c,kw)
t("pk+ko+kwargs", lambda: binding.bind(f12)("1", b=2, c="3", z=1))
def f13(a: int, b: str, *args: float, c: decimal.Decimal, **kw: bool): return (a,b,args,c,kw)
t("pk+args+ko+kwargs", lambda: binding.bind(f13)("1", 2, "3", c="3", z=1))
t("pk+args+ko+kwargs kw", lambda: binding.bind(f13)(a="1", b=2, c="3", z=1))
