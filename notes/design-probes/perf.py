import datetime, decimal, enum, typing, dataclasses, uuid, warnings, time, functools, gc, sys
warnings.simplefilter("ignore")
import typelib
from typelib import serdes, graph, codecs, marshals, unmarshals
from typelib.py import inspection as I, refs, compat
@dataclasses.dataclass
class D:
    a: int
    b: typing.Optional[str] = None
    c: list[datetime.date] = dataclasses.field(default_factory=list)

def clear_all():
    n = 0
    for modname, mod in list(sys.modules.items()):
        if not modname.startswith("typelib"): continue
        for k, v in vars(mod).items():
            if hasattr(v, "cache_clear"):
                v.cache_clear(); n += 1
    return n
print("caches", clear_all())
N=2000
t0=time.perf_counter()
for i in range(N):
    typelib.unmarshal(D, {"a": "1", "b": 2, "c": ["2020-01-01"]})
print("unmarshal warm us", (time.perf_counter()-t0)/N*1e6)
t0=time.perf_counter()
for i in range(N):
    typelib.unmarshal(datetime.datetime, f"2020-01-01T00:00:{i%60:02d}+01:00")
print("unmarshal dt (distinct strings) us", (time.perf_counter()-t0)/N*1e6)
t0=time.perf_counter()
for i in range(200):
    clear_all()
    typelib.unmarshaller(D); typelib.marshaller(D)
print("cold build ms", (time.perf_counter()-t0)/200*1e3)
t0=time.perf_counter()
for i in range(200):
    T = dict[str, list[tuple[int, typing.Optional[D]]]]
    unmarshals.unmarshaller.cache_clear(); graph.static_order.cache_clear()
    typelib.unmarshaller(T)
print("semi-cold build ms", (time.perf_counter()-t0)/200*1e3)
t0=time.perf_counter()
for i in range(N):
    serdes.isoformat(datetime.timedelta(days=i, seconds=i))
print("isoformat td us", (time.perf_counter()-t0)/N*1e6)
t0=time.perf_counter()
for i in range(N):
    typelib.unmarshal(datetime.date, (datetime.date(2000,1,1)+datetime.timedelta(days=i)).isoformat())
print("date parse us", (time.perf_counter()-t0)/N*1e6)
