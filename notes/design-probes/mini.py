import sys, types, typing, warnings, datetime as dt, decimal, fractions, uuid, pathlib, re, enum, dataclasses, collections, json, itertools
warnings.simplefilter("ignore")
import typelib
from typelib import serdes
src = '''
import dataclasses, typing, enum
class EInt(enum.Enum): a=1; b=2
class EStr(enum.Enum): a="a"; one="1"; n="null"
class EStrMix(str, enum.Enum): a="a"; one="1"; t="true"
class EIntEnum(enum.IntEnum): a=1; b=2
@dataclasses.dataclass
class DC: a: int; b: str = "x"
@dataclasses.dataclass(frozen=True)
class DCfrozen: a: int; b: str = "x"
@dataclasses.dataclass(slots=True)
class DCslots: a: int; b: str = "x"
class NT(typing.NamedTuple): a: int; b: str = "x"
class NT2(typing.NamedTuple): s: str; a: int = 0
class TD(typing.TypedDict): a: int; b: str
class TDnr(typing.TypedDict): a: int; b: typing.NotRequired[str]
class PC:
    a: int; b: str
    def __init__(self, a: int, b: str = "x"): self.a=a; self.b=b
    def __eq__(self, o): return type(o) is type(self) and (self.a, self.b)==(o.a, o.b)
    def __repr__(self): return f"PC({self.a!r},{self.b!r})"
class SC:
    __slots__=("a","b")
    a: int; b: str
    def __init__(self, a: int, b: str = "x"): self.a=a; self.b=b
    def __eq__(self, o): return type(o) is type(self) and (self.a, self.b)==(o.a, o.b)
    def __repr__(self): return f"SC({self.a!r},{self.b!r})"
'''
m = types.ModuleType("tlg_mini"); sys.modules["tlg_mini"]=m; exec(src, m.__dict__)
UTC=dt.timezone.utc; P530=dt.timezone(dt.timedelta(hours=5,minutes=30))
LEAVES = {
 int:[0,1,-1,2**64], bool:[True,False], float:[0.0,1.5,-0.0,1e22,5e-324], str:["","a","ab","1","1.5","null","true","[1]",'{"a": 1}',"2020-01-01","12:00:00","PT1S","é"],
 decimal.Decimal:[decimal.Decimal(x) for x in ("0","-0","1.10","1E+30")], fractions.Fraction:[fractions.Fraction(1,2),fractions.Fraction(5)],
 uuid.UUID:[uuid.UUID(int=0),uuid.UUID(int=2**128-1)], pathlib.PurePosixPath:[pathlib.PurePosixPath(x) for x in (".","a/b","/a","1","null")], pathlib.Path:[pathlib.Path("a"),pathlib.Path("1")],
 re.Pattern:[re.compile("a+"),re.compile("1")], dt.date:[dt.date(1,1,1),dt.date(9999,12,31),dt.date(2020,2,29)],
 dt.datetime:[dt.datetime(1970,1,1,tzinfo=UTC),dt.datetime(2020,2,29,23,59,59,999999,tzinfo=P530),dt.datetime(2020,1,1,tzinfo=UTC,fold=1)],
 dt.time:[dt.time(0,0,tzinfo=UTC),dt.time(12,30,0,1,tzinfo=P530)], dt.timedelta:[dt.timedelta(0),dt.timedelta(seconds=1),dt.timedelta(days=1),dt.timedelta(days=8,seconds=1),dt.timedelta(days=-1),dt.timedelta(microseconds=1)],
 m.EInt:list(m.EInt), m.EStr:list(m.EStr), m.EStrMix:list(m.EStrMix), m.EIntEnum:list(m.EIntEnum),
 typing.Literal[1,2]:[1,2], typing.Literal["1",1]:["1",1], typing.Literal[True,"x",None]:[True,"x",None],
 m.DC:[m.DC(1),m.DC(2,"1")], m.DCfrozen:[m.DCfrozen(1)], m.DCslots:[m.DCslots(1,"null")], m.NT:[m.NT(1),m.NT(2,"ab")], m.NT2:[m.NT2("ab",1),m.NT2("abc")],
 m.TD:[{"a":1,"b":"x"}], m.TDnr:[{"a":1},{"a":1,"b":"1"}], m.PC:[m.PC(1)], m.SC:[m.SC(1,"1")],
}
def hashable(v):
    try: hash(v); return True
    except TypeError: return False
def same(a,b):
    if type(a) is not type(b): return False
    if isinstance(a,(list,tuple,collections.deque)): return len(a)==len(b) and all(same(x,y) for x,y in zip(a,b))
    if isinstance(a,dict): return a.keys()==b.keys() and all(same(a[k],b[k]) for k in a)
    if isinstance(a,(dt.datetime,dt.time)): return a==b and a.utcoffset()==b.utcoffset()
    if isinstance(a,re.Pattern): return a.pattern==b.pattern
    return a==b
terms=[]
for T,vals in LEAVES.items():
    terms.append((T,vals))
    terms.append((list[T],[[],[vals[0]],vals[:2],list(vals)]))
    terms.append((tuple[T,...],[(),tuple(vals[:2])]))
    terms.append((typing.Optional[T],[None]+vals[:2]))
    terms.append((dict[str,T],[{}, {"k":vals[0]}, {"1":vals[-1]}]))
    terms.append((tuple[T,int],[(v,1) for v in vals[:3]]))
    if all(hashable(v) for v in vals): terms.append((set[T],[set(),set(vals[:2])])); terms.append((frozenset[T],[frozenset(vals[:1])]))
    terms.append((collections.deque[T],[collections.deque(vals[:2])]))
    terms.append((typing.Sequence[T],[list(vals[:2])]))
    terms.append((typing.Mapping[str,T],[{"k":vals[0]}]))
fails=collections.OrderedDict(); n=0
def rec(kind,T,v,detail):
    key=(kind,str(T)[:60],detail[:80]); fails.setdefault(key,repr(v)[:80])
def plain(x):
    if type(x) in (type(None),bool,int,float,str): return True
    if type(x) is list: return all(plain(e) for e in x)
    if type(x) is dict: return all(type(k) in (type(None),bool,int,float,str) and plain(e) for k,e in x.items())
    return False
for T,vals in terms:
    for v in vals:
        n+=1
        try: w=typelib.marshal(v,t=T)
        except Exception as e: rec("C01/marshal-raises",T,v,type(e).__name__+":"+str(e)); continue
        if not plain(w): rec("C06/not-plain",T,v,repr(w))
        try: r=typelib.unmarshal(T,w)
        except Exception as e: rec("C01/unmarshal-raises",T,v,type(e).__name__+":"+str(e)); continue
        if not same(r,v): rec("C01/rt-mismatch",T,v,repr(r))
        try:
            p=typelib.unmarshal(T,v)
            if not same(p,v): rec("C13/passthrough",T,v,repr(p))
        except Exception as e: rec("C13/raises",T,v,type(e).__name__+":"+str(e))
        try:
            js=json.dumps(w)
            outs=[]
            for car in (js, js.encode(), bytearray(js.encode()), memoryview(js.encode()), memoryview(bytearray(js.encode()))):
                try: outs.append(("ok",typelib.unmarshal(T,car)))
                except Exception as e: outs.append(("exc",type(e).__name__))
            if not all(o[0]==outs[0][0] and (o[0]=="exc" or same(o[1],outs[0][1])) for o in outs): rec("C14/carriers",T,v,str([o[0] if o[0]=="ok" else o for o in outs]))
        except TypeError as e: rec("C06/json.dumps",T,v,str(e))
print("cases",n,"distinct fail keys",len(fails))
bykind=collections.Counter(k[0] for k in fails); print(bykind)
for k,v in fails.items(): print(k, "<=", v)
