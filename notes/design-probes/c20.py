import ast, itertools, typing, warnings, collections
warnings.simplefilter("ignore")
from typelib.py import future
atoms = ["int", "str", "None", "list", "dict", "tuple", "set", "Pattern", "a.b", "typing.Any", "...", "'int | str'", "Literal['a|b']", "Literal['x[', 1]"]
def gen(d):
    if d == 0:
        yield from atoms; return
    sub = list(gen(d-1))
    yield from sub
    small = sub if d==1 else sub[:40]
    for a in small:
        for g in ["list", "set", "typing.Optional", "x.Seq", "Annotated"]:
            if g == "Annotated": yield f"Annotated[{a}, 'm|n']"
            else: yield f"{g}[{a}]"
    for a, b in itertools.product(small, repeat=2):
        yield f"{a} | {b}"
        yield f"({a}) | ({b})"
        yield f"dict[{a}, {b}]"
        yield f"tuple[{a}, {b}]"
        yield f"Callable[[{a}], {b}]"
exprs = list(dict.fromkeys(gen(2)))
print(len(exprs))
def has_bitor(tree):
    class V(ast.NodeVisitor):
        found = False
        def visit_Subscript(self, n):
            # skip Literal[...] contents
            base = ast.unparse(n.value)
            if base.split(".")[-1] == "Literal":
                self.visit(n.value); return
            self.generic_visit(n)
        def visit_BinOp(self, n):
            if isinstance(n.op, ast.BitOr): self.found = True
            self.generic_visit(n)
    v = V(); v.visit(tree); return v.found
bad = collections.Counter(); ex = {}
for s in exprs:
    try:
        ast.parse(s, mode="eval")
    except SyntaxError:
        continue
    try:
        out = future.transform(s)
    except Exception as e:
        bad["raise "+type(e).__name__] += 1; ex.setdefault("raise", s); continue
    t_in = ast.parse(s, mode="eval"); t_out = ast.parse(out, mode="eval")
    if has_bitor(t_out): bad["bitor remains"] += 1; ex.setdefault("bitor", (s, out))
    if future.transform(out) != out: bad["not fixpoint"] += 1; ex.setdefault("fix", (s, out, future.transform(out)))
    if not has_bitor(t_in) and not any(isinstance(n, ast.Name) and n.id in future._GENERICS for n in ast.walk(t_in)):
        if ast.dump(t_in) != ast.dump(t_out): bad["ast changed"] += 1; ex.setdefault("ast", (s, out))
print(bad); print(ex)
for s in ["(a | b) + c", "a + b | c", "Literal[1 | 2]", "x[a | b].y | z", "f(a | b)", "[a | b for a in c]", "a | b if c else d", "not a | b", "-a | b", "a | b | c | d", "a | (b | (c | d))", "((a | b) | c) | d", "x.y[a | b] | None", "Literal['a'] | None", "list[int]|None", "a@b | c"]:
    try: print(repr(s), "->", future.transform(s))
    except Exception as e: print(repr(s), "EXC", e)
