import datetime, decimal, enum, typing, dataclasses, uuid, warnings, collections, inspect, types, fractions, pathlib, re, numbers, time, json, sys
warnings.simplefilter("ignore")
import typelib, pendulum
from typelib import serdes, graph, codecs
from typelib.py import inspection as I, refs, compat
def t(label, f):
    try:
        r = f()
        print(label, "=>", r if isinstance(r, str) else repr(r))
    except RecursionError as e:
        print(label, "=> EXC RecursionError")
    except Exception as e:
        print(label, "=> EXC", type(e).__name__, str(e)[:200])
um = typelib.unmarshal; ma = typelib.marshal
print(typing.Union[int,str] == typing.Union[str,int], hash(typing.Union[int,str]) == hash(typing.Union[str,int]))
print((int|None) == typing.Optional[int], hash(int|None) == hash(typing.Optional[int]), (int|str)==(str|int), hash(int|str)==hash(str|int))
print(typing.Literal[1] == typing.Literal[True], typing.Literal[1,2] == typing.Literal[2,1], hash(typing.Literal[1,2]) == hash(typing.Literal[2,1]))
print(typing.List[int] == list[int], hash(typing.List[int]) == hash(list[int]))
t("Literal[1,2] True", lambda: um(typing.Literal[1,2], True))
t("Literal[1,2] 1.0", lambda: um(typing.Literal[1,2], 1.0))
t("Literal[1,2] '1'", lambda: um(typing.Literal[1,2], "1"))
t("Literal['1'] 1", lambda: um(typing.Literal["1"], 1))
t("Literal['a'] b'a'", lambda: um(typing.Literal["a"], b"a"))
t("Literal['a'] '\"a\"'", lambda: um(typing.Literal["a"], '"a"'))
t("Literal[1] [1]", lambda: um(typing.Literal[1,2], [1]))
t("Literal[2,1] 1 after Literal[1,2]", lambda: um(typing.Literal[2,1], 3))
class E(enum.Enum): a=1; b="b"
t("Enum '1'", lambda: um(E, "1"))
t("Enum 'a' (name)", lambda: um(E, "a"))
t("Enum 2", lambda: um(E, 2))
# sources
@dataclasses.dataclass
class D: a: int; b: str = "x"
@dataclasses.dataclass
class D2: a: str; c: int = 0
t("D from pairs", lambda: um(D, [("a","1"),("b",2)]))
t("D from pairs gen", lambda: um(D, iter([("a","1"),("b",2)])))
t("D from json", lambda: um(D, '{"a":"1","b":2}'))
t("D from D2", lambda: um(D, D2("5", 1)))
t("D from list of non-pairs", lambda: um(D, [1,2,3]))
t("D from tuple pairs 1", lambda: um(D, [("a","1")]))
t("D from dict extra", lambda: um(D, {"a":"1","zzz":2}))
t("D from str 'ab'", lambda: um(D, "ab"))
t("D from int", lambda: um(D, 5))
t("D from None", lambda: um(D, None))
t("dict[str,int] from pairs", lambda: um(dict[str,int], [("a","1")]))
t("dict[str,int] from D", lambda: um(dict[str,int], D(1,"2")))
t("dict[str,int] from list", lambda: um(dict[str,int], ["5","6","7"]))
t("list[int] from dict", lambda: um(list[int], {"a":"1"}))
t("list[int] from D", lambda: um(list[int], D(1,"2")))
t("list[int] from '1,2'", lambda: um(list[int], "1,2"))
t("list[int] from str 'ab'", lambda: um(list[int], "12"))
t("list[int] from int", lambda: um(list[int], 12))
t("list[str] from 'abc'", lambda: um(list[str], "abc"))
t("tuple[int,str] long", lambda: um(tuple[int,str], [1,2,3]))
t("set[int] from '{1,2}'", lambda: um(set[int], "{1,2}"))
t("int from '[1]'", lambda: um(int, "[1]"))
t("int from [1]", lambda: um(int, [1]))
t("int from {'x':1}", lambda: um(int, {"base":2}))
t("int from '1.5'", lambda: um(int, "1.5"))
t("int from 1.5", lambda: um(int, 1.5))
t("float from 'abc'", lambda: um(float, "abc"))
t("str from None", lambda: um(str, None))
t("str from [1]", lambda: um(str, [1]))
t("None from 'null'", lambda: um(type(None), "null"))
t("None from None", lambda: um(None, None))
t("Optional[int] 'null'", lambda: um(typing.Optional[int], "null"))
t("Optional[int] 'x'", lambda: um(typing.Optional[int], "x"))
t("Optional[str] None", lambda: um(typing.Optional[str], None))
t("Optional[str] 'null'", lambda: um(typing.Optional[str], "null"))
# strload
for s in ["1", "1.5", "null", "true", "True", "None", "[1]", "(1,2)", "1,2", "{1}", "abc", "", " ", "nan", "NaN", "Infinity", "1e400", "0x10", "1_0", "'a'", '"a"', "b'a'", "\x00", "é", "[1", "{'a':1}", "12345678901234567890123"]:
    t(f"load {s!r}", lambda: serdes.load(s))
