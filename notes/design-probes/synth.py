import sys, types, warnings, typing, dataclasses, time
warnings.simplefilter("ignore")
import typelib
from typelib import graph
from typelib.py import refs

def mkmod(name, src):
    m = types.ModuleType(name)
    m.__file__ = f"<tlv:{name}>"
    sys.modules[name] = m
    exec(compile(src, m.__file__, "exec"), m.__dict__)
    return m

src_future = '''
from __future__ import annotations
import dataclasses, typing
@dataclasses.dataclass
class Node:
    kids: list[Node] = dataclasses.field(default_factory=list)
    v: int = 0
Alias = typing.TypeAliasType("Alias", "dict[str, Alias | int]")
def call1(f, *a, **k): return f(*a, **k)
def call2(f, *a, **k): return call1(f, *a, **k)
'''
src_eager = '''
import dataclasses, typing
@dataclasses.dataclass
class Node:
    nxt: typing.Optional["Node"] = None
    v: int = 0
@dataclasses.dataclass
class Item:
    x: int
def call1(f, *a, **k): return f(*a, **k)
'''
a = mkmod("tlvgen_a", src_future)
b = mkmod("tlvgen_b", src_eager)
def t(label, f):
    try: print(label, "=>", repr(f()))
    except Exception as e: print(label, "=> EXC", type(e).__name__, str(e)[:150])
t("a.Node", lambda: typelib.unmarshal(a.Node, {"kids":[{"v":"1"}], "v":"2"}))
t("b.Node", lambda: typelib.unmarshal(b.Node, {"nxt":{"v":"1"}, "v":"2"}))
t("a.Alias", lambda: typelib.unmarshal(a.Alias, {"k":{"j":"1"}}))
t("str ref from harness 'Item'", lambda: typelib.unmarshal("Item", {"x":"1"}))
t("str ref qualified 'tlvgen_b.Item'", lambda: typelib.unmarshal("tlvgen_b.Item", {"x":"1"}))
t("str ref from module frame", lambda: b.call1(typelib.unmarshal, "Item", {"x":"1"}))
t("str ref from module frame depth2", lambda: a.call2(typelib.unmarshal, "Node", {"v":"1"}))
t("fwdref module", lambda: typelib.unmarshal(refs.forwardref("Item", module="tlvgen_b"), {"x":"1"}))
# cache clearing
def caches():
    out = []
    for modname, mod in list(sys.modules.items()):
        if modname == "typelib" or modname.startswith("typelib."):
            for k, v in vars(mod).items():
                if hasattr(v, "cache_clear") and hasattr(v, "cache_info"):
                    out.append((modname, k, v))
    return out
cs = caches(); print(len(cs), sorted({f"{m}.{k}" for m,k,_ in cs})[:100])
t0=time.perf_counter()
for i in range(1000):
    for _,_,c in cs: c.cache_clear()
print("clear us", (time.perf_counter()-t0)/1000*1e6)
