import sys, typing, warnings, time, itertools, datetime, copy
warnings.simplefilter("ignore")
import typelib
from typelib import serdes
def caches():
    out = {}
    for modname, mod in list(sys.modules.items()):
        if modname == "typelib" or modname.startswith("typelib."):
            for k, v in vars(mod).items():
                if hasattr(v, "cache_clear") and hasattr(v, "cache_info"):
                    out[id(v)] = v
    return list(out.values())
CS = caches(); print(len(CS))
def clear():
    for c in CS: c.cache_clear()
d1 = datetime.datetime(2020,1,1,12,tzinfo=datetime.timezone.utc)
d2 = d1.astimezone(datetime.timezone(datetime.timedelta(hours=2)))
ops = {
 "um(U[int,str],'1')": lambda: typelib.unmarshal(typing.Union[int,str], "1"),
 "um(U[str,int],'1')": lambda: typelib.unmarshal(typing.Union[str,int], "1"),
 "um(list,'[1,2]')": lambda: typelib.unmarshal(list, "[1,2]"),
 "um(list[int],'[1,2]')": lambda: typelib.unmarshal(list[int], "[1,2]"),
 "ma(d1)": lambda: typelib.marshal(d1),
 "ma(d2)": lambda: typelib.marshal(d2),
 "load('[1,2]')": lambda: serdes.load("[1,2]"),
 "load(b'[1,2]')": lambda: serdes.load(b"[1,2]"),
 "um(dict,'{\"a\":[1]}')": lambda: typelib.unmarshal(dict, '{"a":[1]}'),
 "um(int,'1')": lambda: typelib.unmarshal(int, "1"),
 "um(float,'1')": lambda: typelib.unmarshal(float, "1"),
 "um(bool,'1')": lambda: typelib.unmarshal(bool, "1"),
}
def canon(x): return (type(x).__name__, repr(x))
def mutate(x):
    if isinstance(x, list): x.append("MUT"); [mutate(e) for e in x[:-1]]
    elif isinstance(x, dict):
        for v in list(x.values()): mutate(v)
        x["MUT"] = 1
names = list(ops)
iso = {}
for n in names:
    clear(); iso[n] = canon(ops[n]())
t0 = time.time(); execs = 0; viol = {}
K = int(sys.argv[1])
for hist in itertools.product(names, repeat=K):
    for probe in names:
        clear()
        for h in hist:
            try: r = ops[h](); mutate(r)
            except Exception: pass
        try: got = canon(ops[probe]())
        except Exception as e: got = ('EXC', type(e).__name__)
        execs += 1
        if got != iso[probe]:
            viol.setdefault((probe, got), hist)
print("execs", execs, "secs", round(time.time()-t0,2), "distinct violations", len(viol))
for k, v in list(viol.items())[:12]: print(k, "after", v)
