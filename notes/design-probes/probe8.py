import datetime, decimal, enum, typing, dataclasses, uuid, warnings, collections, inspect, collections.abc as cabc, types, fractions, pathlib, re, numbers
warnings.simplefilter("ignore")
exec(open("probe7.py").read().split("preds = [")[0].split("import typelib\n",1)[1].replace("from typelib.py import inspection as I, refs, compat","from typelib.py import inspection as I, refs, compat"))
def resolve(o):
    # oracle "class the annotation resolves to"
    seen = 0
    while True:
        if hasattr(o, "__supertype__"): o = o.__supertype__; continue
        if isinstance(o, typing.TypeAliasType): o = o.__value__; continue
        break
    og = typing.get_origin(o) or o
    return og
oracles = {
 "isdatetype": datetime.date, "isdatetimetype": datetime.datetime, "istimetype": datetime.time, "istimedeltatype": datetime.timedelta,
 "isdecimaltype": decimal.Decimal, "isfractiontype": fractions.Fraction, "isuuidtype": uuid.UUID, "isiterabletype": cabc.Iterable, "isiteratortype": cabc.Iterator,
 "istupletype": tuple, "issequencetype": cabc.Sequence, "iscollectiontype": cabc.Collection, "ismappingtype": cabc.Mapping, "isenumtype": enum.Enum,
 "istexttype": (str, bytes, bytearray, memoryview), "isstringtype": str, "isbytestype": (bytes, bytearray, memoryview), "isnumbertype": numbers.Number, "isintegertype": int, "isfloattype": float,
 "ispatterntype": re.Pattern, "ispathtype": pathlib.PurePath,
}
for p, base in oracles.items():
    f = getattr(I, p)
    for obj in catalogue:
        cls = resolve(obj)
        if not inspect.isclass(cls): continue
        try: got = f(obj)
        except Exception as e: got = f"EXC {type(e).__name__}"
        exp = issubclass(cls, base)
        if got != exp:
            print(f"{p}({obj!r}) got={got} oracle={exp} (resolved {cls})")
