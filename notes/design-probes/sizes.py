import itertools
L = ["int","bool","float","str","Decimal","Fraction","UUID","PurePosixPath","Path","Pattern","date","datetime","time","timedelta",
     "EInt","EStr","EMix","EIntEnum","EStrMix","Lit12","Litab","Lit1s1","LitMix","DC","DCslots","DCkw","DCfrozen","NT","TD","TDnr","PC","SC"]
unhash = {"DC","DCslots","DCkw","TD","TDnr","PC","SC"}   # non-frozen dataclass eq=True -> unhashable; PC with __eq__ -> unhashable
keyok = {"str","int","float","bool","Decimal","UUID","date","datetime","EStr","EInt"}
K = ["int","str","Decimal","datetime","timedelta","EStr","Lit1s1","DC","NT","TD"]
K4 = ["int","str","datetime","DC"]
def hashable(t):
    if isinstance(t, str): return t not in unhash
    c = t[0]
    if c in ("frozenset",): return True
    if c in ("tuplevar","tuple2","tuple3"): return all(hashable(a) for a in t[1:])
    if c in ("optional","union2","union3"): return all(hashable(a) for a in t[1:])
    return False
def iskey(t): return isinstance(t, str) and t in keyok
def level(prev, allprev, leaves, ternary=False):
    out = []
    for x in allprev:
        out += [("list",x),("deque",x),("tuplevar",x),("optional",x)]
        if hashable(x): out += [("set",x),("frozenset",x)]
        for k in leaves:
            if iskey(k): out.append(("dict",k,x))
    for a,b in itertools.product(allprev, repeat=2):
        out.append(("tuple2",a,b))
        if a!=b: out.append(("union2",a,b))
    return out
def U(leaves, d):
    allt = list(leaves); 
    for i in range(d):
        new = level(None, allt, leaves)
        allt = list(dict.fromkeys(list(leaves)+new))
    return allt
print("L", len(L), "U1(L)", len(U(L,1)), "U1(K)", len(U(K,1)), "U2(K)", len(U(K,2)), "U1(K4)", len(U(K4,1)), "U2(K4)", len(U(K4,2)))
u2k4 = len(U(K4,2)); 
# U3(K4) count without materialising pairs: n2=|U2|; unary ~6*n2 + dict 2*n2 + pairs 2*n2^2
n2=u2k4; print("U3(K4) approx", 8*n2 + 2*n2*n2)
# restricted U2(K): binary ctors with >=1 leaf side
u1 = U(K,1); nleaf=len(K); n1=len(u1)
restricted = 6*n1 + 6*n1 + 2*(2*nleaf*n1 - nleaf*nleaf)
print("restricted U2(K) approx", restricted)
