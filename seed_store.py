#!/usr/bin/env python3
"""seed_store.py <ID> [extra checks...]: confirm and store the seeded defects of /tmp/mut/<ID>/out as /verif/seeded/<ID>-m<k>/"""
import json, os, re, shutil, subprocess, sys
pid = sys.argv[1]
extra = sys.argv[2:]
src = os.environ.get("SEED_SRC", "/tmp/mut") + f"/{pid}/out"
for k in (1, 2, 3):
    d = f"{src}/m{k}.diff"
    if not os.path.exists(d):
        continue
    name = f"{pid}-{os.environ.get('SEED_WAVE', '')}m{k}"
    dst = f"/verif/seeded/{name}"
    os.makedirs(dst, exist_ok=True)
    shutil.copy(d, f"{dst}/patch.diff")
    demo = f"{src}/m{k}_demo.py"
    if os.path.exists(demo):
        shutil.copy(demo, f"{dst}/demo.py")
    md = open(f"{src}/m{k}.md").read() if os.path.exists(f"{src}/m{k}.md") else ""
    open(f"{dst}/notes.md", "w").write(md)
    checks = [pid] + extra
    out = subprocess.run(["/verif/evalmut.sh", f"{dst}/patch.diff", f"{dst}/demo.py" if os.path.exists(demo) else "-", name.replace("-", "_"), *checks], capture_output=True, text=True, cwd="/verif").stdout
    line = next((l for l in out.splitlines() if l.startswith("RESULT")), "")
    suite = re.search(r"suite=\[(.*?)\]", line)
    demo_rc = re.search(r"demo_rc=(\S+)", line)
    det = {}
    for m in re.finditer(r"\| (C\d+) rc=(\d+) viol=(\d+) ?([^|]*)", line):
        det[m.group(1)] = {"exit": int(m.group(2)), "violation_signatures": int(m.group(3)), "first_signature": m.group(4).strip()}
    meta = {
        "seeded_id": name,
        "breaks_property": pid,
        "needs_to_manifest": md.strip()[:1500],
        "suite_with_change": suite.group(1) if suite else None,
        "demo_exit_with_change": demo_rc.group(1) if demo_rc else None,
        "ran": f"evalmut.sh patch.diff demo.py {name} {' '.join(checks)}  (scratch worktree of /repo HEAD + patch; repository suite; demo; quick checks with TLMC_SRC=<worktree>/src)",
        "detected_by": {c: v for c, v in det.items() if v["exit"] == 1},
        "not_detected_by": [c for c, v in det.items() if v["exit"] != 1],
    }
    json.dump(meta, open(f"{dst}/meta.json", "w"), indent=1)
    print(name, "suite:", meta["suite_with_change"], "demo:", meta["demo_exit_with_change"], "detected_by:", list(meta["detected_by"]), "missed:", meta["not_detected_by"])
